"""C15 -- view lookup does not depend on lookup history, caching or thread interleaving."""
import json
import os
from harness.common import facts as F
from . import translate as T

ID = 'C15'
HERE = os.path.dirname(os.path.abspath(__file__))
CASES = {'quick': 6000, 'thorough': 60000}
PARALLEL = True
PROOF_TIMEOUT = 900
ALLOWED_AXIOMS = ()
RULE = ('(a) nested schedules over {lookup, register, replace}: up to 6 top-level operations, operations injected at every '
        'internal step of an in-progress lookup (after the attribute read, before each adapter query, before the lock, with '
        'the lock held, after the lock) and before/after the clear of a registration, nesting <= 3, ordinary and exception '
        'classifier, pyramid and foreign registries; systematic family + random. (b) request histories on ONE long-lived '
        'application (through _call_view, the Router, Router.invoke_subrequest, invoke_exception_view): predicates, accept, '
        'permissions, MultiViews, exception classes as resources, short-lived per-instance-marked resources '
        '(directlyProvides), steps on several OS threads one after the other, requests probed at every Python step of '
        'MultiView.add, ONE request object dispatched several times (route URL / no-route URL in both orders), the registry '
        're-initialised through pyramid.testing.tearDown and used again, invoke_exception_view on (re-)dispatched request '
        'objects, view statements committed in batches by a non-autocommit Configurator on the live registry with an action '
        'that raises midway, the route added again at run time (with/without use_global_views); every response compared '
        'with a freshly built application that went through the same configuration history; the resolution orders of the '
        'live interfaces compared with the oracle at the end of every history. Non-trivial = some lookup/request was answered by a view and (a) an operation ran inside another / '
        '(b) a registration followed a request; distinct by full case')
ASSUMPTIONS = ['a registration is ONE step (the property injects registrations as whole operations into in-progress lookups; lookups '
               'pre-empting a registration half-way are outside its quantifier) -- except that requests ARE probed at every Python '
               'step of MultiView.add and its callees (in-place addition to a live MultiView; a test, no model side). The '
               'unregister -> registerAdapter window of a single-view -> MultiView conversion is a documented limitation (NOTES.md)',
               'every instruction of the translated programs (attribute read/rebind, dict get/set, one adapter-registry query, '
               'lock acquire/release) is atomic (GIL-level); the adapter registry is a map slot -> view and registerAdapter is one step',
               'deterministic pre-emption realises properly nested interleavings only; free-running threads are a test (thorough tier)',
               'the resolution order (__sro__) of every interface / specification object is fixed for the life of the process '
               '(fail-closed fact over src/pyramid + pin of add_route.register_route_request_iface; observed at the end of every history)',
               'a re-initialisation of the registry (Registry.__init__ run again) is ONE step and is modelled in idle states only '
               '(no lookup or registration in flight); Components.__init__ drops every registration (zope, validated by correspondence)']
TRUSTED = ['translator harness/c15/translate.py (Python ast -> instruction lists, cache key, init program, gen_call_view; fail-closed; '
           '_find_views, _call_view, Registry.__init__ fully translated; the request-type stores of Router.handle_request, the key of '
           'invoke_exception_view, add_route.register_route_request_iface and add_exception_view as fail-closed facts; '
           'Registry._clear_view_lookup_cache read whole (parameter clear_mode_registry); '
           'the rest shape-pinned)',
           'instruction semantics coq/Model/C15.v (validated by correspondence incl. the number of adapter queries per lookup)',
           'zope.interface resolution orders (__sro__) and the adapter registry (oracle input / abstract map)',
           'what ONE view callable / MultiView answers to a request (oracle table per request, validated against the application and a fresh application)']
TECHNIQUE = ('Coq proof (invariant over arbitrary traces of a small-step system, any number of threads; histories with '
             're-initialisations; generated = model for _call_view) about programs translated from the Python AST + differential '
             'correspondence under deterministic pre-emption')
LEVEL_TEXT = ('Machine-checked theorems over every trace (unbounded threads and steps) of the small-step system that runs the '
              'instruction list translated from _find_views / _clear_view_lookup_cache / add_view.register on this run: the cache '
              'invariant, freshness of every lookup that starts after a registration completed, no stale entry after a registration, '
              'misses never cached, concurrent = sequential (each also for the two lock-free bodies). Each other parameter value '
              '(write through the re-read attribute, in-place clear, missing guard) is refuted by a concrete schedule which is also '
              'replayed on the implementation. The theorems extend to histories in which the registry is re-initialised in idle '
              'states (init program translated from Registry.__init__; for every init program that clears the cache and drops the '
              'registrations, in whichever order; an init program that keeps the cache is refuted). The request type a Router '
              'dispatch looks views up with is proved independent of earlier dispatches of the same request object (facts read '
              'from Router.handle_request; refuted without the reset), also for exception-view lookups (combined interface). '
              'A commit on the live registry that fails midway leaves exactly the executed view actions in force and every later '
              'lookup sees them (registration and clear are one action; a clear deferred to a later action = the refuted NoClear '
              'program). The resolution orders are a fixed oracle of every theorem: a regenerated fact says nothing in src/pyramid '
              'rewrites __bases__/__sro__ or a class specification, and a rewrite under a warm cache is refuted by a concrete '
              'history. A re-initialisation interleaved with a lookup (outside the quantifier) is refuted for the order of '
              'Registry.__init__ -- the reason histories re-initialise in idle states -- and proved safe for every init program that '
              'clears the cache last (any split point, any trace running there, operations not straddling a step). '
              'Re-initialisation followed by a commit that fails midway: later lookups see exactly the executed actions on an '
              'empty registry. The judge of request histories (expectation along histories + generated _call_view) is proved sound; '
              'freshness along histories holds without the lock too. _call_view is translated and proved equal to its reference '
              'model (first candidate that does not raise PredicateMismatch answers). '
              'The theorems are for a cache key that contains the view classifier (regenerated fact cache_key_mode); for the key '
              '(request_iface, context_iface, view_name) freshness is refuted by a concrete history and proved only for histories '
              'of ordinary lookups. Lock: mutual exclusion, release by the holder, no deadlock; the schedulers of the wire glue '
              '(nested schedules, histories) are proved sound.')
LEVEL_NOTE = ('Trusted: Coq kernel; instruction semantics and atomicity granularity (GIL-level); the translator; the Python harness. '
              'Free-running thread soak and the atomicity probe of MultiView.add are tests, not part of the proof.')

# interface numbering shared with the model (ids are arbitrary but fixed)
I_INTERFACE, I_REQUEST, I_ROUTE, I_COMBINED = 0, 1, 2, 3
CTX = {'O': 10, 'A': 11, 'B': 12, 'C': 13, 'D': 14, 'E': 15,
       'X': 16, 'Y': 17, 'EXC': 18, 'BASEEXC': 19}      # X(Exception), Y(X): classes that are resources AND exceptions
EXC_CTX = ('X', 'Y')
CTX.update({'M1': 31, 'M2': 32})                   # marker interfaces (contexts of registrations)
MARKS = ('M1', 'M2')
# providedBy(instance) of an instance marked with directlyProvides: a per-(class, marker) specification object that
# lives only as long as something refers to it
SPEC = {('A', 'M1'): 41, ('A', 'M2'): 42, ('E', 'M1'): 43, ('E', 'M2'): 44}


def qctx(st):
    """context interface id of a request step"""
    m = st.get('mark')
    return SPEC[(st['ctx'], m)] if m else CTX[st['ctx']]
FINDING_KEY = 'C15-cache-key-omits-classifier'
NAMES = ['', 'x']
PT_LOCK, PT_UNLOCK, PT_GET, PT_HELD = 100, 101, 102, 103


# ------------------------------------------------------------ facts
def facts(src):
    problems = []
    summary = F.check_shapes(src, os.path.join(HERE, 'pins.json'), problems)
    lookup, vt = T.DEFAULT_LOOKUP, ['IView', 'ISecuredView', 'IMultiView']
    key_names = list(T.KEY_BASE)
    mode, fmode, register = 'Swap', 'Swap', None
    try:
        m = F.Module(src, 'pyramid/view.py')
        fn = m.find('_find_views')
        if fn is None:
            raise T.Unknown('_find_views not found')
        lookup, vt, key_names = T.translate_lookup(fn)
    except Exception as e:
        problems.append('view.py:_find_views not translatable: %s' % e)
    try:
        m = F.Module(src, 'pyramid/registry.py')
        fn = m.find('Registry._clear_view_lookup_cache')
        if fn is None:
            raise T.Unknown('Registry._clear_view_lookup_cache not found')
        mode = T.clear_mode(fn, 'self')
    except Exception as e:
        problems.append('registry.py cache management not recognised: %s' % e)
    # Registry.__init__ (also run on LIVE registries: pyramid.testing.tearDown) -> init program
    init_prog = None
    try:
        init = F.Module(src, 'pyramid/registry.py').find('Registry.__init__')
        if init is None:
            raise T.Unknown('Registry.__init__ not found')
        init_prog = T.translate_init(init, 'clear_mode_registry')
    except Exception as e:
        problems.append('registry.py Registry.__init__ not translatable: %s' % e)
    if init_prog is None:
        init_prog = list(T.DEFAULT_INIT)
    # Router.handle_request: the request type the view lookup of a dispatch is made with
    resets, sets_route = True, True
    try:
        hr = F.Module(src, 'pyramid/router.py').find('Router.handle_request')
        if hr is None:
            raise T.Unknown('Router.handle_request not found')
        resets, sets_route = T.router_iface(hr)
    except Exception as e:
        problems.append('router.py handle_request (request type of the lookup) not recognised: %s' % e)
    try:
        T.request_iface_sites(src)
    except Exception as e:
        problems.append('request_iface stored outside Router.handle_request: %s' % e)
    try:
        m = F.Module(src, 'pyramid/config/__init__.py')
        fn = m.find('Configurator._fix_registry._clear_view_lookup_cache')
        if fn is None:
            raise T.Unknown('fallback _clear_view_lookup_cache not found')
        fmode = T.clear_mode(fn, '_registry')
        outer = m.find('Configurator._fix_registry')
        tail = [T.u(x) for x in outer.body[-2:]]
        want = ["if not hasattr(_registry, '_lock'):\n    _registry._lock = threading.Lock()",
                "if not hasattr(_registry, '_clear_view_lookup_cache'):\n\n    def _clear_view_lookup_cache():\n"
                "        _registry._view_lookup_cache = %s\n    _registry._clear_view_lookup_cache = _clear_view_lookup_cache"
                % ('{}' if fmode == 'Swap' else None)]
        if fmode == 'Swap' and tail != want:
            raise T.Unknown('the statements of _fix_registry that install the lock and the clear: %r' % tail)
    except Exception as e:
        problems.append('config/__init__.py fallback clear not recognised: %s' % e)
    try:
        m = F.Module(src, 'pyramid/config/views.py')
        fn = m.find('ViewsConfiguratorMixin.add_view.register')
        if fn is None:
            raise T.Unknown('add_view.register not found')
        register = T.translate_register(fn, 'clear_mode_registry')
    except Exception as e:
        problems.append('config/views.py register action not recognised: %s' % e)
    try:
        fn = m.find('ViewsConfiguratorMixin.add_view.register_view')
        if fn is None:
            raise T.Unknown('add_view.register_view not found')
        T.register_view_clears(fn)
    except Exception as e:
        problems.append('config/views.py register_view: %s' % e)
    reads_only = True
    try:
        mv = F.Module(src, 'pyramid/view.py')
        fn = mv.find('_call_view')
        if fn is None:
            raise T.Unknown('_call_view not found')
        T.call_view_reads_only(fn)
    except Exception as e:
        reads_only = False
        problems.append('view.py:_call_view does not just iterate over the cached candidate list: %s' % e)
    # the meaning of a cache key (the resolution orders of the interface objects in it) is never rewritten
    orders_fixed = True
    try:
        T.spec_orders_immutable(src)
    except Exception as e:
        orders_fixed = False
        problems.append('resolution orders of interfaces/specifications are rewritten: %s' % e)
    # invoke_exception_view: the key of an exception-view lookup; add_route: a route's request interface is made once
    exc_combined, route_once = True, True
    try:
        fn = F.Module(src, 'pyramid/view.py').find('ViewMethodsMixin.invoke_exception_view')
        if fn is None:
            raise T.Unknown('invoke_exception_view not found')
        exc_combined = T.excview_key(fn)['combined']
    except Exception as e:
        problems.append('view.py:invoke_exception_view (key of the exception-view lookup) not recognised: %s' % e)
    try:
        fn = F.Module(src, 'pyramid/config/routes.py').find('RoutesConfiguratorMixin.add_route.register_route_request_iface')
        if fn is None:
            raise T.Unknown('add_route.register_route_request_iface not found')
        T.route_iface_once(fn)
    except Exception as e:
        route_once = False
        problems.append('config/routes.py: the request interface of a route is not created exactly once: %s' % e)
    # add_exception_view only forwards to add_view with exception_only=True (what the bookkeeping of histories relies on)
    excview_fwd = True
    try:
        fn = F.Module(src, 'pyramid/config/views.py').find('ViewsConfiguratorMixin.add_exception_view')
        if fn is None:
            raise T.Unknown('add_exception_view not found')
        T.exception_view_forwards(fn)
    except Exception as e:
        excview_fwd = False
        problems.append('config/views.py:add_exception_view is not a plain forward to add_view(exception_only=True): %s' % e)
    # _call_view: the control flow around the candidate calls, regenerated
    gen_cv = T.CV_FALLBACK
    try:
        fn = F.Module(src, 'pyramid/view.py').find('_call_view')
        if fn is None:
            raise T.Unknown('_call_view not found')
        gen_cv = T.translate_call_view(fn)
    except Exception as e:
        problems.append('view.py:_call_view not translatable: %s' % e)
    # coverage facts (fail closed): where the cache / the lock are touched, where view adapters are registered, the
    # fragment of the register action that decides classifiers and the clear, the Registry class skeleton
    try:
        T.cache_touch_sites(src)
    except Exception as e:
        problems.append('cache / lock touched outside the modelled functions: %s' % e)
    try:
        T.view_adapter_sites(m.tree)
    except Exception as e:
        problems.append('config/views.py registers view adapters outside add_view.register_view: %s' % e)
    try:
        fn = m.find('ViewsConfiguratorMixin.add_view.register')
        got = T.register_tail(fn)
        want = json.load(open(os.path.join(HERE, 'pins_fragments.json')))['pyramid/config/views.py'][
            'ViewsConfiguratorMixin.add_view.register']
        summary['pyramid/config/views.py:add_view.register[tail]'] = got
        if got != want:
            problems.append('shape pin (fragment) config/views.py:add_view.register from the first register_view call to '
                            'the end changed (%s -> %s)' % (want, got))
    except Exception as e:
        problems.append('config/views.py register action tail: %s' % e)
    try:
        mr = F.Module(src, 'pyramid/registry.py')
        T.registry_class(mr.find('Registry'))
    except Exception as e:
        problems.append('registry.py class Registry: %s' % e)
    mv_stateless = True
    try:
        cls = m.find('MultiView')
        if cls is None:
            raise T.Unknown('class MultiView not found')
        T.multiview_stateless(cls)
    except Exception as e:
        mv_stateless = False
        problems.append('config/views.py MultiView keeps state besides views/media_views/accepts: %s' % e)
    if register is None:
        register = ['RegisterAdapter', 'Clear clear_mode_registry']
    coq = (F.HEADER + 'Require Import Verif.Lib.C15Prog Verif.Lib.C15Init.\n'
           '(* order of the default view_types tuple; IView=0 ISecuredView=1 IMultiView=2 *)\n'
           'Definition view_types : list N := [%s]%%N.\n'
           '(* translated from pyramid.view._find_views *)\n'
           'Definition lookup_prog : list instr :=\n  %s.\n'
           '(* elements of its cache key: %s *)\n'
           'Definition cache_key_mode : key_mode := %s.\n'
           'Definition cache_key_has_view_types : bool := %s.\n'
           '(* Registry._clear_view_lookup_cache / the fallback installed by Configurator._fix_registry *)\n'
           'Definition clear_mode_registry : clear_mode := %s.\n'
           'Definition clear_mode_fallback : clear_mode := %s.\n'
           '(* translated from the register action of add_view (config/views.py) *)\n'
           'Definition register_prog : list instr :=\n  %s.\n'
           '(* the same action on a registry that is not a pyramid Registry (clear installed by _fix_registry) *)\n'
           'Definition register_prog_fallback : list instr :=\n  %s.\n'
           '(* _call_view only iterates over the candidate list it got from _find_views (the cached object) *)\n'
           'Definition call_view_reads_only : bool := %s.\n'
           '(* a MultiView (the object the cache holds) keeps nothing derived from requests: serving only reads it *)\n'
           'Definition multiview_stateless : bool := %s.\n'
           '(* translated from Registry.__init__ (run again on a live registry by pyramid.testing.tearDown) *)\n'
           'Definition init_prog : list init_instr :=\n  %s.\n'
           '(* Router.handle_request: request.request_iface reset to IRequest before routing / set for a matched route *)\n'
           'Definition router_resets_iface : bool := %s.\n'
           'Definition router_sets_route_iface : bool := %s.\n'
           '(* nothing in src/pyramid rewrites __bases__/__sro__ of an interface or the specification of a class *)\n'
           'Definition spec_orders_immutable : bool := %s.\n'
           '(* invoke_exception_view looks exception views up with request_iface.combined of the request\'s own attribute *)\n'
           'Definition excview_uses_combined : bool := %s.\n'
           '(* add_route: the request interface of a route name is created when there is none, an existing one is left alone *)\n'
           'Definition route_iface_created_once : bool := %s.\n'
           '(* add_exception_view forwards to add_view with exception_only=True, the given view and context, nothing else *)\n'
           'Definition add_exception_view_forwards : bool := %s.\n'
           '(* translated from pyramid.view._call_view: which candidate of the list returned by _find_views answers *)\n'
           '%s'
           % ('; '.join(str(T.VIEW_TYPE_IDS[n]) for n in vt), T.coq_prog(lookup), ', '.join(key_names),
              'KeyFull' if 'view_classifier' in key_names else 'KeyTriad', F.coq_bool('view_types' in key_names),
              mode, fmode, T.coq_prog(register), T.coq_prog(register).replace('clear_mode_registry', 'clear_mode_fallback'),
              F.coq_bool(reads_only), F.coq_bool(mv_stateless),
              T.coq_prog(init_prog), F.coq_bool(resets), F.coq_bool(sets_route), F.coq_bool(orders_fixed), F.coq_bool(exc_combined), F.coq_bool(route_once), F.coq_bool(excview_fwd), gen_cv))
    summary.update({'lookup_prog': T.coq_prog(lookup), 'register_prog': T.coq_prog(register).replace('clear_mode_registry', mode),
                    'clear_mode': mode, 'clear_mode_fallback': fmode, 'init_prog': T.coq_prog(init_prog).replace('clear_mode_registry', mode),
                    'router_resets_iface': resets, 'router_sets_route_iface': sets_route,
                    'gen_call_view_is_reference_text': gen_cv == T.CV_FALLBACK, 'spec_orders_immutable': orders_fixed, 'excview_uses_combined': exc_combined, 'route_iface_created_once': route_once, 'add_exception_view_forwards': excview_fwd, 'view_types': vt, 'params': T.flat_params(lookup), 'call_view_reads_only': reads_only, 'multiview_stateless': mv_stateless, 'cache_key': key_names,
                    'cache_key_mode': 'KeyFull' if 'view_classifier' in key_names else 'KeyTriad',
                    'theorems_applying': ('C15_lookup_fresh (full key)' if 'view_classifier' in key_names else
                                          'C15_lookup_fresh_ordinary_only_partial + C15_lookup_fresh_KeyTriad_refuted')})
    return {'coq': coq, 'summary': summary, 'problems': problems}


# ------------------------------------------------------------ cases
# lookup   : {'t':'L', 'req':1|2|3, 'ctx':'A'.., 'name':0|1, 'cl':0|1, 'inj':[[point,[ops]],...]}
# register : {'t':'R', 'rq':1|2, 'ctx':None|'A'.., 'name':0|1, 'sec':0|1, 'tag':int, 'inj':[ops before the clear], 'inj2':[ops after it]}
# case     : {'init':[register ops without inj], 'ops':[ops]}
def L(req, ctx, name=0, inj=None, cl=0):
    """cl: 0 = ordinary lookup (IViewClassifier), 1 = exception-view lookup (IExceptionViewClassifier)"""
    return {'t': 'L', 'req': req, 'ctx': ctx, 'name': name, 'inj': inj or [], 'cl': cl}


def Rg(rq, ctx, name, sec, tag, inj=None, inj2=None):
    return {'t': 'R', 'rq': rq, 'ctx': ctx, 'name': name, 'sec': sec, 'tag': tag, 'inj': inj or [], 'inj2': inj2 or []}


# request history cases: {'hist': [steps]}
#   request      : {'t':'Q', 'req':1|3, 'ctx':'A'.., 'name':0|1, 'm':'GET'|'POST'|'PUT', 'h': Accept header key}  (through _call_view)
#   registration : {'t':'V', 'rq':1|2, 'ctx':None|'A'.., 'name':0|1, 'pred':None|'GET'|'POST', 'acc':None|'html'|'json', 'tag':int}
METHODS = ['GET', 'POST', 'PUT']
PREDS = [None, 'GET', 'POST']
ACC = {None: None, 'html': 'text/html', 'json': 'application/json', 'html1': 'text/html;level=1',
       'plain': 'text/plain'}                                                # accept= of a view
HDR = {None: None, 'html': 'text/html', 'json': 'application/json', 'plain': 'text/plain',
       'jh': 'application/json;q=0.9, text/html;q=0.4', 'html1': 'text/html;level=1', 'textany': 'text/*',
       'anylow': '*/*;q=0.1, application/json', 'xml': 'application/xml'}    # Accept header of a request
FORBIDDEN_ANSWER = 999000         # the request was refused by the permission check of the selected view


def Q(req, ctx, m, name=0, h=None, u=0, s=1, cl=0, via=0):
    """u: 1 = the request carries the credentials the policy accepts; s: 0 = secure=False;
    cl: 0 = ordinary view lookup (_call_view / Router), 1 = exception-view lookup (request.invoke_exception_view with an
    instance of ctx as the exception); via: 1 = through the real Router (root factory returns an instance of ctx)"""
    return {'t': 'Q', 'req': req, 'ctx': ctx, 'name': name, 'm': m, 'h': h, 'u': u, 's': s, 'cl': cl, 'via': via}


def V(rq, ctx, pred, tag, name=0, acc=None, perm=0, exc=0):
    """exc: 0 = add_view(context=ctx), 1 = add_exception_view(context=ctx)"""
    return {'t': 'V', 'rq': rq, 'ctx': ctx, 'name': name, 'pred': pred, 'acc': acc, 'perm': perm, 'exc': exc, 'tag': tag}


def offers(h, present, order):
    """the media types of a MultiView a request accepts, in the order get_views tries them.  Both ingredients are
    oracles outside C15: the server-side order of MultiView.accepts (pyramid.config.predicates.sort_accept_offers with
    the registered accept view order) and WebOb's negotiation (acceptable_offers)."""
    from pyramid.config.predicates import sort_accept_offers
    from webob.acceptparse import create_accept_header
    srt = sort_accept_offers(set(ACC[a] for a in present), order)
    got = [o for o, _ in create_accept_header(HDR[h]).acceptable_offers(srt)]
    back = {v: k for k, v in ACC.items()}
    return [back[o] for o in got]


def acceptable(a, h):
    """AcceptPredicate of a single view (WebOb oracle)"""
    if a is None:
        return True
    from webob.acceptparse import create_accept_header
    return bool(create_accept_header(HDR[h]).acceptable_offers([ACC[a]]))


def mvtag(T):
    return 100000 + T[0] * 50000 + T[1] * 10000 + T[2] * 10 + T[3]


class Book:
    """harness-side bookkeeping of what the registrations of a history put into the adapter registry: per triad
    (request type, context type, name) the members by predicate.  One member -> the view sits in the IView slot; two or
    more (different predicates) -> one MultiView OBJECT sits in the IMultiView slot (tag mvtag(triad), identity kept
    when members are added); same predicate -> the member is replaced (override)."""
    def __init__(self, unreg, order=None):
        self.tri = {}
        self.unreg = unreg
        self.order = order
        self.kinds = []

    def register(self, v):
        """add_view(context=C) registers under the ordinary classifier and, when C is an exception class, under the
        exception classifier too; add_exception_view only under the exception classifier"""
        cls = [1] if v['exc'] else ([0, 1] if v['ctx'] in EXC_CTX else [0])
        ups = []
        for cl in cls:
            ups += self.register1(v, cl)
        return ups

    def register1(self, v, cl):
        T = (cl, v['rq'], 0 if v['ctx'] is None else CTX[v['ctx']], v['name'])
        mem = self.tri.setdefault(T, {})
        key = (v['pred'], v['acc'])
        sfx = ('-accept' if v['acc'] else '') + ('-secured' if v['perm'] else '') + ('-excview' if cl else '')
        val = (v['tag'], v['perm'])

        def sl(vt):
            return [T[0], T[1], T[2], vt, T[3]]
        if not mem or (len(mem) == 1 and key in mem):
            self.kinds.append(('hist-override' if mem else 'hist-first-view') + sfx)
            mem[key] = val
            # a view with a permission is registered under ISecuredView (view type 1)
            return ([[sl(0), []], [sl(1), []]] if self.unreg else []) + [[sl(1 if v['perm'] else 0), [v['tag']]]]
        self.kinds.append(('hist-multiview-conversion' if len(mem) == 1 else
                           'hist-multiview-member-override' if key in mem else 'hist-multiview-add') + sfx)
        mem[key] = val
        return [[sl(0), []], [sl(1), []], [sl(2), [mvtag(T)]]]

    @staticmethod
    def outcome(val, q):
        g, perm = val
        if perm and q['s'] and not q['u']:
            return FORBIDDEN_ANSWER
        return g

    def table(self, q):
        m, h = q['m'], q['h']
        out = []
        for T, mem in sorted(self.tri.items()):
            if len(mem) == 1:
                ((p, a), val), = mem.items()
                ok = (p is None or p == m) and acceptable(a, h)
                out.append([val[0], [self.outcome(val, q)] if ok else []])
            elif mem:
                present = {a for (_, a) in mem if a is not None}
                ans = None
                for grp in (offers(h, present, self.order) if present else []) + [None]:
                    for p in (m, None):
                        if ans is None and (p, grp) in mem:
                            ans = mem[(p, grp)]
                out.append([mvtag(T), [self.outcome(ans, q)] if ans is not None else []])
        return out


def effective(hist):
    """per step: does it take effect?  V steps of a commit batch ('bt') that come after the failing action X of their
    batch are never executed (the commit stops at the action that raises; the actions executed before it stay in
    force); X and A steps spawn nothing in the model."""
    out = []
    failed = None
    prev_bt = None
    for st in hist:
        bt = st.get('bt')
        if bt != prev_bt:
            failed = None
        prev_bt = bt
        if st['t'] == 'X':
            failed = bt
            out.append(False)
        elif st['t'] == 'V':
            out.append(not (bt is not None and failed == bt))
        else:
            out.append(True)
    return out


def prev_dispatch(hist, idx):
    """the Router dispatch (via=2, ordinary lookup) whose request object step idx refers to: the nearest earlier one,
    not separated from it by a re-initialisation; None if there is none"""
    for j in range(idx - 1, -1, -1):
        st = hist[j]
        if st.get('t') == 'I':
            return None
        if st.get('t') == 'Q' and st.get('via') == 2 and st.get('cl') == 0:
            return st
    return None


def batches(hist):
    """[(start, end)] of the maximal runs of consecutive steps with the same batch tag"""
    out, i = [], 0
    while i < len(hist):
        bt = hist[i].get('bt')
        if bt is None:
            i += 1
            continue
        j = i
        while j < len(hist) and hist[j].get('bt') == bt:
            j += 1
        out.append((i, j))
        i = j
    return out


def gen_hist(rng):
    use_accept = rng.random() < 0.6
    use_perm = rng.random() < 0.5
    use_exc = rng.random() < 0.5      # exception classes as contexts, exception views, exception-view lookups
    use_marks = rng.random() < 0.35   # short-lived resources marked per instance (directlyProvides), marker-interface views
    use_threads = rng.random() < 0.4  # steps run on different OS threads, one after the other
    use_probe = rng.random() < 0.35   # a request made at every step of MultiView.add while a registration runs
    use_reinit = rng.random() < 0.2   # the registry is re-initialised (testing.tearDown) and used again
    use_sub = rng.random() < 0.3      # request OBJECTS dispatched by the Router, some of them more than once
    use_batch = rng.random() < 0.3    # view statements committed together on the live registry; some commits fail midway
    use_readd = rng.random() < 0.15   # the route r1 is added again at run time
    if use_readd:
        use_sub = True
    nbatch = [0]
    tag = [0]
    tri = []
    steps = []
    rctx = [None, 'A', 'A', 'B', 'B', 'C'] + (['X', 'X', 'Y', 'X'] if use_exc else []) + \
        (['M1', 'M2', 'M1', 'M2', 'A', 'E'] if use_marks else [])
    qctx = ['A', 'B', 'B', 'C', 'C', 'D'] + (['X', 'X', 'Y', 'Y', 'X'] if use_exc else []) + \
        (['A', 'A', 'E', 'A', 'E'] if use_marks else [])

    def reg():
        if tri and rng.random() < 0.6:
            rq, ctx, name = rng.choice(tri)
        else:
            rq = 1 if rng.random() < (0.6 if use_sub else 0.85) else 2
            ctx = rng.choice(rctx)
            name = 0 if rng.random() < 0.9 else 1
            tri.append((rq, ctx, name))
        tag[0] += 1
        exc = 1 if ctx in EXC_CTX and rng.random() < 0.5 else 0
        if exc:
            name = 0
        if ctx in MARKS:
            rq = 1
        return V(rq, ctx, rng.choice([None, None, 'GET', 'POST', 'POST']), tag[0], name,
                 rng.choice([None, None, None, 'html', 'json', 'json', 'html1', 'plain']) if use_accept else None,
                 1 if use_perm and not exc and rng.random() < 0.4 else 0, exc)
    for _ in range(rng.choice([1, 2, 2, 3, 4])):
        steps.append(reg())
    lastq = None
    lastmark = [None]
    for _ in range(rng.choice([3, 4, 5, 6, 8, 10])):
        if rng.random() < 0.62:
            if lastq is not None and rng.random() < 0.65:
                q = dict(lastq)
                if rng.random() < 0.6:
                    q['m'] = rng.choice(METHODS)
                if use_accept and rng.random() < 0.4:
                    q['h'] = rng.choice(HKEYS)
                if use_perm and rng.random() < 0.5:
                    q['u'] = rng.choice([0, 1])
                    q['s'] = rng.choice([1, 1, 1, 0])
                if q['ctx'] in EXC_CTX and q['name'] == 0 and rng.random() < 0.6:
                    q['cl'] = 1 - q['cl']          # the same triad under the other classifier
            else:
                ctx = rng.choice(qctx)
                name = 0 if rng.random() < 0.9 else 1
                cl = 1 if ctx in EXC_CTX and name == 0 and rng.random() < 0.5 else 0
                q = Q(rng.choice([1, 1, 1, 3]), ctx, rng.choice(METHODS), name,
                      rng.choice(HKEYS) if use_accept else None,
                      rng.choice([0, 1]) if use_perm else 0, rng.choice([1, 1, 1, 0]) if use_perm else 1, cl)
            q['via'] = 1 if q['cl'] == 0 and q['req'] == 1 and q['s'] == 1 and rng.random() < 0.3 else 0
            q.pop('mark', None)
            if use_marks and q['cl'] == 0 and q['ctx'] in ('A', 'E'):
                # alternate the marker so that a specification freed with one request is followed by another one
                q['mark'] = rng.choice(['M1', 'M2', 'M1', 'M2', None]) if lastmark[0] is None else \
                    rng.choice([m for m in MARKS if m != lastmark[0]] * 3 + [lastmark[0], None])
                if q['mark'] is None:
                    q.pop('mark')
                lastmark[0] = q.get('mark')
            q.pop('same', None)
            if q['via'] == 2:
                q['via'] = 0
            if q['req'] == 2:
                q['req'] = 1
            if use_sub and q['cl'] == 0 and q['s'] == 1 and q['req'] == 1 and rng.random() < 0.65:
                q['via'] = 2
                if q['name'] == 0 and rng.random() < 0.5:
                    q['req'] = 2                    # the URL of the route
                if rng.random() < 0.65:
                    q['same'] = 1                   # the request object of the previous such step, dispatched again
            if use_threads:
                q['th'] = rng.choice([0, 1, 1, 2])
            lastq = q
            steps.append(q)
            if use_exc and q['via'] == 2 and q['cl'] == 0 and rng.random() < 0.4:
                e = Q(q['req'], rng.choice(EXC_CTX), rng.choice(METHODS), 0, q['h'], q['u'], q['s'], 1, 2)
                e['same'] = 1
                steps.append(e)
            if use_reinit and rng.random() < 0.25:
                steps.append({'t': 'I'})
                if rng.random() < 0.7:
                    steps.append(dict(q))           # the lookup served before, asked again of the emptied registry
        elif use_readd and rng.random() < 0.3:
            steps.append({'t': 'A', 'g': rng.choice([0, 1, 1])})
            if lastq is not None and rng.random() < 0.7:
                steps.append(dict(lastq))
        elif use_batch and rng.random() < 0.6:
            nbatch[0] += 1
            vs, seen = [], set()
            for _ in range(rng.choice([1, 2, 2, 3])):
                v = reg()
                d = (v['rq'], v['ctx'], v['name'], v['pred'], v['acc'])
                if d in seen:
                    continue
                seen.add(d)
                v['bt'] = nbatch[0]
                vs.append(v)
            if rng.random() < 0.65:
                vs.insert(rng.choice([len(vs), len(vs), rng.randrange(len(vs) + 1)]), {'t': 'X', 'bt': nbatch[0]})
            steps.extend(vs)
            if lastq is not None and rng.random() < 0.6:
                steps.append(dict(lastq))
        else:
            v = reg()
            if use_threads:
                v['th'] = rng.choice([0, 0, 1, 2])
            if use_probe and lastq is not None and lastq['cl'] == 0 and rng.random() < 0.7:
                pr = {k: x for k, x in lastq.items() if k not in ('th', 'mark', 'same')}
                pr['via'] = 0
                if pr['req'] == 2:
                    pr['req'] = 1
                pr['m'] = rng.choice(METHODS)
                v['probe'] = pr
                # aim the registration at the triad the probe asks for
                if rng.random() < 0.7 and pr['ctx'] not in EXC_CTX:
                    v['ctx'], v['name'], v['rq'], v['exc'] = pr['ctx'], pr['name'], 1, 0
            steps.append(v)
    return {'hist': steps, 'order': 1 if use_accept and rng.random() < 0.3 else 0,
            'foreign': 1 if steps[0]['t'] == 'V' and not use_reinit and rng.random() < 0.2 else 0}


HKEYS = [None, 'html', 'json', 'json', 'plain', 'jh', 'html1', 'textany', 'anylow', 'xml']


def hist_scenarios():
    """the two reviewer scenarios and their neighbours, written out"""
    out = []
    # a triad with one view gets a second view with different predicates (-> MultiView) after the cache is warm
    out.append({'hist': [V(1, 'A', None, 1), Q(1, 'A', 'GET'), V(1, 'A', 'POST', 2), Q(1, 'A', 'POST'), Q(1, 'A', 'GET')]})
    # a further view added to an existing MultiView; then a member overridden
    out.append({'hist': [V(1, 'A', None, 1), V(1, 'A', 'POST', 2), Q(1, 'A', 'GET'), Q(1, 'A', 'POST'),
                         V(1, 'A', 'GET', 3), Q(1, 'A', 'GET'), V(1, 'A', 'POST', 4), Q(1, 'A', 'POST'), Q(1, 'A', 'PUT')]})
    # same-predicate override of a single view
    out.append({'hist': [V(1, 'A', 'GET', 1), Q(1, 'A', 'GET'), V(1, 'A', 'GET', 2), Q(1, 'A', 'GET'), Q(1, 'A', 'POST')]})
    # specific guarded view + general unguarded view on different context types of one resource:
    # a request only the general one accepts must not change who answers the next request
    out.append({'hist': [V(1, 'B', 'POST', 1), V(1, 'A', None, 2), Q(1, 'B', 'GET'), Q(1, 'B', 'POST'), Q(1, 'B', 'GET')]})
    # a MultiView with accept= constituents: a request with an Accept header is served, then the constituent is
    # REPLACED (same predicates and accept), a non-accept member is replaced, a new accept constituent is added
    out.append({'hist': [V(1, 'A', None, 1, 0, 'json'), V(1, 'A', None, 2), Q(1, 'A', 'GET', 0, 'json'),
                         V(1, 'A', None, 3, 0, 'json'), Q(1, 'A', 'GET', 0, 'json'), Q(1, 'A', 'GET', 0, 'html'),
                         V(1, 'A', None, 4), Q(1, 'A', 'GET', 0, 'plain'), V(1, 'A', None, 5, 0, 'html'),
                         Q(1, 'A', 'GET', 0, 'html'), Q(1, 'A', 'GET', 0, None), Q(1, 'A', 'GET', 0, 'jh')]})
    out.append({'hist': [V(1, 'A', None, 1, 0, 'html'), V(1, 'A', 'POST', 2, 0, 'html'), Q(1, 'A', 'POST', 0, 'html'),
                         Q(1, 'A', 'GET', 0, 'jh'), V(1, 'A', 'POST', 3, 0, 'html'), Q(1, 'A', 'POST', 0, 'html'),
                         V(1, 'A', None, 4, 0, 'html'), Q(1, 'A', 'GET', 0, 'jh'), Q(1, 'A', 'GET', 0, 'json')]})
    out.append({'hist': [V(1, 'C', 'POST', 1), V(1, 'B', 'GET', 2), V(1, None, None, 3),
                         Q(1, 'C', 'PUT'), Q(1, 'C', 'GET'), Q(1, 'C', 'POST'), Q(1, 'C', 'GET'), Q(3, 'C', 'POST')]})
    # secured views: the permission check of the cached callable depends on the request at hand only
    out.append({'hist': [V(1, 'A', 'POST', 1, 0, None, 1), V(1, None, None, 2),
                         Q(1, 'A', 'POST', 0, None, 1), Q(1, 'A', 'POST', 0, None, 0), Q(1, 'A', 'POST', 0, None, 0, 0),
                         Q(1, 'A', 'GET', 0, None, 0), Q(1, 'A', 'POST', 0, None, 1)]})
    out.append({'hist': [V(1, 'A', None, 1, 0, None, 1), V(1, 'A', 'POST', 2), Q(1, 'A', 'GET', 0, None, 1),
                         Q(1, 'A', 'GET', 0, None, 0), V(1, 'A', None, 3), Q(1, 'A', 'GET', 0, None, 0),
                         V(1, 'A', None, 4, 0, None, 1), Q(1, 'A', 'GET', 0, None, 0), Q(1, 'A', 'GET', 0, None, 0, 0)]})
    # media-type parameters, wildcards in the header, custom accept view order
    out.append({'hist': [V(1, 'A', None, 1, 0, 'html1'), V(1, 'A', None, 2, 0, 'html'), V(1, 'A', None, 3, 0, 'json'),
                         Q(1, 'A', 'GET', 0, 'html'), Q(1, 'A', 'GET', 0, 'html1'), Q(1, 'A', 'GET', 0, 'textany'),
                         Q(1, 'A', 'GET', 0, 'anylow'), Q(1, 'A', 'GET', 0, None), V(1, 'A', None, 4, 0, 'html1'),
                         Q(1, 'A', 'GET', 0, 'textany'), Q(1, 'A', 'GET', 0, 'xml')], 'order': 1})
    # the view classifier: only an exception view exists for X; exception-view lookup, then the ordinary request for a
    # resource of class X (directly and through the Router) -- and the other way round
    out.append({'hist': [V(1, 'X', None, 1, 0, None, 0, 1), Q(1, 'X', 'GET', cl=0), Q(1, 'X', 'GET', cl=1),
                         Q(1, 'X', 'GET', cl=0), Q(1, 'X', 'GET', cl=0, via=1)]})
    out.append({'hist': [V(1, 'X', None, 1), V(1, 'X', None, 2, 0, None, 0, 1), Q(1, 'X', 'GET', cl=0, via=1),
                         Q(1, 'X', 'GET', cl=1), Q(1, 'Y', 'GET', cl=1), Q(1, 'Y', 'GET', cl=0), Q(3, 'Y', 'GET', cl=1)]})
    out.append({'hist': [V(1, 'A', None, 1), V(1, 'X', 'POST', 2, 0, None, 0, 1), Q(1, 'X', 'POST', cl=1),
                         Q(1, 'X', 'POST', cl=0), V(1, 'X', 'POST', 3), Q(1, 'X', 'POST', cl=0), Q(1, 'X', 'POST', cl=1)]})
    # short-lived resources marked per instance, served alternately (their specification objects die with them)
    def qm(ctx, mark, **kw):
        d = Q(1, ctx, 'GET')
        d['mark'] = mark
        d.update(kw)
        return d
    out.append({'hist': [V(1, 'M1', None, 1), V(1, 'M2', None, 2)] +
                        [qm('A', 'M1' if i % 2 == 0 else 'M2') for i in range(12)]})
    out.append({'hist': [V(1, 'M1', None, 1), V(1, 'M2', 'POST', 2), V(1, 'A', None, 3)] +
                        [qm('AE'[i % 2], ('M1', 'M2', 'M2', 'M1')[i % 4]) for i in range(10)]})
    # the same application used from several OS threads, one after the other: a thread that has served a URL, another
    # thread registers / replaces the view, the first thread serves the URL again
    def th(d, n):
        d = dict(d)
        d['th'] = n
        return d
    out.append({'hist': [V(1, 'A', None, 1), th(Q(1, 'A', 'GET'), 1), th(V(1, 'A', None, 2), 2), th(Q(1, 'A', 'GET'), 1),
                         th(Q(1, 'A', 'GET'), 0), th(V(1, 'A', 'POST', 3), 0), th(Q(1, 'A', 'POST'), 1),
                         th(Q(1, 'A', 'POST'), 2)]})
    # a further view added to a live MultiView while a request for the same URL is made at every step of the addition
    def pv(v, probe):
        v = dict(v)
        v['probe'] = probe
        return v
    out.append({'hist': [V(1, 'A', None, 1), V(1, 'A', 'POST', 2), Q(1, 'A', 'GET'),
                         pv(V(1, 'A', 'GET', 3), Q(1, 'A', 'GET')), Q(1, 'A', 'GET'),
                         pv(V(1, 'A', None, 4, 0, 'json'), Q(1, 'A', 'POST')),
                         pv(V(1, 'A', 'POST', 5), Q(1, 'A', 'POST'))]})
    # a registry that is not a pyramid Registry (lock and clear installed by Configurator._fix_registry)
    out.append({'hist': [V(1, 'A', None, 1), Q(1, 'A', 'GET'), V(1, 'A', None, 2), Q(1, 'A', 'GET'),
                         V(1, 'A', 'POST', 3), Q(1, 'A', 'POST'), Q(1, 'B', 'GET')], 'foreign': 1})
    # a registry re-initialised after lookups were served (pyramid.testing.tearDown) and taken into use again: the
    # lookups served before are asked again before / after anything is registered
    out.append({'hist': [V(1, 'A', None, 1), Q(1, 'A', 'GET'), Q(1, 'A', 'GET'), {'t': 'I'}, Q(1, 'A', 'GET'),
                         Q(1, 'B', 'GET'), V(1, 'A', None, 2), Q(1, 'A', 'GET'), Q(1, 'B', 'GET'), {'t': 'I'},
                         Q(1, 'B', 'GET', via=1), Q(1, 'A', 'GET')]})
    out.append({'hist': [V(1, 'X', None, 1), V(1, 'A', 'POST', 2), V(1, 'A', None, 3), Q(1, 'X', 'GET', cl=1),
                         Q(1, 'A', 'POST'), {'t': 'I'}, Q(1, 'A', 'POST'), Q(1, 'X', 'GET', cl=1), Q(1, 'X', 'GET'),
                         V(1, 'A', 'POST', 4), Q(1, 'A', 'POST'), Q(1, 'A', 'GET')]})

    # one request OBJECT dispatched several times by the Router (internal forward: path rewritten, routing result
    # forgotten): a route URL, then a URL no route matches, and the other way round
    def qs(req, ctx, same, m='GET', name=0):
        d = Q(req, ctx, m, name, via=2)
        d['same'] = same
        return d
    out.append({'hist': [V(1, 'A', None, 1), V(2, 'A', None, 2), qs(2, 'A', 0), qs(1, 'A', 1), qs(2, 'A', 1),
                         qs(1, 'A', 1, name=1), qs(1, 'A', 0), qs(1, 'B', 1)]})
    out.append({'hist': [V(1, 'A', None, 1), qs(1, 'A', 0), qs(2, 'A', 1), qs(1, 'A', 1), V(2, 'A', 'POST', 2),
                         qs(2, 'A', 1, 'POST'), qs(1, 'A', 1, 'POST'), V(1, 'A', 'POST', 3), qs(2, 'A', 1, 'POST'),
                         qs(1, 'A', 1, 'POST')]})
    # request.invoke_exception_view on a request object the Router dispatched once / several times
    def qe(req, ctx, m='GET'):
        d = Q(req, ctx, m, 0, cl=1, via=2)
        d['same'] = 1
        return d
    out.append({'hist': [V(1, 'X', None, 1, 0, None, 0, 1), V(2, 'X', None, 2, 0, None, 0, 1), V(1, 'A', None, 3),
                         V(2, 'A', None, 4), qs(2, 'A', 0), qe(2, 'X'), qs(1, 'A', 1), qe(1, 'X'), qe(1, 'Y'),
                         qs(2, 'A', 1), qe(2, 'Y'), qs(1, 'B', 0), qe(1, 'X')]})
    # view statements committed together on the live registry by a non-autocommit Configurator; an action of the commit
    # raises: the actions executed before it stay in force (and must be seen by every later lookup, warm cache or not),
    # the ones behind it never run
    def bt(v, n):
        v = dict(v)
        v['bt'] = n
        return v
    out.append({'hist': [V(1, 'A', None, 1), Q(1, 'A', 'GET'), bt(V(1, 'A', None, 2), 1), {'t': 'X', 'bt': 1},
                         Q(1, 'A', 'GET'), Q(1, 'A', 'GET', via=1)]})
    out.append({'hist': [V(1, 'A', None, 1), V(1, 'B', None, 2), Q(1, 'A', 'GET'), Q(1, 'B', 'GET'),
                         bt(V(1, 'A', 'POST', 3), 1), {'t': 'X', 'bt': 1}, bt(V(1, 'B', None, 4), 1),
                         Q(1, 'A', 'POST'), Q(1, 'B', 'GET'), bt(V(1, 'B', None, 5), 2), bt(V(1, 'A', 'POST', 6), 2),
                         Q(1, 'A', 'POST'), Q(1, 'B', 'GET'), {'t': 'X', 'bt': 3}, bt(V(1, 'A', None, 7), 3), Q(1, 'A', 'GET')]})
    # the route r1 is added again at run time (with and without use_global_views) after lookups for the route were
    # served: a route view that only accepts POST, a global view, GET /r1 before and after
    out.append({'hist': [V(2, 'A', 'POST', 1), V(1, 'A', None, 2), qs(2, 'A', 0), qs(2, 'A', 0, 'POST'), qs(1, 'A', 0),
                         {'t': 'A', 'g': 1}, qs(2, 'A', 0), qs(2, 'A', 0, 'POST'), qs(1, 'A', 0), {'t': 'A', 'g': 0},
                         qs(2, 'A', 1), V(2, 'A', None, 3), qs(2, 'A', 0)]})
    for c in out:
        c.setdefault('order', 0)
        c.setdefault('foreign', 0)
    return out


SRO_LEN = {1: 2, 2: 2, 3: 4, 'A': 3, 'B': 4, 'C': 5, 'D': 4, 'E': 3, 'X': 5, 'Y': 6}      # checked in setup()


def npoints(req, ctx):
    return SRO_LEN[req] * SRO_LEN[ctx] * 3


def slot_of(r):
    return (0, r['rq'], 0 if r['ctx'] is None else CTX[r['ctx']], 1 if r['sec'] else 0, r['name'])


class Gen:
    def __init__(self, rng):
        self.rng = rng
        self.tag = 0
        self.slots = []

    def fresh(self):
        self.tag += 1
        return self.tag

    def reg(self, replace=None, depth=0, near=None):
        rng = self.rng
        if replace is None:
            replace = rng.random() < 0.45
        if replace and self.slots:
            rq, ctx, name, sec = rng.choice(self.slots)
        else:
            rq = 1 if rng.random() < 0.75 else 2
            ctx = rng.choice([None, 'A', 'A', 'B', 'B', 'C', 'D', 'E'])
            name = 0 if rng.random() < 0.8 else 1
            sec = 1 if rng.random() < 0.25 else 0
            if near is not None and rng.random() < 0.7:
                # make it relevant to the lookup it interrupts
                ctx = rng.choice({'A': ['A', None], 'B': ['B', 'A', None], 'C': ['C', 'B', 'A', None],
                                  'D': ['D', 'A', None], 'E': ['E', None]}[near['ctx']])
                name = near['name']
                rq = 1 if near['req'] in (1, 3) or rng.random() < 0.3 else 2
        if (rq, ctx, name, sec) not in self.slots:
            self.slots.append((rq, ctx, name, sec))
        inj, inj2 = [], []
        if depth < 2 and rng.random() < 0.25:
            inj = [self.lookup(depth + 1) for _ in range(rng.choice([1, 1, 2]))]
        if depth < 2 and rng.random() < 0.15:
            inj2 = [self.lookup(depth + 1) for _ in range(rng.choice([1, 1, 2]))]
        return Rg(rq, ctx, name, sec, self.fresh(), inj, inj2)

    def lookup(self, depth=0, like=None):
        rng = self.rng
        if like is not None and rng.random() < 0.7:
            req, ctx, name = like['req'], like['ctx'], like['name']
        else:
            req = rng.choice([1, 1, 1, 1, 2, 3, 3])
            ctx = rng.choice(['A', 'B', 'B', 'C', 'C', 'D', 'E'])
            name = 0 if rng.random() < 0.8 else 1
        me = L(req, ctx, name, None, 1 if rng.random() < 0.12 else 0)
        if depth < 3 and rng.random() < (0.65 if depth == 0 else 0.35):
            n = npoints(req, ctx)
            for _ in range(rng.choice([1, 1, 1, 2, 3])):
                p = rng.choice([rng.randrange(n), rng.randrange(n), 0, n - 1, PT_LOCK, PT_LOCK, PT_UNLOCK, PT_GET, PT_GET,
                                PT_HELD, PT_HELD])
                if any(q == p for q, _ in me['inj']):
                    continue
                if p == PT_HELD:
                    # the lock is held by this (single) OS thread: a nested lookup would wait for it forever
                    sub = []
                    for _ in range(rng.choice([1, 1, 2])):
                        r = self.reg(depth=9, near=me)
                        sub.append(r)
                    me['inj'].append([p, sub])
                    continue
                ops = []
                for _ in range(rng.choice([1, 1, 2])):
                    r = rng.random()
                    if r < 0.6:
                        ops.append(self.reg(depth=depth + 1, near=me))
                    else:
                        ops.append(self.lookup(depth + 1, like=me))
                me['inj'].append([p, ops])
        return me

    def case(self):
        rng = self.rng
        init = [self.reg(replace=False, depth=9) for _ in range(rng.choice([0, 1, 2, 2, 3, 4]))]
        ops = []
        last = None
        for _ in range(rng.choice([1, 2, 3, 3, 4, 4, 5, 6])):
            r = rng.random()
            if r < 0.6:
                last = self.lookup(0, like=last)
                ops.append(last)
            else:
                ops.append(self.reg(near=last))
        c = {'init': init, 'ops': ops}
        if init and rng.random() < 0.15:
            c['foreign'] = 1          # a non-pyramid registry: the clear installed by _fix_registry
        return c


def systematic():
    """one registration (new slot / replacement / irrelevant) injected at EVERY internal point of a cold or warm lookup,
    followed by the same lookup again; and lookups injected between the two steps of a registration"""
    out = []
    for req, ctx in ((1, 'A'), (1, 'B'), (3, 'A')):
        n = npoints(req, ctx)
        for p in list(range(n)) + [PT_LOCK, PT_UNLOCK, PT_GET, PT_HELD]:
            for variant in range(6):
                if p == PT_HELD and variant in (2, 4, 5):
                    continue            # nested lookups cannot run while this thread holds the lock
                init = [Rg(1, 'A', 0, 0, 1)]
                if variant == 0:      # replacement of the only view, warm cache
                    ops = [L(req, ctx), L(req, ctx, 0, [[p, [Rg(1, 'A', 0, 0, 2)]]]), L(req, ctx)]
                elif variant == 1:    # replacement, cold cache
                    ops = [L(req, ctx, 0, [[p, [Rg(1, 'A', 0, 0, 2)]]]), L(req, ctx)]
                elif variant == 2:    # new more general registration, cold cache, then a nested lookup too
                    ops = [L(req, ctx, 0, [[p, [Rg(1, None, 0, 0, 2), L(req, ctx)]]]), L(req, ctx)]
                elif variant == 3:    # first registration ever arrives during a miss
                    init = []
                    ops = [L(req, ctx, 0, [[p, [Rg(1, 'A', 0, 1, 2)]]]), L(req, ctx), L(req, ctx)]
                elif variant == 4:    # nested lookup that is itself interrupted
                    ops = [L(req, ctx, 0, [[p, [L(req, ctx, 0, [[p, [Rg(1, 'A', 0, 0, 2)]]])]]]), L(req, ctx)]
                else:                 # another key is looked up and cached meanwhile, registration between
                    ops = [L(req, ctx, 0, [[p, [L(1, 'C'), Rg(1, 'A', 0, 0, 2), L(1, 'C')]]]), L(1, 'C'), L(req, ctx)]
                out.append({'init': init, 'ops': ops})
    for k in range(1, 4):
        out.append({'init': [Rg(1, 'A', 0, 0, 1)],
                    'ops': [L(1, 'A')] + [Rg(1, 'A', 0, 0, 2, [L(1, 'A') for _ in range(k)]), L(1, 'A')]})
    # miss-only traffic
    for k in range(1, 6):
        out.append({'init': [], 'ops': [L(1, c, nm) for c in 'ABCDE'[:k] for nm in (0, 1)]})
        out.append({'init': [Rg(2, 'A', 0, 0, 1)], 'ops': [L(1, c, nm) for c in 'ABCDE'[:k] for nm in (0, 1)]})
    return out


def foreign_schedules():
    out = []
    for c in refuted_schedules():
        if c['init']:
            d = dict(c)
            d['foreign'] = 1
            out.append(d)
    return out


def refuted_schedules():
    """the schedules of the _refuted lemmas of Proofs/C15.v (ready-made replays for a changed program parameter)"""
    stale = {'init': [Rg(1, 'A', 0, 0, 1)],
             'ops': [L(1, 'A', 0, [[PT_LOCK, [Rg(1, 'A', 0, 0, 2)]]]), L(1, 'A')]}
    unguarded = {'init': [], 'ops': [L(1, 'A')]}
    noclear = {'init': [Rg(1, 'A', 0, 0, 1)], 'ops': [L(1, 'A'), Rg(1, 'A', 0, 0, 2), L(1, 'A')]}
    clear_first = {'init': [Rg(1, 'A', 0, 0, 1)], 'ops': [L(1, 'A'), Rg(1, 'A', 0, 0, 2, [L(1, 'A')], [L(1, 'A')]), L(1, 'A')]}
    return [stale, unguarded, noclear, clear_first]


def generate(rng, tier, n):
    k = 0
    if tier == 'thorough' and n >= 1000:
        for i in range(8):
            yield {'soak': rng.randrange(10 ** 6), 'threads': rng.choice([3, 4, 6, 8]), 'regs': 120}
            k += 1
    for c in refuted_schedules() + foreign_schedules() + hist_scenarios():
        yield c
        k += 1
    sysl = systematic()
    if tier != 'thorough' and n < len(sysl) * 2:
        sysl = rng.sample(sysl, max(1, n // 2))
    for c in sysl:
        if k >= n:
            return
        yield c
        k += 1
    while k < n:
        yield gen_hist(rng) if k % 3 == 0 else Gen(rng).case()
        k += 1


def targeted(broken, disagreements, rng):
    out = list(refuted_schedules()) + foreign_schedules() + hist_scenarios()
    # the stale-write schedule with the registration at every internal point and for several keys
    for req, ctx in ((1, 'A'), (1, 'C'), (3, 'B')):
        n = npoints(req, ctx)
        for p in list(range(n)) + [PT_LOCK, PT_UNLOCK, PT_GET, PT_HELD]:
            out.append({'init': [Rg(1, 'A', 0, 0, 1)],
                        'ops': [L(req, ctx, 0, [[p, [Rg(1, 'A', 0, 0, 2)]]]), L(req, ctx)]})
    for d in disagreements[:5]:
        out.append(d['case'])
    return out


def _ops_ok(ops, depth):
    if depth > 5 or not isinstance(ops, list):
        return False
    for o in ops:
        if not isinstance(o, dict):
            return False
        if o.get('t') == 'L':
            if o.get('req') not in (1, 2, 3) or o.get('ctx') not in ('A', 'B', 'C', 'D', 'E') or o.get('name') not in (0, 1) \
                    or o.get('cl') not in (0, 1):
                return False
            inj = o.get('inj')
            if not isinstance(inj, list):
                return False
            for e in inj:
                if not (isinstance(e, list) and len(e) == 2 and isinstance(e[0], int) and 0 <= e[0] < 200):
                    return False
                if not _ops_ok(e[1], depth + 1):
                    return False
                if e[0] == PT_HELD and not all(x['t'] == 'R' and not x['inj'] and not x['inj2'] for x in e[1]):
                    return False        # with the lock held only plain registrations can be scheduled
        elif o.get('t') == 'R':
            if o.get('rq') not in (1, 2) or o.get('ctx') not in (None, 'A', 'B', 'C', 'D', 'E') or o.get('name') not in (0, 1):
                return False
            if o.get('sec') not in (0, 1) or not isinstance(o.get('tag'), int) or not (0 < o['tag'] < 10 ** 6):
                return False
            if not _ops_ok(o.get('inj'), depth + 1) or not _ops_ok(o.get('inj2'), depth + 1):
                return False
        else:
            return False
    return True


def _probe_ok(q):
    """a request made at every Python-level step of MultiView.add while the registration runs"""
    if q is None:
        return True
    return isinstance(q, dict) and q.get('t') == 'Q' and valid({'hist': [q], 'order': 0}) and not q.get('via') \
        and q.get('cl') == 0 and not q.get('mark')


def valid(case):
    try:
        if isinstance(case, dict) and 'soak' in case:
            return set(case) == {'soak', 'threads', 'regs'} and all(isinstance(case[x], int) for x in case) \
                and 1 <= case['threads'] <= 32 and 1 <= case['regs'] <= 1000
        if isinstance(case, dict) and 'hist' in case:
            if set(case) | {'foreign'} != {'hist', 'order', 'foreign'} or case['order'] not in (0, 1) \
                    or case.get('foreign', 0) not in (0, 1) \
                    or (case.get('foreign') and not (case['hist'] and isinstance(case['hist'][0], dict) and case['hist'][0].get('t') == 'V')) \
                    or not isinstance(case['hist'], list) \
                    or len(case['hist']) > 40:
                return False
            for st in case['hist']:
                if not isinstance(st, dict):
                    return False
                if st.get('t') == 'X':
                    # an action that raises, in a commit batch on the live registry
                    if set(st) != {'t', 'bt'} or not isinstance(st['bt'], int) or not (0 < st['bt'] < 1000):
                        return False
                elif st.get('t') == 'A':
                    # the route r1 is added AGAIN on the live registry (use_global_views = g)
                    if set(st) != {'t', 'g'} or st['g'] not in (0, 1):
                        return False
                elif st.get('t') == 'I':
                    # the registry is re-initialised (Registry.__init__ run again, through pyramid.testing.tearDown)
                    if set(st) != {'t'} or case.get('foreign'):
                        return False
                elif st.get('t') == 'Q':
                    if set(st) - {'th', 'mark', 'same'} != {'t', 'req', 'ctx', 'name', 'm', 'h', 'u', 's', 'cl', 'via'} \
                            or st['req'] not in ((1, 2) if st['via'] == 2 else (1, 3)) or st.get('th', 0) not in (0, 1, 2) \
                            or st.get('same', 0) not in (0, 1) or (st.get('same') and st['via'] != 2) \
                            or (st['via'] == 2 and st['cl'] == 0 and (st['s'] != 1 or (st['req'] == 2 and st['name']))) \
                            or (st['via'] == 2 and st['cl'] == 1 and (st.get('same') != 1 or st.get('mark'))) \
                            or st.get('mark') not in (None,) + MARKS \
                            or (st.get('mark') and ((st['ctx'], st['mark']) not in SPEC or st['cl'])) \
                            or st['cl'] not in (0, 1) or st['via'] not in (0, 1, 2) \
                            or (st['cl'] == 1 and (st['ctx'] not in EXC_CTX or st['name'] != 0 or st['via'] == 1)) \
                            or (st['via'] == 1 and (st['req'] != 1 or st['s'] != 1)) \
                            or st['m'] not in METHODS or st['u'] not in (0, 1) or st['s'] not in (0, 1) \
                            or st['h'] not in HDR \
                            or st['ctx'] not in ('A', 'B', 'C', 'D', 'E', 'X', 'Y') or st['name'] not in (0, 1):
                        return False
                elif st.get('t') == 'V':
                    if st.get('bt') is not None and (not isinstance(st['bt'], int) or not (0 < st['bt'] < 1000)
                                                     or st.get('probe') or st.get('th')):
                        return False
                    if set(st) - {'th', 'probe', 'bt'} != {'t', 'rq', 'ctx', 'name', 'pred', 'acc', 'perm', 'exc', 'tag'} \
                            or st['rq'] not in (1, 2) or st.get('th', 0) not in (0, 1, 2) \
                            or not _probe_ok(st.get('probe')) \
                            or st['exc'] not in (0, 1) \
                            or (st['exc'] == 1 and (st['ctx'] not in EXC_CTX or st['perm'] or st['name'])) \
                            or st['perm'] not in (0, 1) \
                            or st['acc'] not in ACC \
                            or st['pred'] not in PREDS or st['ctx'] not in (None, 'A', 'B', 'C', 'D', 'E', 'X', 'Y', 'M1', 'M2') \
                            or st['name'] not in (0, 1) or not isinstance(st['tag'], int) or not (0 < st['tag'] < 90000):
                        return False
                else:
                    return False
            # the answer oracle identifies views by tag: tags are distinct within a history
            tags = [st['tag'] for st in case['hist'] if st['t'] == 'V']
            if len(tags) != len(set(tags)):
                return False
            # invoke_exception_view on a dispatched request object: the object of an earlier Router dispatch
            for i, st in enumerate(case['hist']):
                if st['t'] == 'Q' and st['via'] == 2 and st['cl'] == 1:
                    pd = prev_dispatch(case['hist'], i)
                    if pd is None or pd['req'] != st['req']:
                        return False
            # a batch is one run of consecutive steps; its view statements must not conflict with each other
            seen_bt = set()
            for a, b in batches(case['hist']):
                bt = case['hist'][a]['bt']
                if bt in seen_bt:
                    return False
                seen_bt.add(bt)
                ds = [(x['rq'], x['ctx'], x['name'], x['pred'], x['acc']) for x in case['hist'][a:b] if x['t'] == 'V']
                if len(ds) != len(set(ds)) or len([1 for x in case['hist'][a:b] if x['t'] == 'X']) > 1:
                    return False
            return True
        if not isinstance(case, dict) or set(case) | {'foreign'} != {'init', 'ops', 'foreign'} \
                or case.get('foreign', 0) not in (0, 1) or (case.get('foreign') and not case.get('init')):
            return False
        if not _ops_ok(case['init'], 0) or not _ops_ok(case['ops'], 0):
            return False
        return all(o['t'] == 'R' and not o['inj'] and not o['inj2'] for o in case['init'])
    except Exception:
        return False


# ------------------------------------------------------------ wire
def _wire_updates(r):
    """what one registration does to the adapter registry (map slot -> view).  Which slots an override
    touches is not C15's business: it is probed once on the real adapter registry in setup() (oracle)."""
    if not _impl:
        setup('quick')
    s = slot_of(r)
    ups = []
    if _impl['override_unregisters']:
        ups = [[[s[0], s[1], s[2], vt, s[4]], []] for vt in (0, 1)]
    return ups + [[list(s), [r['tag']]]]


def _wire_ops(ops, counter):
    out = []
    for o in ops:
        oid = counter[0]
        counter[0] += 1
        if o['t'] == 'L':
            inj = [[p, _wire_ops(sub, counter)] for p, sub in o['inj']]
            out.append([0, oid, [o['cl'], o['req'], CTX[o['ctx']], o['name']], inj])
        else:
            out.append([1, oid, _wire_updates(o), _wire_ops(o['inj'], counter), _wire_ops(o['inj2'], counter)])
    return out


_sro_tbl = []


def to_wire(case):
    if not _sro_tbl:
        setup('quick')
    if 'soak' in case:
        return [_sro_tbl, [], [], [], 0]
    if 'hist' in case:
        book = Book(_impl['override_unregisters'], _impl['orders'][case['order']])
        ops, ans = [], []
        chain = None
        eff = effective(case['hist'])
        for oid, st in enumerate(case['hist']):
            if st['t'] in ('X', 'A') or not eff[oid]:
                continue            # nothing happens in the model: a failing action, a route added again, a view
                                    # statement behind the failing action of its commit
            if st['t'] == 'I':
                ops.append([2, oid])
                book = Book(_impl['override_unregisters'], _impl['orders'][case['order']])
                chain = None
            elif st['t'] == 'Q' and st['via'] == 2:
                # dispatched by the Router on a request OBJECT that may have been dispatched before: the model
                # computes the request type of the lookup from the chain of route matches of that object
                m = [I_ROUTE] if st['req'] == 2 else []
                if st['cl'] == 1:
                    pass            # invoke_exception_view on the dispatched object: no new dispatch
                else:
                    chain = (chain + [m]) if (st.get('same') and chain is not None) else [m]
                if chain is None:
                    chain = [m]
                ops.append([3, oid, [st['cl'], qctx(st), st['name']], chain])
                ans.append([oid, book.table(st)])
            elif st['t'] == 'Q' and st['cl'] == 1:
                # request.invoke_exception_view on a request whose request type is IRequest (req 1) or the route's
                # interface (req 3): the model derives the key (combined interface) from the regenerated fact
                ops.append([3, oid, [1, qctx(st), st['name']], [[I_ROUTE] if st['req'] == 3 else []]])
                ans.append([oid, book.table(st)])
            elif st['t'] == 'Q':
                ops.append([0, oid, [st['cl'], st['req'], qctx(st), st['name']], []])
                ans.append([oid, book.table(st)])
            else:
                ops.append([1, oid, book.register(st), [], []])
        return [_sro_tbl, [], ops, ans, case.get('foreign', 0)]
    return [_sro_tbl, [u for r in case['init'] for u in _wire_updates(r)], _wire_ops(case['ops'], [0]), [], case.get('foreign', 0)]


def _srt(cache):
    return sorted(cache)


def from_wire(case, raw):
    if 'soak' in case:
        # free-running threads are a TEST (no model of the schedule): the expected observation is "no bad answer"
        return {'model': ['soak', 0, 1], 'spec': ['soak']}
    if raw == [['bad']] or not isinstance(raw, list) or len(raw) != 9:
        return {'model': ['MODEL-BAD', raw], 'spec': None}
    threads, spawn, cache, expects, quiet, table, tlen, manswers, sanswers = raw
    # model side of the observation: threads, spawn order, final cache, who answered each request, and -- in the place
    # of "what a freshly built application answers" -- the answer the declarative expectation demands
    nprobe = len([1 for st in case.get('hist', []) if st['t'] == 'V' and st.get('probe')])
    # atomicity probes are a TEST of the model's assumption (a registration is one step): no model side, expected 1
    return {'model': [threads, spawn, _srt(cache), manswers, sanswers, [1] * nprobe],
            'spec': [expects, quiet, _srt(table), spawn, tlen, sanswers]}


# ------------------------------------------------------------ implementation
_impl = {}


class _Policy:
    def identity(self, request):
        return None

    def authenticated_userid(self, request):
        return None

    def permits(self, request, context, permission):
        # depends on the request at hand only
        from pyramid.security import Allowed, Denied
        return Allowed('ok') if request.headers.get('X-User') == 'ok' else Denied('no credentials')

    def remember(self, request, userid, **kw):
        return []

    def forget(self, request, **kw):
        return []


def setup(tier):
    if _impl:
        return
    import warnings
    warnings.simplefilter('ignore')
    from pyramid.config import Configurator
    from pyramid.registry import Registry
    from pyramid.interfaces import IRequest, IRouteRequest
    from pyramid import view as pview
    from zope.interface import implementedBy, Interface

    class O15A:
        pass

    class O15B(O15A):
        pass

    class O15C(O15B):
        pass

    class O15D(O15A):
        pass

    class O15E:
        pass

    class O15X(Exception):          # a resource class that is also an exception class
        pass

    class O15Y(O15X):
        pass

    _C15_SEAM = []

    class Reg(Registry):
        """public seam: a Registry subclass; runs the scheduled operations just before / just after the cache is cleared"""
        def _clear_view_lookup_cache(self):
            h = self.__dict__.pop('_c15_hook', None)
            if h is not None:
                h(0)
            r = super()._clear_view_lookup_cache()
            if h is not None:
                h(1)
            return r

        # public seam: the attribute itself, as a property of the subclass; operations scheduled "after the
        # attribute was read, before cache.get" run inside the getter after the value was fetched.  The property is
        # TRANSPARENT: if a base class defines its own descriptor for the name it is used for get/set/delete,
        # otherwise the value lives in the instance dict under its own name, exactly as without the seam.
        def _c15_base(self):
            for klass in type(self).__mro__:
                d = klass.__dict__.get('_view_lookup_cache')
                if d is not None and d is not _C15_SEAM[0] and hasattr(d, '__get__'):
                    return d
            return None

        def _c15_get(self):
            d = self._c15_base()
            if d is not None:
                v = d.__get__(self, type(self))
            else:
                try:
                    v = self.__dict__['_view_lookup_cache']
                except KeyError:        # behave like a plain attribute that was not set yet
                    raise AttributeError('_view_lookup_cache')
            w = self.__dict__.get('_c15_world')
            if w is not None and w.stack:
                ops = w.stack[-1]['inj'].pop(PT_GET, None)
                if ops:
                    w.run_ops(ops)
            return v

        def _c15_set(self, v):
            d = self._c15_base()
            if d is not None and hasattr(d, '__set__'):
                d.__set__(self, v)
            else:
                self.__dict__['_view_lookup_cache'] = v

        def _c15_del(self):
            d = self._c15_base()
            if d is not None and hasattr(d, '__delete__'):
                d.__delete__(self)
                return
            try:
                del self.__dict__['_view_lookup_cache']
            except KeyError:
                raise AttributeError('_view_lookup_cache')

        _view_lookup_cache = property(_c15_get, _c15_set, _c15_del)

    _C15_SEAM.append(Reg.__dict__['_view_lookup_cache'])

    from zope.interface.registry import Components

    class Foreign(Components):
        """a component registry that is NOT a pyramid Registry: Configurator._fix_registry installs the lock and the
        cache clear on it; same attribute seam as Reg"""
        _c15_base = Reg.__dict__['_c15_base']
        _view_lookup_cache = Reg.__dict__['_view_lookup_cache']

    class IO15M1(Interface):
        pass

    class IO15M2(Interface):
        pass

    classes = {'A': O15A, 'B': O15B, 'C': O15C, 'D': O15D, 'E': O15E, 'X': O15X, 'Y': O15Y}
    _impl['Foreign'] = Foreign
    _impl['markers'] = {'M1': IO15M1, 'M2': IO15M2}
    # harness-side patch of the module global (no source change): record what each lookup made by _call_view returned,
    # as a copy taken at return time
    if not hasattr(pview._find_views, 'c15_orig'):
        orig = pview._find_views

        def recording_find_views(*a, **kw):
            r = orig(*a, **kw)
            _impl['last_found'] = None if r is None else list(r)
            if _impl.get('first_found') is None:
                w = a[0].__dict__.get('_c15_world') if a else None
                n = w.stack[-1]['n'] if w is not None and w.stack else 0
                _impl['first_found'] = (_impl['last_found'], n)
            return r
        recording_find_views.c15_orig = orig
        pview._find_views = recording_find_views
    _impl.update(Configurator=Configurator, Reg=Reg, IRequest=IRequest, IRouteRequest=IRouteRequest, pview=pview,
                 implementedBy=implementedBy, Interface=Interface, classes=classes, tier=tier)
    # resolution orders are an oracle input of the model: taken from zope.interface itself
    w = _World()
    ids = w.iface_ids
    tbl = []
    for iface, i in sorted(ids.items(), key=lambda kv: kv[1]):
        tbl.append([i, [ids[x] for x in iface.__sro__]])
    from zope.interface import providedBy as _pb
    for (cn, mk), i in sorted(SPEC.items(), key=lambda kv: kv[1]):
        inst = w.make_context(cn, mk)
        tbl.append([i, [w.iid(x) for x in _pb(inst).__sro__]])
        del inst
    _sro_tbl[:] = tbl
    # oracle: does registering an override under the other view interface remove the view it replaces?
    w.add_view(Rg(1, 'A', 0, 0, 1))
    w.add_view(Rg(1, 'A', 0, 1, 2))
    from pyramid.interfaces import IView, ISecuredView, IViewClassifier
    src = (IViewClassifier, IRequest, w.ctx['A'])
    got = [w.real.registered(src, t, name='') is not None for t in (IView, ISecuredView)]
    if got not in ([True, True], [False, True]):
        raise RuntimeError('unexpected adapter registry contents after an override: %r' % got)
    _impl['override_unregisters'] = (got == [False, True])
    # oracle: the registered accept view order (default, and with application/json preferred to text/html)
    from pyramid.interfaces import IAcceptOrder
    orders = {}
    for o in (0, 1):
        wo = _World(order=o)
        orders[o] = [v for _, v in wo.reg.queryUtility(IAcceptOrder).sorted()]
    _impl['orders'] = orders
    # what the cache key of this tree contains (read off a key the implementation itself made)
    wk = _World()
    wk.add_view(Rg(1, 'A', 0, 0, 1))
    _impl['pview']._find_views(wk.reg, wk.req[1], wk.ctx['A'], '')
    ks = list(wk.reg._view_lookup_cache)
    _impl['key_has_classifier'] = bool(ks) and len(ks[0]) > 3 and ks[0][3] in wk.classifier_ids
    for k, v in SRO_LEN.items():
        i = k if isinstance(k, int) else CTX[k]
        got = [len(s) for j, s in tbl if j == i][0]
        if got != v:
            raise RuntimeError('resolution order of %r has length %d, generator assumes %d' % (k, got, v))


class _AdaptersProxy:
    def __init__(self, world, real):
        self.__dict__['_w'] = world
        self.__dict__['_real'] = real

    def registered(self, *a, **kw):
        w = self._w
        if w.stack:
            fr = w.stack[-1]
            p = fr['n']
            fr['n'] += 1
            ops = fr['inj'].pop(p, None)
            if ops:
                w.run_ops(ops)
        return self._real.registered(*a, **kw)

    def __getattr__(self, n):
        return getattr(self._real, n)


class _LockProxy:
    def __init__(self, world, real):
        self._w, self._real = world, real

    def _fire(self, p):
        w = self._w
        if w.stack:
            ops = w.stack[-1]['inj'].pop(p, None)
            if ops:
                w.run_ops(ops)

    def __enter__(self):
        self._fire(PT_LOCK)
        self._real.acquire()
        return self

    def __exit__(self, *a):
        self._fire(PT_HELD)          # after cache[key] = views, the lock still held (registrations only: see valid())
        self._real.release()
        self._fire(PT_UNLOCK)
        return False

    def acquire(self, *a, **kw):
        self._fire(PT_LOCK)
        return self._real.acquire(*a, **kw)

    def release(self):
        self._fire(PT_HELD)
        self._real.release()
        self._fire(PT_UNLOCK)


class _World:
    def __init__(self, order=0, foreign=0):
        im = _impl
        self.reg = reg = (im['Foreign'] if foreign else im['Reg'])('c15')
        self.config = config = im['Configurator'](registry=reg, autocommit=True)
        config.setup_registry()
        if foreign:
            # the clear installed by _fix_registry is an instance attribute: wrap it the way Reg wraps the method
            orig = reg._clear_view_lookup_cache

            def hooked():
                h = reg.__dict__.pop('_c15_hook', None)
                if h is not None:
                    h(0)
                r = orig()
                if h is not None:
                    h(1)
                return r
            reg._clear_view_lookup_cache = hooked
        config.set_security_policy(_Policy())
        config.add_route('r1', '/r1')
        if order:
            config.add_accept_view_order('application/json', weighs_more_than='text/html')
        route = reg.queryUtility(im['IRouteRequest'], name='r1')
        self.req = {1: im['IRequest'], 2: route, 3: route.combined}
        self.ctx = {k: im['implementedBy'](c) for k, c in im['classes'].items()}
        self.iface_ids = {im['Interface']: I_INTERFACE, im['IRequest']: I_REQUEST, route: I_ROUTE,
                          route.combined: I_COMBINED, im['implementedBy'](object): CTX['O'],
                          im['implementedBy'](Exception): CTX['EXC'], im['implementedBy'](BaseException): CTX['BASEEXC']}
        for mk, mi in im['markers'].items():
            self.iface_ids[mi] = CTX[mk]
        from pyramid.interfaces import IViewClassifier, IExceptionViewClassifier
        self.classifiers = {0: IViewClassifier, 1: IExceptionViewClassifier}
        self.classifier_ids = {IViewClassifier: 0, IExceptionViewClassifier: 1}
        config.set_root_factory(lambda request: request.environ['c15.root'])
        self.router = None
        for k, i in self.ctx.items():
            self.iface_ids[i] = CTX[k]
        self.real = reg.adapters
        self.proxy = _AdaptersProxy(self, self.real)
        self.stack = []
        self.threads = []
        self.spawn = []
        self.counter = None
        self.ids = {}
        self.mvtags = {}
        self.keep = []
        self.workers = {}
        self.answers = []
        self.sub_request = None
        self.order = order

    def reinit(self):
        """the registry is re-initialised while the world goes on living: pyramid.testing.tearDown() runs
        registry.__init__(registry.__name__) on the registry it pops (every registration is gone), then the registry is
        taken into use again the way testing.setUp(registry=...) does (no view is added by that).  The harness's seams
        are taken off before and put back afterwards."""
        from pyramid import testing
        from pyramid.threadlocal import manager
        im = _impl
        reg = self.reg
        reg.adapters = self.real
        lp = reg.__dict__.get('_lock')
        if isinstance(lp, _LockProxy):
            reg._lock = lp._real
        manager.push({'registry': reg, 'request': None})
        testing.tearDown(unhook_zca=False)
        self.config = config = testing.setUp(registry=reg, hook_zca=False, package=im['pview'])
        manager.clear()
        config.set_security_policy(_Policy())
        config.add_route('r1', '/r1')
        if self.order:
            config.add_accept_view_order('application/json', weighs_more_than='text/html')
        config.set_root_factory(lambda request: request.environ['c15.root'])
        route = reg.queryUtility(im['IRouteRequest'], name='r1')
        self.req = {1: im['IRequest'], 2: route, 3: route.combined}
        self.iface_ids[route] = I_ROUTE          # the interfaces of the earlier route keep their ids (stale cache keys)
        self.iface_ids[route.combined] = I_COMBINED
        self.router = None
        self.sub_request = None
        self.real = reg.adapters
        self.proxy = _AdaptersProxy(self, self.real)
        self.start()

    def iid(self, x):
        """id of an interface / specification; per-instance specifications (directlyProvides) are identified by VALUE
        (class, markers): the object itself is short-lived"""
        i = self.iface_ids.get(x)
        if i is not None:
            return i
        red = x.__reduce__()[1]
        inv = {v: k for k, v in _impl['classes'].items()}
        minv = {v: k for k, v in _impl['markers'].items()}
        return SPEC[(inv[red[0]], minv[red[1]])]

    def make_context(self, cn, mark=None):
        inst = _impl['classes'][cn]()
        if mark:
            from zope.interface import directlyProvides
            directlyProvides(inst, _impl['markers'][mark])
        return inst

    def run_on(self, th, fn):
        """run fn on the OS thread number th (0 = the thread driving the case); strictly one after the other"""
        if not th:
            return fn()
        from concurrent.futures import ThreadPoolExecutor
        ex = self.workers.get(th)
        if ex is None:
            ex = self.workers[th] = ThreadPoolExecutor(max_workers=1)
        return ex.submit(fn).result()

    def close(self):
        for ex in self.workers.values():
            ex.shutdown(wait=True)
        self.workers = {}

    def number(self, ops, counter):
        for o in ops:
            self.ids[id(o)] = counter[0]
            counter[0] += 1
            if o['t'] == 'L':
                for _, sub in o['inj']:
                    self.number(sub, counter)
            else:
                self.number(o['inj'], counter)
                self.number(o['inj2'], counter)

    def add_view(self, r):
        def view(context, request):
            return None
        view.c15_tag = r['tag']
        self.config.add_view(view, context=None if r['ctx'] is None else _impl['classes'][r['ctx']],
                             name=NAMES[r['name']], route_name='r1' if r['rq'] == 2 else None,
                             permission='p' if r['sec'] else None)

    def add_view_pred(self, v, config=None, scan=True):
        from pyramid.response import Response
        from pyramid.interfaces import IMultiView, IViewClassifier
        tag = v['tag']
        config = config or self.config

        def view(context, request):
            r = Response('')
            r.headers['X-C15'] = str(tag)
            return r
        view.c15_tag = tag
        def ctxarg(c):
            return None if c is None else _impl['markers'][c] if c in MARKS else _impl['classes'][c]
        if v['exc']:
            config.add_exception_view(view, context=_impl['classes'][v['ctx']],
                                      route_name='r1' if v['rq'] == 2 else None,
                                      request_method=v['pred'], accept=ACC[v['acc']])
        else:
            config.add_view(view, context=ctxarg(v['ctx']),
                                 name=NAMES[v['name']], route_name='r1' if v['rq'] == 2 else None,
                                 request_method=v['pred'], accept=ACC[v['acc']], permission='p' if v['perm'] else None)
        if scan:
            self.scan_multiviews(v)

    def scan_multiviews(self, v):
        from pyramid.interfaces import IMultiView
        ctx_iface = _impl['Interface'] if v['ctx'] is None else \
            _impl['markers'][v['ctx']] if v['ctx'] in MARKS else self.ctx[v['ctx']]
        for cl, classifier in self.classifiers.items():
            T = (cl, v['rq'], 0 if v['ctx'] is None else CTX[v['ctx']], v['name'])
            mv = self.real.registered((classifier, self.req[v['rq']], ctx_iface), IMultiView, name=NAMES[v['name']])
            if mv is not None:
                self.mvtags[id(mv)] = mvtag(T)
                self.keep.append(mv)

    def request(self, st):
        """one request through pyramid.view._call_view -> ([] | [tag of the view that answered], crashed)"""
        from pyramid.request import Request
        from pyramid.exceptions import PredicateMismatch
        from pyramid.httpexceptions import HTTPForbidden
        from zope.interface import providedBy
        r = Request.blank('/')
        r.method = st['m']
        if st['u']:
            r.headers['X-User'] = 'ok'

        if st['h'] is not None:
            r.headers['Accept'] = HDR[st['h']]
        r.registry = self.reg
        if st['req'] != 1:
            r.request_iface = self.req[st['req']]
        ctx = self.make_context(st['ctx'], st.get('mark'))
        _impl['last_found'] = None
        _impl['first_found'] = None
        try:
            if st['cl'] == 1 and st['via'] == 2:
                # invoke_exception_view on a request OBJECT the Router has dispatched (same=1: the object of the previous
                # dispatch step, whatever was dispatched on it before); in a freshly built application: a brand-new
                # request dispatched once to the URL of that last dispatch
                from pyramid.httpexceptions import HTTPNotFound
                r2 = self.sub_request
                if r2 is None:
                    if self.router is None:
                        from pyramid.router import Router
                        self.router = Router(self.reg)
                    r2 = Request.blank('/r1' if st['req'] == 2 else '/')
                    r2.environ['c15.root'] = self.make_context('D')
                    try:
                        self.router.invoke_subrequest(r2, use_tweens=True)
                    except Exception:
                        pass
                    _impl['first_found'] = None
                r2.method = st['m']
                for hk in ('X-User', 'Accept'):
                    r2.headers.pop(hk, None)
                    if hk in r.headers:
                        r2.headers[hk] = r.headers[hk]
                try:
                    resp = r2.invoke_exception_view(exc_info=(type(ctx), ctx, None), secure=bool(st['s']))
                except HTTPForbidden:
                    raise
                except HTTPNotFound:
                    resp = None
            elif st['cl'] == 1:
                # exception-view lookup through the public API; request_iface.combined is what it looks up with
                if st['req'] == 3:
                    r.request_iface = self.req[2]
                from pyramid.httpexceptions import HTTPNotFound
                try:
                    resp = r.invoke_exception_view(exc_info=(type(ctx), ctx, None), secure=bool(st['s']))
                except HTTPForbidden:
                    raise
                except HTTPNotFound:
                    resp = None
            elif st['via'] == 1:
                # through the real Router: the root factory hands out the resource, traversal finds view name '' / 'x'
                if self.router is None:
                    from pyramid.router import Router
                    self.router = Router(self.reg)
                r2 = Request.blank('/' + NAMES[st['name']])
                r2.method = st['m']
                for hk in ('X-User', 'Accept'):
                    if hk in r.headers:
                        r2.headers[hk] = r.headers[hk]
                r2.environ['c15.root'] = ctx
                resp = r2.get_response(self.router)
                if resp.status_int == 404:
                    resp = None
                elif resp.status_int == 403:
                    return [FORBIDDEN_ANSWER], 0
            elif st['via'] == 2:
                # through Router.invoke_subrequest (public: request.invoke_subrequest) with a request OBJECT; with
                # same=1 it is the object of the previous such step, sent to another URL the way an internal forward
                # does it: path rewritten, the routing result of the earlier dispatch forgotten (public attributes)
                if self.router is None:
                    from pyramid.router import Router
                    self.router = Router(self.reg)
                path = '/r1' if st['req'] == 2 else '/' + NAMES[st['name']]
                r2 = self.sub_request if st.get('same') else None
                if r2 is None:
                    r2 = Request.blank(path)
                else:
                    r2.path_info = path
                    r2.matchdict = None
                    r2.matched_route = None
                    for hk in ('X-User', 'Accept'):
                        r2.headers.pop(hk, None)
                r2.method = st['m']
                for hk in ('X-User', 'Accept'):
                    if hk in r.headers:
                        r2.headers[hk] = r.headers[hk]
                r2.environ['c15.root'] = ctx
                self.sub_request = r2
                resp = self.router.invoke_subrequest(r2, use_tweens=True)
                if resp.status_int == 404:
                    resp = None
                elif resp.status_int == 403:
                    return [FORBIDDEN_ANSWER], 0
            else:
                resp = _impl['pview']._call_view(self.reg, r, ctx, providedBy(ctx), NAMES[st['name']],
                                                 secure=bool(st['s']))
            return ([] if resp is None else [int(resp.headers['X-C15'])]), 0
        except PredicateMismatch:
            return [], 0
        except HTTPForbidden:
            return [FORBIDDEN_ANSWER], 0
        except Exception as e:
            from pyramid.httpexceptions import HTTPNotFound as _NF
            if isinstance(e, _NF):
                return [], 0
            return [], 1
        except Exception:
            return [], 1

    def hist_request(self, st, oid):
        self.spawn.append(oid)
        fr = {'inj': {}, 'n': 0}
        self.stack.append(fr)
        try:
            ans, crashed = self.run_on(st.get('th', 0), lambda: self.request(st))
        finally:
            self.stack.pop()
        if st.get('mark'):
            # the resource (and the specification describing what it provides) dies with its request
            import gc
            gc.collect()
        # the lookup of the request itself is the first one made (the Router may make further ones, e.g. for the
        # exception view of a 404)
        first = _impl.get('first_found')
        found, n = first if first is not None else (None, fr['n'])
        self.threads.append([0, self.tags(found), crashed, 1, n])
        self.answers.append(ans)

    def hist_register(self, st, oid):
        self.spawn.append(oid)
        self.reg.adapters = self.real
        crashed = 0
        tracer = self.probe_tracer(st) if st.get('probe') else None
        try:
            self.run_on(st.get('th', 0), lambda: self.add_view_traced(st, tracer))
        except Exception:
            crashed = 1
        finally:
            self.reg.adapters = self.proxy
        self.threads.append([1, [], crashed, 1, 0])
        self.answers.append(0)

    def hist_commit(self, items):
        """items: [(oid, step)] of one batch.  The statements are made on a NON-autocommit Configurator for the live
        registry and committed together; an X step is an action that raises: the commit stops there
        (ConfigurationExecutionError, caught -- the application goes on running), the actions executed before it stay
        in force."""
        from pyramid.exceptions import ConfigurationExecutionError

        def boom():
            raise RuntimeError('c15: this action fails')
        cfg = _impl['Configurator'](registry=self.reg, autocommit=False, package=_impl['pview'])
        self.reg.adapters = self.real
        crashed = 0
        done = []
        try:
            failed = False
            for oid, st in items:
                if st['t'] == 'X':
                    cfg.action(None, boom)
                    failed = True
                else:
                    self.add_view_pred(st, config=cfg, scan=False)
                    if not failed:
                        done.append((oid, st))
            try:
                cfg.commit()
            except ConfigurationExecutionError:
                pass
            for oid, st in done:
                self.scan_multiviews(st)
        except Exception:
            crashed = 1
        finally:
            self.reg.adapters = self.proxy
        for oid, st in done:
            self.spawn.append(oid)
            self.threads.append([1, [], crashed, 1, 0])
            self.answers.append(0)

    def readd_route(self, st):
        """the route r1 is added again on the live registry (an application overriding an add-on's route at run time)"""
        self.reg.adapters = self.real
        try:
            self.config.add_route('r1', '/r1', use_global_views=bool(st['g']))
        finally:
            self.reg.adapters = self.proxy

    def add_view_traced(self, st, tracer):
        import sys
        if tracer is None:
            return self.add_view_pred(st)
        old = sys.gettrace()
        sys.settrace(tracer)
        try:
            return self.add_view_pred(st)
        finally:
            sys.settrace(old)

    def probe_tracer(self, st):
        """harness-side instrument (no source change): while the registration runs, at every Python-level line of
        MultiView.add and at every Python call made from it (e.g. a sort key function) the probe request is made
        re-entrantly; its answers are collected in self.probe_answers"""
        import sys
        self.probe_answers = answers = []
        probe = st['probe']
        suffix = os.path.join('pyramid', 'config', 'views.py')

        def fire():
            sys.settrace(None)
            saved = (_impl.get('last_found'), _impl.get('first_found'))
            self.reg.adapters = self.proxy
            self.stack.append({'inj': {}, 'n': 0})
            try:
                a, crashed = self.request(probe)
                answers.append(['CRASH'] if crashed else a)
            finally:
                self.stack.pop()
                self.reg.adapters = self.real
                _impl['last_found'], _impl['first_found'] = saved
                sys.settrace(glob)

        def is_add(frame):
            return frame is not None and frame.f_code.co_name == 'add' and frame.f_code.co_filename.endswith(suffix)

        def local(frame, event, arg):
            if event == 'line':
                fire()
            return local

        def glob(frame, event, arg):
            if event != 'call':
                return None
            if is_add(frame):
                fire()
                return local
            if is_add(frame.f_back):
                fire()
            return None
        return glob

    def start(self):
        self.reg.__dict__['_c15_world'] = self
        self.reg.adapters = self.proxy
        self.reg._lock = _LockProxy(self, self.reg._lock)

    def run_ops(self, ops):
        for o in ops:
            if o['t'] == 'L':
                self.lookup(o)
            else:
                self.register(o)

    def tags(self, vs):
        if vs is None:
            return []
        out = []
        for v in vs:
            if id(v) in self.mvtags:
                out.append(self.mvtags[id(v)])
                continue
            f = getattr(v, '__original_view__', v)
            out.append(getattr(f, 'c15_tag', 999999))
        return [out]

    def lookup(self, o):
        self.spawn.append(self.ids[id(o)])
        idx = len(self.threads)
        self.threads.append(None)
        inj = {}
        for p, sub in o['inj']:
            inj.setdefault(p, sub)
        fr = {'inj': inj, 'n': 0}
        self.stack.append(fr)
        try:
            vs = _impl['pview']._find_views(self.reg, self.req[o['req']], self.ctx[o['ctx']], NAMES[o['name']],
                                            view_classifier=self.classifiers[o['cl']])
            rec = [0, self.tags(vs), 0, 1, fr['n']]
        except Exception as e:                      # noqa
            rec = [0, [], 1, 1, fr['n']]
        finally:
            self.stack.pop()
        self.threads[idx] = rec

    def register(self, o):
        self.spawn.append(self.ids[id(o)])
        idx = len(self.threads)
        self.threads.append(None)
        reg = self.reg
        saved_stack = self.stack

        def hook(phase):
            reg.adapters = self.proxy
            self.stack = []                 # operations injected here belong to no enclosing lookup frame
            try:
                self.run_ops(o['inj2'] if phase else o['inj'])
            finally:
                self.stack = saved_stack
                reg.adapters = self.real

        reg.adapters = self.real            # registration itself uses the real adapter registry
        reg._c15_hook = hook
        crashed = 0
        try:
            self.add_view(o)
        except Exception:
            crashed = 1
        finally:
            reg.__dict__.pop('_c15_hook', None)
            reg.adapters = self.proxy
        self.threads[idx] = [1, [], crashed, 1, 0]

    def cache(self):
        out = []
        for k, vs in self.reg._view_lookup_cache.items():
            try:
                # a key without classifier is reported with classifier 0 (as the model's ckey does)
                cl = self.classifier_ids[k[3]] if len(k) > 3 else 0
                key = [cl, self.iid(k[0]), self.iid(k[1]), NAMES.index(k[2])]
            except Exception:
                # a key outside the modelled universe: made by a lookup the Router does on its own (the exception view
                # of a 404 it renders), never by an operation of the case
                if any(x not in self.iface_ids for x in k[:2]):
                    continue
                key = [-1, -1, -1, -1]
            out.append([key, self.tags(vs)])
        return sorted(out)


def run_soak(case):
    """free-running threads (a test, not part of the proof): N reader threads look keys up while one writer replaces
    views; a lookup that ran entirely between two registrations must return what a freshly built application holding
    the same registrations returns; afterwards miss-only traffic must leave the cache size unchanged."""
    import random
    import sys
    import threading
    rng = random.Random(case['soak'])
    w = _World()
    find = _impl['pview']._find_views
    regs = [Rg(1, 'A', 0, 0, 1), Rg(1, None, 0, 0, 2)]
    for r in regs:
        w.add_view(r)
    plan = []
    tag = 2
    for _ in range(case['regs']):
        tag += 1
        plan.append(Rg(1 if rng.random() < 0.8 else 2, rng.choice([None, 'A', 'B', 'C']), 0, rng.choice([0, 0, 1]), tag))
    keys = [(rq, c) for rq in (1, 3) for c in 'ABC']

    def expected(rs):
        f = _World()
        for r in rs:
            f.add_view(r)
        return {k: f.tags(find(f.reg, f.req[k[0]], f.ctx[k[1]], '')) for k in keys}
    exp = [expected(regs)]
    acc = list(regs)
    for r in plan:
        acc.append(r)
        exp.append(expected(acc))
    state = {'e': 0, 'p': False, 'stop': False}
    bad = []
    checked = [0]

    def reader(seed):
        r = random.Random(seed)
        while not state['stop']:
            k = r.choice(keys)
            p1 = state['p']
            e1 = state['e']
            vs = find(w.reg, w.req[k[0]], w.ctx[k[1]], '')
            e2 = state['e']
            p2 = state['p']
            if e1 == e2 and not p1 and not p2:
                checked[0] += 1
                got = w.tags(vs)
                if got != exp[e1][k]:
                    bad.append([list(k), e1, got, exp[e1][k]])

    old = sys.getswitchinterval()
    sys.setswitchinterval(1e-5)
    try:
        ths = [threading.Thread(target=reader, args=(case['soak'] * 100 + i,)) for i in range(case['threads'])]
        for t in ths:
            t.start()
        import time
        for r in plan:
            time.sleep(0.0003)
            state['p'] = True
            w.add_view(r)
            state['e'] += 1
            state['p'] = False
        time.sleep(0.01)
        state['stop'] = True
        for t in ths:
            t.join()
    finally:
        sys.setswitchinterval(old)
    # miss-only traffic: name 'x' was never registered
    before = len(w.reg._view_lookup_cache)
    for _ in range(50):
        for k in keys:
            find(w.reg, w.req[k[0]], w.ctx[k[1]], 'x')
    cache_ok = 1 if len(w.reg._view_lookup_cache) == before and all(v for v in w.reg._view_lookup_cache.values()) else 0
    if checked[0] == 0:
        return ['soak', -1, cache_ok]
    return ['soak', len(bad), cache_ok]


def run_hist(case):
    """a history of requests (through _call_view) and registrations on ONE application; next to each answer, what a
    freshly built application holding the same registrations answers to that single request"""
    w = _World(order=case['order'], foreign=case.get('foreign', 0))
    w.start()
    fresh = []
    probes = []
    epoch = 0          # index of the first step after the last re-initialisation
    eff = effective(case['hist'])
    bstart = {a: b for a, b in batches(case['hist'])}
    skip_to = 0

    def replay(f, upto):
        # the configuration history in force: statements since the last re-initialisation that took effect
        for j in range(epoch, upto):
            prev = case['hist'][j]
            if prev['t'] == 'V' and eff[j]:
                f.add_view_pred(prev)
            elif prev['t'] == 'A':
                f.config.add_route('r1', '/r1', use_global_views=bool(prev['g']))
    for oid, st in enumerate(case['hist']):
        if oid < skip_to:
            continue
        if oid in bstart:
            w.hist_commit([(j, case['hist'][j]) for j in range(oid, bstart[oid])])
            for j in range(oid, bstart[oid]):
                if case['hist'][j]['t'] == 'V' and eff[j]:
                    fresh.append(0)
            skip_to = bstart[oid]
        elif st['t'] == 'A':
            try:
                w.readd_route(st)
            except Exception as e:
                probes.append(['readd-route-crashed', type(e).__name__])
        elif st['t'] == 'I':
            try:
                w.reinit()
            except Exception as e:
                probes.append(['reinit-crashed', type(e).__name__])
            epoch = oid + 1
        elif st['t'] == 'Q':
            w.hist_request(st, oid)
            f = _World(order=case['order'], foreign=case.get('foreign', 0))
            replay(f, oid)
            a, crashed = f.request(st)
            fresh.append(['FRESH-CRASH'] if crashed else a)
        else:
            w.hist_register(st, oid)
            fresh.append(0)
            if st.get('probe'):
                allowed = []
                for upto in (oid, oid + 1):
                    f = _World(order=case['order'], foreign=case.get('foreign', 0))
                    replay(f, upto)
                    a, crashed = f.request(st['probe'])
                    allowed.append(['FRESH-CRASH'] if crashed else a)
                got = []
                for a in getattr(w, 'probe_answers', []):
                    if a not in got:
                        got.append(a)
                bad = [a for a in got if a not in allowed]
                probes.append(1 if not bad else ['during', bad, 'before/after', allowed])
    cache = w.cache()
    # the resolution orders the model was given as its oracle must still be those of the live interfaces: a change of
    # what a (possibly cached) key MEANS is reported; the model's expectations then do not transfer (spec_holds)
    try:
        want = dict((i, l) for i, l in _sro_tbl)
        for iface, i in sorted(w.iface_ids.items(), key=lambda kv: kv[1]):
            if iface not in (w.req[2], w.req[3]) and i in (I_ROUTE, I_COMBINED):
                continue            # route interfaces of an earlier life of the registry
            now = [w.iid(x) for x in iface.__sro__]
            if want.get(i) != now:
                probes.append(['sro-changed', i, now])
    except Exception as e:
        probes.append(['sro-unreadable', type(e).__name__])
    w.close()
    return [w.threads, w.spawn, cache, w.answers, fresh, probes]


def run_impl(case):
    if not _impl:
        setup('quick')
    if _impl.get('frozen_pid') != os.getpid():
        # requests for short-lived marked resources end with a FULL gc.collect(); in a pool worker the heap also holds
        # the whole list of generated cases (millions of containers in the thorough tier), which every such collection
        # would traverse.  Everything allocated so far is moved to the permanent generation once per process.
        import gc
        gc.collect()
        gc.freeze()
        _impl['frozen_pid'] = os.getpid()
    if 'soak' in case:
        return run_soak(case)
    if 'hist' in case:
        return run_hist(case)
    w = _World(foreign=case.get('foreign', 0))
    for r in case['init']:
        w.add_view(r)
    w.number(case['ops'], [0])
    w.start()
    w.run_ops(case['ops'])
    return [w.threads, w.spawn, w.cache(), [0] * len(w.threads), [0] * len(w.threads), []]


# ------------------------------------------------------------ judging
def spec_holds(case, obs, spec):
    """lookup_fresh / no_stale_after_register: every lookup the declarative expectation constrains returned exactly
    lookup_all of the registrations in force; cache_inv + misses_not_cached: in the final (quiet) state every entry of the
    current cache is non-empty and equals lookup_all of the final registrations."""
    if spec is None:
        return None
    if 'soak' in case:
        return obs == ['soak', 0, 1]
    expects, quiet, table, mspawn, _tlen, sanswers = spec
    if not isinstance(obs, list) or len(obs) != 6 or (obs and obs[0] == 'HARNESS-EXC'):
        return None
    threads, spawn, cache, answers, fresh, probes = obs
    drift = [p for p in probes if isinstance(p, list) and p and p[0] == 'sro-changed']
    if any(p != 1 and p not in drift for p in probes):
        return False        # a request made while a registration ran was answered like neither before nor after it
    # history independence, judged without the model: every request is answered like a freshly built application
    # that went through the same configuration history answers that single request
    if answers != fresh:
        return False
    if drift:
        return None         # the resolution-order oracle of the model is not the one in force: its expectations do not transfer
    if spawn != mspawn or len(threads) != len(expects):
        return None          # another set of operations ran: the expectations of the model's trace do not transfer
    for t, e in zip(threads, expects):
        if e and t[0] == 0:
            if t[2] or t[1] != e:
                return False
    for a, e in zip(answers, sanswers):
        if e != 0 and e != -1 and a != e:
            return False                        # not answered by the first accepting candidate of lookup_all
    if quiet:
        for k, vs in cache:
            if not vs or not vs[0]:
                return False                    # a miss was cached
            wants = _cache_wants(case, table, k)
            if not wants or any(vs[0] != w for w in wants):
                return False                    # stale entry, or an entry that is wrong for a lookup it will serve
    return True


def _key_full():
    """does the cache key of the tree under test contain the view classifier?  (from the implementation's own keys)"""
    return bool(_impl.get('key_has_classifier'))


def _cache_wants(case, table, k):
    """lookup_all (final registrations) of every lookup of the case that the cache entry k serves"""
    out = []
    for tk, v in table:
        if tk == k or (not _key_full() and tk[1:] == k[1:]):
            out.append(v)
    return out


def classify(case, obs, spec):
    """C15-cache-key-omits-classifier: the tree's cache key is (request_iface, context_iface, view_name) and every
    deviation is a lookup/request of one classifier that was served what the lookup of the OTHER classifier of the same
    triad returns (or a cache entry that is right for one of the two and wrong for the other)."""
    try:
        if spec is None or 'soak' in case or _key_full():
            return None
        expects, quiet, table, mspawn, _tlen, sanswers = spec
        threads, spawn, cache, answers, fresh, probes = obs
        if any(p != 1 for p in probes):
            return None
        if spawn != mspawn or len(threads) != len(expects):
            return None
        opk = _op_keys(case)
        keys = [opk.get(i) for i in spawn] if all(i in opk for i in spawn) else None
        sib = {}
        for tk, v in table:
            sib[tuple(tk)] = v
        hit = False
        for i, (t, e) in enumerate(zip(threads, expects)):
            if e and t[0] == 0 and (t[2] or t[1] != e):
                k = keys[i] if keys is not None else None
                if k is None or t[2]:
                    return None
                other = (1 - k[0],) + tuple(k[1:])
                # served from the cache (no adapter query) exactly what a lookup of the sibling key was given
                if other not in sib or t[4] != 0:
                    return None
                if not any(j != i and keys[j] == other and threads[j][1] == t[1] for j in range(len(threads))):
                    return None
                hit = True
        for i, (a, f) in enumerate(zip(answers, fresh)):
            if a != f:
                k = keys[i] if keys is not None else None
                if k is None:
                    return None
                other = (1 - k[0],) + tuple(k[1:])
                if other not in sib:
                    return None
                # only explained when the lookup itself deviated (served the sibling's candidates) or hit a shared entry
                if not (threads[i][4] == 0 or threads[i][1] != expects[i]):
                    return None
                hit = True
        if quiet:
            for k, vs in cache:
                wants = _cache_wants(case, table, k)
                if not vs or not vs[0] or not wants:
                    return None
                if any(vs[0] != w for w in wants):
                    if len(wants) < 2 or all(vs[0] != w for w in wants):
                        return None             # wrong for every lookup it serves: not this finding
                    hit = True
        return FINDING_KEY if hit else None
    except Exception:
        return None


def _op_keys(case):
    """operation id (the numbering of to_wire) -> lookup key (cl, req, ctx, name), None for registrations"""
    out = {}
    if 'hist' in case:
        for i, st in enumerate(case['hist']):
            out[i] = (st['cl'], st['req'], qctx(st), st['name']) if st['t'] == 'Q' else None
        return out
    counter = [0]

    def walk(ops):
        for o in ops:
            oid = counter[0]
            counter[0] += 1
            if o['t'] == 'L':
                out[oid] = (o['cl'], o['req'], CTX[o['ctx']], o['name'])
                for _, sub in o['inj']:
                    walk(sub)
            else:
                out[oid] = None
                walk(o['inj'])
                walk(o['inj2'])
    walk(case['ops'])
    return out


def _all_lookups(ops):
    for o in ops:
        if o['t'] == 'L':
            yield o
            for _, sub in o['inj']:
                for x in _all_lookups(sub):
                    yield x
        else:
            for x in _all_lookups(o['inj']):
                yield x
            for x in _all_lookups(o['inj2']):
                yield x


def _depth(ops):
    d = 0
    for o in ops:
        subs = [s for _, s in o['inj']] if o['t'] == 'L' else [o['inj'], o['inj2']]
        for s in subs:
            if s:
                d = max(d, 1 + _depth(s))
    return d


def nontrivial(case, obs):
    try:
        if 'soak' in case:
            return True
        if 'hist' in case:
            qs = [a for a in obs[3] if a != 0]
            return len(qs) >= 2 and any(a for a in qs) and any(st['t'] == 'V' for st in case['hist'][1:])
        threads = obs[0]
        return any(t[0] == 0 and t[1] and t[1][0] for t in threads) and _depth(case['ops']) >= 1 and len(threads) >= 2
    except Exception:
        return False


def kinds(case, obs):
    k = []
    try:
        if 'soak' in case:
            return ['soak-free-running-threads-%d' % case['threads']]
        if 'hist' in case:
            b = Book(False)
            k15_served = set()
            k.append('hist')
            if case['order']:
                k.append('hist-custom-accept-order')
            if case.get('foreign'):
                k.append('hist-foreign-registry')
            marks = [st.get('mark') for st in case['hist'] if st['t'] == 'Q' and st.get('mark')]
            if marks:
                k.append('hist-short-lived-marked-context')
            if any(a != b for a, b in zip(marks, marks[1:])):
                k.append('hist-marker-alternates')
            ths = [st.get('th', 0) for st in case['hist']]
            if len(set(ths)) > 1:
                k.append('hist-several-os-threads')
                seen = {}
                for st in case['hist']:
                    t = st.get('th', 0)
                    if st['t'] == 'V' and any(x != t for x in seen.values()):
                        k.append('hist-registration-on-another-thread-than-a-warm-one')
                    if st['t'] == 'Q':
                        seen[(st['req'], st['ctx'], st['name'], st['cl'])] = t
            if any(st['t'] == 'V' and st.get('probe') for st in case['hist']):
                k.append('hist-probe-during-registration')
            if any(st['t'] == 'V' and st['acc'] == 'html1' for st in case['hist']):
                k.append('hist-accept-with-params')
            if any(st['t'] == 'Q' and st['h'] in ('textany', 'anylow') for st in case['hist']):
                k.append('hist-accept-header-wildcard')
            if any(st['t'] == 'Q' and not st['s'] for st in case['hist']):
                k.append('hist-permissive-call')
            if any(st['t'] == 'Q' and st['cl'] == 1 for st in case['hist']):
                k.append('hist-exception-view-lookup')
            if any(st['t'] == 'Q' and st['cl'] == 0 and st['ctx'] in EXC_CTX for st in case['hist']):
                k.append('hist-ordinary-lookup-of-exception-resource')
            if any(st['t'] == 'Q' and st['via'] for st in case['hist']):
                k.append('hist-via-router')
            if any(st['t'] == 'V' and st['exc'] for st in case['hist']):
                k.append('hist-add-exception-view')
            if any(st['t'] == 'V' and not st['exc'] and st['ctx'] in EXC_CTX for st in case['hist']):
                k.append('hist-add-view-registers-both-classifiers')
            qk = set((st['req'], st['ctx'], st['name'], st['cl']) for st in case['hist'] if st['t'] == 'Q')
            if any((a, b, c, 1 - d) in qk for (a, b, c, d) in qk):
                k.append('hist-both-classifiers-same-triad')
            if any(a == [FORBIDDEN_ANSWER] for a in obs[3] if a != 0):
                k.append('hist-forbidden-answer')
            seenq = False
            warm = set()
            chain = None
            eff = effective(case['hist'])
            for a, b2 in batches(case['hist']):
                k.append('hist-commit-batch')
                xs = [j for j in range(a, b2) if case['hist'][j]['t'] == 'X']
                if xs:
                    k.append('hist-commit-fails')
                    if any(case['hist'][j]['t'] == 'V' for j in range(a, xs[0])):
                        k.append('hist-commit-fails-after-a-view-action-ran')
                        if any(x['t'] == 'Q' for x in case['hist'][:a]):
                            k.append('hist-commit-fails-after-a-view-action-ran-warm-cache')
                    if any(case['hist'][j]['t'] == 'V' for j in range(xs[0], b2)):
                        k.append('hist-commit-drops-later-view-actions')
            for idx, st in enumerate(case['hist']):
                if st['t'] == 'X' or (st['t'] == 'V' and not eff[idx]):
                    continue
                if st['t'] == 'A':
                    k.append('hist-route-added-again' + ('-use-global-views' if st['g'] else ''))
                    if any(x[1] == 2 for x in warm):
                        k.append('hist-route-added-again-after-a-route-lookup')
                    continue
                if st['t'] == 'I':
                    k.append('hist-reinit')
                    if warm:
                        k.append('hist-reinit-after-a-served-lookup')
                    b = Book(False)
                    warm = set()
                    chain = None
                    continue
                if st['t'] == 'Q':
                    key = (st['cl'], st['req'], qctx(st), st['name'])
                    if 'hist-reinit' in k and key in k15_served:
                        k.append('hist-lookup-served-before-reinit-asked-again')
                    k15_served.add(key)
                    warm.add(key)
                    if st['via'] == 2 and st['cl'] == 1:
                        k.append('hist-excview-on-dispatched-request')
                        if chain is not None and len(chain) > 1:
                            k.append('hist-excview-on-redispatched-request')
                    elif st['via'] == 2:
                        k.append('hist-via-invoke-subrequest')
                        if st.get('same') and chain is not None:
                            k.append('hist-redispatch-same-request-object')
                            if chain[-1] != st['req']:
                                k.append('hist-redispatch-route-then-no-route' if chain[-1] == 2 else
                                         'hist-redispatch-no-route-then-route')
                            chain = chain + [st['req']]
                        else:
                            chain = [st['req']]
                if st['t'] == 'V':
                    b.register(st)
                    if seenq:
                        k.append(b.kinds[-1] + '-after-request')
                else:
                    seenq = True
            k += sorted(set(b.kinds))
            for t, a in zip(obs[0], obs[3]):
                if a == 0:
                    continue
                if not a:
                    k.append('hist-nothing-answers')
                elif t[1] and t[1][0] and len(t[1][0]) > 1:
                    k.append('hist-several-candidates')
            if any(t[0] == 0 and t[4] == 0 for t in obs[0]):
                k.append('hist-cache-hit')
            return sorted(set(k))
        threads, spawn, cache = obs[:3]
        lk = [t for t in threads if t[0] == 0]
        k.append('threads-%s' % (len(threads) if len(threads) < 8 else '8+'))
        k.append('nesting-%d' % _depth(case['ops']))
        k.append('cache-final-%s' % (len(cache) if len(cache) < 3 else '3+'))
        if any(t[4] == 0 for t in lk):
            k.append('has-cache-hit')
        if any(t[4] > 0 and t[1] and t[1][0] for t in lk):
            k.append('has-miss-found')
        if any(t[1] and not t[1][0] for t in lk):
            k.append('has-miss-empty')
        if any(t[1] and len(t[1][0]) > 1 for t in lk):
            k.append('has-multi-result')
        if any(t[2] for t in threads):
            k.append('has-crash')
        if case.get('foreign'):
            k.append('foreign-registry')
        if any(o.get('cl') for o in _all_lookups(case['ops'])):
            k.append('has-exception-classifier-lookup')
        if any(t[0] == 1 for t in threads):
            k.append('has-registration')

        def pts(ops):
            s = set()
            for o in ops:
                if o['t'] == 'L':
                    for p, sub in o['inj']:
                        s.add('inj-lock' if p == PT_LOCK else 'inj-unlock' if p == PT_UNLOCK else 'inj-before-get' if p == PT_GET
                              else 'inj-lock-held' if p == PT_HELD else 'inj-query')
                        s |= pts(sub)
                else:
                    if o['inj']:
                        s.add('inj-before-clear')
                    if o['inj2']:
                        s.add('inj-after-clear')
                    s |= pts(o['inj']) | pts(o['inj2'])
            return s
        k += sorted(pts(case['ops']))
    except Exception:
        k.append('malformed-observation')
    return k


def describe(case):
    return case


def explain(item):
    return ('threads = [kind(0 lookup/1 register), [views]|[] , crashed, finished, adapter queries] in spawn order; '
            'spec = [expected answer per thread ([] = unconstrained), final state quiet, lookup_all of final registrations per key, '
            'spawn order, trace length]')
