"""Translator: Python AST of _find_views / _clear_view_lookup_cache / add_view.register
-> instruction lists of coq/Lib/C15Prog.v.  Fail-closed: anything that is not one of the
recognised statement forms is reported and the default program is emitted instead."""
import ast

# source functions whose control flow is regenerated on every run (coverage audit contract)
TRANSLATED = ['pyramid/view.py:_find_views', 'pyramid/registry.py:Registry.__init__']

KEY_BASE = ['request_iface', 'context_iface', 'view_name']
KEY_EXTRA = ['view_classifier', 'view_types']
ATTR = 'registry._view_lookup_cache'
LOOP = (
    'for (req_type, ctx_type) in itertools.product(request_iface.__sro__, context_iface.__sro__):\n'
    '    source_ifaces = (view_classifier, req_type, ctx_type)\n'
    '    for view_type in view_types:\n'
    '        view_callable = registered(source_ifaces, view_type, name=view_name)\n'
    '        if view_callable is not None:\n'
    '            views.append(view_callable)')
VIEW_TYPE_IDS = {'IView': 0, 'ISecuredView': 1, 'IMultiView': 2}

DEFAULT_LOOKUP = ['ReadPtr', 'Get', ['IfMiss', ['InitViews', 'QueryAll', ['IfNonEmpty', ['Lock', 'Write Local', 'Unlock']]]],
                  'Return']
DEFAULT_REGISTER = ['RegisterAdapter', 'Clear Swap']
DEFAULT_INIT = ['INewLock', 'IClear clear_mode_registry', 'IResetAdapters']


class Unknown(Exception):
    pass


def u(node):
    return ast.unparse(node)


def _strip_doc(body):
    if body and isinstance(body[0], ast.Expr) and isinstance(body[0].value, ast.Constant) \
            and isinstance(body[0].value.value, str):
        return body[1:]
    return body


class LookupTranslator:
    def __init__(self):
        self.cache_local = None     # name of the local bound to registry._view_lookup_cache
        self.view_types = None
        self.key = None             # the elements of the cache key (names), the same at the read and the write
        self.key_local = None       # name of a local the key tuple was bound to, if any
        self.defaults_done = set()

    def key_expr(self, node):
        """the cache key expression -> list of element names; every use must give the same list"""
        if isinstance(node, ast.Name) and node.id == self.key_local:
            return self.key
        if not isinstance(node, ast.Tuple) or not all(isinstance(e, ast.Name) for e in node.elts):
            raise Unknown('cache key is not a tuple of names: %s' % u(node))
        names = [e.id for e in node.elts]
        if names[:3] != KEY_BASE or any(n not in KEY_EXTRA for n in names[3:]) or len(set(names)) != len(names):
            raise Unknown('cache key elements: %s' % names)
        for n in names[3:]:
            if n not in self.defaults_done:
                raise Unknown('cache key uses %s before its default is applied' % n)
        if self.key is not None and names != self.key:
            raise Unknown('cache read and write use different keys: %s / %s' % (self.key, names))
        self.key = names
        return names

    def stmts(self, body):
        out = []
        for st in _strip_doc(body):
            out += self.stmt(st)
        return out

    def stmt(self, st):
        t = u(st)
        # defaults of the optional arguments
        if isinstance(st, ast.If) and u(st.test) == 'view_types is None' and not st.orelse and len(st.body) == 1:
            a = st.body[0]
            if isinstance(a, ast.Assign) and u(a.targets[0]) == 'view_types' and isinstance(a.value, ast.Tuple) \
                    and all(isinstance(e, ast.Name) and e.id in VIEW_TYPE_IDS for e in a.value.elts):
                self.view_types = [e.id for e in a.value.elts]
                self.defaults_done.add('view_types')
                return []
            raise Unknown('default of view_types: %s' % t)
        if t == 'if view_classifier is None:\n    view_classifier = IViewClassifier':
            self.defaults_done.add('view_classifier')
            return []
        if t == 'registered = registry.adapters.registered':
            return []
        if isinstance(st, ast.Assign) and len(st.targets) == 1 and isinstance(st.targets[0], ast.Name):
            name = st.targets[0].id
            if u(st.value) == ATTR and name not in ('views', 'registered'):
                self.cache_local = name
                return ['ReadPtr']
            if name not in ('views', 'registered', 'cache') and isinstance(st.value, ast.Tuple) \
                    and self.key_local is None and self.key is None:
                self.key_expr(st.value)
                self.key_local = name
                return []
            if name == 'views':
                v = st.value
                if u(v) == '[]':
                    return ['InitViews']
                if isinstance(v, ast.Call) and isinstance(v.func, ast.Attribute) and v.func.attr == 'get' \
                        and len(v.args) == 1 and not v.keywords:
                    self.key_expr(v.args[0])
                    recv = v.func.value
                    if isinstance(recv, ast.Name) and recv.id == self.cache_local:
                        return ['Get']
                    if u(recv) == ATTR:
                        # reads the attribute and the entry in one expression
                        if self.cache_local is None:
                            self.cache_local = '<anonymous>'
                            return ['ReadPtr', 'Get']
                raise Unknown('assignment to views: %s' % t)
        if isinstance(st, ast.If) and not st.orelse:
            if u(st.test) == 'views is None':
                return [['IfMiss', self.stmts(st.body)]]
            if u(st.test) == 'views':
                return [['IfNonEmpty', self.stmts(st.body)]]
        if isinstance(st, ast.For) and ast.dump(ast.parse(t)) == ast.dump(ast.parse(LOOP)):
            return ['QueryAll']
        if isinstance(st, ast.With) and len(st.items) == 1 and u(st.items[0].context_expr) == 'registry._lock' \
                and st.items[0].optional_vars is None:
            return ['Lock'] + self.stmts(st.body) + ['Unlock']
        if isinstance(st, ast.Assign) and len(st.targets) == 1 and isinstance(st.targets[0], ast.Subscript) \
                and u(st.value) == 'views':
            self.key_expr(st.targets[0].slice)
            recv = st.targets[0].value
            if isinstance(recv, ast.Name) and recv.id == self.cache_local and self.cache_local != '<anonymous>':
                return ['Write Local']
            if u(recv) == ATTR:
                return ['Write Reread']
            raise Unknown('cache write through %s' % u(recv))
        if isinstance(st, ast.Return) and st.value is not None and u(st.value) == 'views':
            return ['Return']
        raise Unknown('statement not recognised: %s' % t.split('\n')[0][:120])


def translate_lookup(fn):
    """fn: ast.FunctionDef of _find_views -> (program, view_type names, cache key element names)"""
    tr = LookupTranslator()
    sig = u(fn.args)
    if sig != 'registry, request_iface, context_iface, view_name, view_types=None, view_classifier=None' \
            or fn.decorator_list:
        raise Unknown('signature of _find_views: (%s)' % sig)
    prog = tr.stmts(fn.body)
    if tr.key is None:
        raise Unknown('no cache key found')
    if tr.view_types is None:
        raise Unknown('default of view_types not found')
    if not prog or prog[-1] != 'Return':
        raise Unknown('function does not end with return views')
    return prog, tr.view_types, tr.key


def clear_mode(fn, owner):
    """body of a _clear_view_lookup_cache function -> 'Swap' | 'InPlace'"""
    body = _strip_doc(fn.body)
    want_sig = 'self' if owner == 'self' else ''
    if u(fn.args) != want_sig or fn.decorator_list:
        raise Unknown('signature of _clear_view_lookup_cache: (%s)' % u(fn.args))
    if len(body) != 1:
        raise Unknown('_clear_view_lookup_cache has %d statements' % len(body))
    t = u(body[0])
    if t == '%s._view_lookup_cache = {}' % owner or t == '%s._view_lookup_cache = dict()' % owner:
        return 'Swap'
    if t == '%s._view_lookup_cache.clear()' % owner:
        return 'InPlace'
    raise Unknown('_clear_view_lookup_cache body: %s' % t)


def translate_register(fn, mode):
    """the register action of add_view: order of register_view(...) calls and the cache clear.  The clear must be an
    unconditional top-level statement of the action (a conditional or early-exited clear is not expressible as a
    program); register_view calls may sit under the `if not exception_only:` / `if isexc:` tests."""
    ev = []
    top_clear = set()
    for st in _strip_doc(fn.body):
        if isinstance(st, ast.Expr) and isinstance(st.value, ast.Call) \
                and u(st.value.func).endswith('._clear_view_lookup_cache'):
            top_clear.add(id(st.value))

    class V(ast.NodeVisitor):
        def visit_FunctionDef(self, node):      # nested helper definitions are not executed here
            if node is fn:
                self.generic_visit(node)

        def visit_Return(self, node):
            raise Unknown('register action returns early (line %d)' % node.lineno)

        def visit_Call(self, node):
            self.generic_visit(node)
            if isinstance(node.func, ast.Name) and node.func.id == 'register_view':
                if not ev or ev[-1] != 'RegisterAdapter':
                    ev.append('RegisterAdapter')
            elif u(node.func).endswith('._clear_view_lookup_cache'):
                if u(node.func) != 'self.registry._clear_view_lookup_cache' or node.args or node.keywords:
                    raise Unknown('cache clear call: %s' % u(node))
                if id(node) not in top_clear:
                    raise Unknown('the cache clear is conditional / nested (line %d)' % node.lineno)
                ev.append('Clear %s' % mode)
            elif '_view_lookup_cache' in u(node.func):
                raise Unknown('cache touched in register: %s' % u(node))

        def visit_Attribute(self, node):
            self.generic_visit(node)
            if node.attr == '_view_lookup_cache':
                raise Unknown('cache touched in register (line %d)' % node.lineno)

    V().visit(fn)
    for n in ast.walk(fn):
        if isinstance(n, (ast.Try, ast.While, ast.For, ast.With)) and any(
                isinstance(c, ast.Call) and (u(c.func).endswith('._clear_view_lookup_cache') or
                                             (isinstance(c.func, ast.Name) and c.func.id == 'register_view'))
                for c in ast.walk(n)):
            raise Unknown('registration or clear inside a %s block' % type(n).__name__)
    if 'RegisterAdapter' not in ev:
        raise Unknown('register action does not call register_view')
    return ev


def register_tail(fn):
    """the statements of the register action from the first one that calls register_view to the end: which classifier
    is registered under which test, and the clear -- shape-pinned as a fragment (the statements before it only compute
    the renderer / permission handed to the derivers)"""
    body = _strip_doc(fn.body)
    for i, st in enumerate(body):
        if any(isinstance(c, ast.Call) and isinstance(c.func, ast.Name) and c.func.id == 'register_view'
               for c in ast.walk(st)):
            import hashlib
            mod = ast.Module(body=body[i:], type_ignores=[])
            return hashlib.sha1(ast.dump(ast.parse(ast.unparse(mod))).encode()).hexdigest()[:16]
    raise Unknown('register action does not call register_view')


CACHE_NAMES = ('_view_lookup_cache', '_clear_view_lookup_cache')
CACHE_SITES = {
    'pyramid/view.py': {'_find_views'},
    'pyramid/registry.py': {'Registry.__init__', 'Registry._clear_view_lookup_cache'},
    'pyramid/config/__init__.py': {'Configurator._fix_registry', 'Configurator._fix_registry._clear_view_lookup_cache'},
    'pyramid/config/views.py': {'ViewsConfiguratorMixin.add_view.register'},
}


def _qual_walk(tree):
    """yield (qualname of the innermost enclosing function/class chain, node) for every node"""
    def walk(node, qual):
        for ch in ast.iter_child_nodes(node):
            q = qual
            if isinstance(ch, (ast.FunctionDef, ast.AsyncFunctionDef, ast.ClassDef)):
                q = (qual + '.' if qual else '') + ch.name
            yield q, ch
            for x in walk(ch, q):
                yield x
    return walk(tree, '')


def cache_touch_sites(src_root):
    """every mention of the cache attribute, the clear method or a `._lock` attribute, in ALL of src/pyramid (tests
    excluded), must sit in one of the functions the model covers; string mentions (getattr/setattr/hasattr/__dict__)
    count too"""
    import os
    bad = []
    for d, _, fs in os.walk(os.path.join(src_root, 'pyramid')):
        for fn in fs:
            if not fn.endswith('.py'):
                continue
            path = os.path.join(d, fn)
            rel = os.path.relpath(path, src_root)
            text = open(path).read()
            if not any(n in text for n in CACHE_NAMES) and '._lock' not in text:
                continue
            allowed = CACHE_SITES.get(rel, set())
            for q, n in _qual_walk(ast.parse(text)):
                hit = None
                if isinstance(n, ast.Attribute) and (n.attr in CACHE_NAMES or n.attr == '_lock'):
                    hit = n.attr
                elif isinstance(n, ast.Constant) and isinstance(n.value, str) and \
                        (n.value in CACHE_NAMES or n.value == '_lock'):
                    hit = repr(n.value)
                elif isinstance(n, ast.FunctionDef) and n.name in CACHE_NAMES:
                    hit = 'def ' + n.name
                    q = q  # the definition itself is a site of its own qualname
                if hit is None:
                    continue
                if q not in allowed:
                    bad.append('%s:%s mentions %s (line %d)' % (rel, q or '<module>', hit, getattr(n, 'lineno', 0)))
    if bad:
        raise Unknown('; '.join(bad[:4]))
    return True


def view_adapter_sites(tree):
    """config/views.py: view adapters are (un)registered only inside add_view.register_view"""
    bad = []
    for q, n in _qual_walk(tree):
        if isinstance(n, ast.Call) and isinstance(n.func, ast.Attribute) and \
                n.func.attr in ('registerAdapter', 'unregisterAdapter', 'unregister', 'register') and \
                ('registry' in u(n.func.value) or 'adapters' in u(n.func.value)):
            if q != 'ViewsConfiguratorMixin.add_view.register_view':
                bad.append('%s line %d: %s' % (q, n.lineno, u(n.func)))
    if bad:
        raise Unknown('; '.join(bad[:4]))
    return True


REGISTRY_MEMBERS = ['has_listeners', '_settings', '__init__', '_clear_view_lookup_cache', '__bool__', 'package_name',
                    'registerSubscriptionAdapter', 'registerSelfAdapter', 'queryAdapterOrSelf', 'registerHandler',
                    'notify', '_get_settings', '_set_settings', 'settings']


def registry_class(cls):
    """class Registry: bases and member names (a new __setattr__/__getattr__/property/descriptor would change how the
    cache attribute and the lock are stored); decorators of the two cache methods"""
    if [u(b) for b in cls.bases] != ['Components', 'dict'] or cls.keywords or cls.decorator_list:
        raise Unknown('bases of Registry: %s' % [u(b) for b in cls.bases])
    names = []
    for st in _strip_doc(cls.body):
        if isinstance(st, ast.FunctionDef):
            names.append(st.name)
            if st.name in ('__init__', '_clear_view_lookup_cache') and st.decorator_list:
                raise Unknown('Registry.%s is decorated' % st.name)
        elif isinstance(st, ast.Assign) and len(st.targets) == 1 and isinstance(st.targets[0], ast.Name):
            names.append(st.targets[0].id)
        else:
            raise Unknown('class-level statement in Registry: %s' % u(st)[:60])
    if names != REGISTRY_MEMBERS:
        raise Unknown('members of Registry: %s' % [n for n in names if n not in REGISTRY_MEMBERS] or names)
    return True


def coq_prog(p):
    def one(i):
        if isinstance(i, list):
            return '%s %s' % (i[0], coq_prog(i[1]))
        return i
    return '[' + '; '.join(one(i) for i in p) + ']'


def flat_params(p):
    """summary of the parameters the design names: target, guard, (lock)"""
    txt = coq_prog(p)
    return {'target': 'Reread' if 'Write Reread' in txt else 'Local' if 'Write Local' in txt else 'none',
            'guard': 'IfNonEmpty' in txt, 'lock': 'Lock' in txt}


def call_view_reads_only(fn):
    """_call_view: the list returned by _find_views (it is the very object stored in the cache) may only be iterated.
    Any other use of the name (method call, subscript, passing it on, rebinding) is reported."""
    target = None
    for st in ast.walk(fn):
        if isinstance(st, ast.Assign) and isinstance(st.value, ast.Call) and u(st.value.func) == '_find_views':
            if len(st.targets) != 1 or not isinstance(st.targets[0], ast.Name) or target is not None:
                raise Unknown('result of _find_views bound in an unexpected way')
            target = st.targets[0].id
    if target is None:
        raise Unknown('_call_view does not call _find_views')
    iters = [id(n.iter) for n in ast.walk(fn) if isinstance(n, ast.For) and isinstance(n.iter, ast.Name)]
    uses = 0
    for n in ast.walk(fn):
        if isinstance(n, ast.Name) and n.id == target:
            if isinstance(n.ctx, ast.Store):
                continue
            if id(n) in iters:
                uses += 1
                continue
            raise Unknown('%s is used other than as the iterable of a for loop (line %d)' % (target, n.lineno))
    for n in ast.walk(fn):
        if isinstance(n, ast.Attribute) and n.attr == '_view_lookup_cache':
            raise Unknown('_call_view touches the cache directly')
    if uses != 1:
        raise Unknown('%s is iterated %d times' % (target, uses))
    return True


def register_view_clears(fn):
    """register_view must not clear the cache itself (a conditional clear is not expressible as a program)"""
    for n in ast.walk(fn):
        if isinstance(n, ast.Attribute) and n.attr in ('_clear_view_lookup_cache', '_view_lookup_cache'):
            raise Unknown('register_view touches the view lookup cache (line %d)' % n.lineno)
    return False


MV_STATE = {'name', 'media_views', 'views', 'accepts'}
MV_READERS = ('get_views', 'match', '__call__', '__permitted__', '__call_permissive__', '__discriminator__')
MV_METHODS = {'get_views', 'match', 'add'}


def multiview_stateless(cls):
    """class MultiView: the object cached by the view lookup holds nothing derived from requests -- __init__ creates
    exactly name/media_views/views/accepts, and the methods that serve a request (get_views, match, __call__, ...)
    only READ self: no store/delete through self, no attribute of self outside the known state and methods, no method
    call on a state attribute (e.g. self.memo.get / self.views.sort), self not passed on.  Only add() may write, and
    only to the known state."""
    fns = {n.name: n for n in cls.body if isinstance(n, ast.FunctionDef)}
    for name in ('__init__', 'add') + MV_READERS:
        if name not in fns:
            raise Unknown('MultiView.%s not found' % name)
    extra = set(fns) - set(('__init__', 'add') + MV_READERS)
    if extra:
        raise Unknown('MultiView has further methods: %s' % sorted(extra))
    for st in cls.body:
        if not isinstance(st, ast.FunctionDef) and not (isinstance(st, ast.Expr) and isinstance(st.value, ast.Constant)):
            raise Unknown('class-level statement in MultiView: %s' % u(st)[:60])

    def self_attrs(fn):
        out = []
        for n in ast.walk(fn):
            if isinstance(n, ast.Attribute) and isinstance(n.value, ast.Name) and n.value.id == 'self':
                out.append(n)
        return out
    created = set()
    for st in _strip_doc(fns['__init__'].body):
        if isinstance(st, ast.Assign) and len(st.targets) == 1 and isinstance(st.targets[0], ast.Attribute) \
                and u(st.targets[0].value) == 'self':
            created.add(st.targets[0].attr)
        else:
            raise Unknown('MultiView.__init__: %s' % u(st)[:60])
    if created != MV_STATE:
        raise Unknown('MultiView.__init__ creates %s' % sorted(created))
    for a in self_attrs(fns['add']):
        if a.attr not in MV_STATE:
            raise Unknown('MultiView.add uses self.%s' % a.attr)
    for name in MV_READERS:
        fn = fns[name]
        parents = {}
        for n in ast.walk(fn):
            for ch in ast.iter_child_nodes(n):
                parents[id(ch)] = n
        for n in ast.walk(fn):
            if isinstance(n, ast.Name) and n.id == 'self':
                par = parents.get(id(n))
                if isinstance(n.ctx, ast.Store) or not isinstance(par, ast.Attribute):
                    raise Unknown('MultiView.%s passes self on or rebinds it (line %d)' % (name, n.lineno))
            if isinstance(n, (ast.Global, ast.Nonlocal)):
                raise Unknown('MultiView.%s declares global/nonlocal state' % name)
        for a in self_attrs(fn):
            if not isinstance(a.ctx, ast.Load):
                raise Unknown('MultiView.%s stores to self.%s (line %d)' % (name, a.attr, a.lineno))
            if a.attr not in MV_STATE and a.attr not in MV_METHODS:
                raise Unknown('MultiView.%s uses self.%s (line %d)' % (name, a.attr, a.lineno))
            par = parents.get(id(a))
            if a.attr in MV_STATE:
                if isinstance(par, ast.Attribute):
                    raise Unknown('MultiView.%s calls or reads self.%s.%s (line %d)' % (name, a.attr, par.attr, a.lineno))
                if isinstance(par, ast.Subscript) and not isinstance(par.ctx, ast.Load):
                    raise Unknown('MultiView.%s stores into self.%s[...] (line %d)' % (name, a.attr, a.lineno))
                if isinstance(par, (ast.AugAssign, ast.Delete)):
                    raise Unknown('MultiView.%s modifies self.%s (line %d)' % (name, a.attr, a.lineno))
    return True


# ---------------------------------------------------------------- Registry.__init__ -> init program
def _mentions_self(node):
    return any(isinstance(n, ast.Name) and n.id == 'self' for n in ast.walk(node))


def translate_init(fn, mode):
    """Registry.__init__ -> list of init instructions (coq/Lib/C15Init.v).  Recognised, at the top level of the body
    and unconditionally: the lock creation, the cache clear, the call of Components.__init__ (drops every
    registration), dict.__init__(self); statements that do not mention self at all (they only bind locals) are
    skipped.  Anything else that touches self -- in particular a lock / clear under a condition -- is not expressible."""
    sig = u(fn.args)
    if not sig.startswith('self') or fn.decorator_list:
        raise Unknown('signature of Registry.__init__: (%s)' % sig)
    prog = []
    for st in _strip_doc(fn.body):
        t = u(st)
        if not _mentions_self(st):
            for n in ast.walk(st):
                if isinstance(n, (ast.Return, ast.Raise, ast.Global, ast.Nonlocal)):
                    raise Unknown('Registry.__init__: %s' % t.split('\n')[0][:80])
            continue
        if t == 'self._lock = threading.Lock()':
            prog.append('INewLock')
        elif t == 'self._clear_view_lookup_cache()':
            prog.append('IClear %s' % mode)
        elif isinstance(st, ast.Expr) and isinstance(st.value, ast.Call) and \
                u(st.value.func) in ('Components.__init__', 'super().__init__', 'super(Registry, self).__init__'):
            prog.append('IResetAdapters')
        elif t == 'dict.__init__(self)':
            pass
        else:
            raise Unknown('Registry.__init__: statement not recognised: %s' % t.split('\n')[0][:100])
    for ins in ('INewLock', 'IClear %s' % mode, 'IResetAdapters'):
        if prog.count(ins) > 1:
            raise Unknown('Registry.__init__: %s more than once' % ins)
    return prog


# ---------------------------------------------------------------- Router.handle_request -> request type of the lookup
IFACE_SITES = {
    'pyramid/router.py': {'Router.handle_request'},
    'pyramid/request.py': {'Request'},
    'pyramid/testing.py': {'DummyRequest'},
}
ROUTE_IFACE = 'registry.queryUtility(IRouteRequest, name=route.name, default=IRequest)'


def _iface_store(st):
    """is st `request.request_iface = <v>` / `attrs['request_iface'] = <v>`?  -> unparsed value | None"""
    if isinstance(st, ast.Assign) and len(st.targets) == 1:
        tg = st.targets[0]
        if isinstance(tg, ast.Attribute) and tg.attr == 'request_iface' and u(tg.value) == 'request':
            return u(st.value)
        if isinstance(tg, ast.Subscript) and u(tg.value) == 'attrs' and isinstance(tg.slice, ast.Constant) \
                and tg.slice.value == 'request_iface':
            return u(st.value)
    return None


def _touches_iface(node):
    for n in ast.walk(node):
        if isinstance(n, ast.Attribute) and n.attr == 'request_iface' and not isinstance(n.ctx, ast.Load):
            return True
        if isinstance(n, ast.Constant) and n.value == 'request_iface':
            return True
    return False


def router_iface(fn):
    """Router.handle_request -> (resets, sets_route): is request.request_iface unconditionally reset to IRequest before
    the routes mapper is consulted, and is the matched route's request interface stored when a route matched?  Every
    other store to the attribute, a lookup call with other arguments, or a different value is reported."""
    if u(fn.args) != 'self, request' or fn.decorator_list:
        raise Unknown('signature of Router.handle_request: (%s)' % u(fn.args))
    body = _strip_doc(fn.body)
    resets = sets_route = False
    seen_mapper = False
    accounted = set()
    for st in body:
        v = _iface_store(st)
        if v is not None:
            if v != 'IRequest' or seen_mapper:
                raise Unknown('handle_request stores %s into request_iface %s' % (v, 'after routing' if seen_mapper else ''))
            resets = True
            accounted.add(id(st))
            continue
        if isinstance(st, ast.If) and u(st.test) == 'routes_mapper is not None' and not st.orelse:
            seen_mapper = True
            for inner in st.body:
                if isinstance(inner, ast.If) and u(inner.test) in ('route is None', 'route is not None'):
                    branch = inner.orelse if u(inner.test) == 'route is None' else inner.body
                    for x in branch:
                        v = _iface_store(x)
                        if v is not None:
                            if v != ROUTE_IFACE or sets_route:
                                raise Unknown('handle_request stores %s into request_iface for a matched route' % v)
                            sets_route = True
                            accounted.add(id(x))
        elif any(isinstance(c, ast.Call) and u(c.func) == 'routes_mapper' for c in ast.walk(st)):
            seen_mapper = True
    for n in ast.walk(fn):
        if isinstance(n, ast.stmt) and not isinstance(n, (ast.If, ast.For, ast.While, ast.With, ast.Try, ast.FunctionDef)) \
                and id(n) not in accounted and _touches_iface(n):
            raise Unknown('handle_request touches request_iface in an unexpected place (line %d)' % n.lineno)
    calls = [c for c in ast.walk(fn) if isinstance(c, ast.Call) and u(c.func) == '_call_view']
    if len(calls) != 1 or u(calls[0]) != '_call_view(registry, request, context, context_iface, view_name)':
        raise Unknown('handle_request calls _call_view %s' % [u(c) for c in calls])
    if not any(u(st) == 'context_iface = providedBy(context)' for st in body):
        raise Unknown('handle_request does not compute context_iface = providedBy(context)')
    if not any(u(st) == "registry = attrs['registry']" for st in body):
        raise Unknown('handle_request does not take the registry from the request')
    return resets, sets_route


def request_iface_sites(src_root):
    """every STORE to an attribute / item / class attribute called request_iface in src/pyramid (tests and p* scripts
    excluded) sits in Router.handle_request, or is the class default of Request / DummyRequest (= IRequest)"""
    import os
    bad = []
    for d, _, fs in os.walk(os.path.join(src_root, 'pyramid')):
        if os.sep + 'tests' in d or d.endswith('scripts') or 'scaffolds' in d:
            continue
        for fname in fs:
            if not fname.endswith('.py'):
                continue
            path = os.path.join(d, fname)
            rel = os.path.relpath(path, src_root)
            text = open(path).read()
            if 'request_iface' not in text:
                continue
            allowed = IFACE_SITES.get(rel, set())
            for q, n in _qual_walk(ast.parse(text)):
                hit = False
                if isinstance(n, ast.Attribute) and n.attr == 'request_iface' and not isinstance(n.ctx, ast.Load):
                    hit = True
                elif isinstance(n, ast.Subscript) and not isinstance(n.ctx, ast.Load) and \
                        isinstance(n.slice, ast.Constant) and n.slice.value == 'request_iface':
                    hit = True
                elif isinstance(n, ast.Call) and u(n.func) in ('setattr', 'delattr') and len(n.args) > 1 and \
                        isinstance(n.args[1], ast.Constant) and n.args[1].value == 'request_iface':
                    hit = True
                elif isinstance(n, ast.Assign) and any(isinstance(t, ast.Name) and t.id == 'request_iface'
                                                       for t in n.targets) and q in ('Request', 'DummyRequest'):
                    if u(n.value) != 'IRequest':
                        bad.append('%s:%s class default request_iface = %s' % (rel, q, u(n.value)))
                    continue
                if hit and q not in allowed:
                    bad.append('%s:%s stores request_iface (line %d)' % (rel, q or '<module>', n.lineno))
    mreq = ast.parse(open(os.path.join(src_root, 'pyramid', 'request.py')).read())
    ok = False
    for n in mreq.body:
        if isinstance(n, ast.ClassDef) and n.name == 'Request':
            ok = any(isinstance(st, ast.Assign) and u(st) == 'request_iface = IRequest' for st in n.body)
    if not ok:
        bad.append('pyramid/request.py: class Request has no class attribute request_iface = IRequest')
    if bad:
        raise Unknown('; '.join(bad[:4]))
    return True


# ---------------------------------------------------------------- _call_view -> gen_call_view
TRANSLATED.append('pyramid/view.py:_call_view')
CV_SIG = ('registry, request, context, context_iface, view_name, view_types=None, view_classifier=None, secure=True, '
          'request_iface=None')
CV_FIND = ('_find_views(registry, request_iface, context_iface, view_name, view_types=view_types, '
           'view_classifier=view_classifier)')
CV_IFACE = "if request_iface is None:\n    request_iface = getattr(request, 'request_iface', IRequest)"
# what "calling a candidate" means when secure=False (part of the opaque candidate call; V = the loop variable)
CV_PERMISSIVE = (
    "if not secure:\n"
    "    permissive = getattr(V, '__call_permissive__', None)\n"
    "    if permissive is not None:\n"
    "        predicated = getattr(V, '__predicated__', None)\n"
    "        if predicated is not None and (not predicated(context, request)):\n"
    "            raise PredicateMismatch(view_name)\n"
    "        V = permissive")


class _Rename(ast.NodeTransformer):
    def __init__(self, mp):
        self.mp = mp

    def visit_Name(self, node):
        return ast.copy_location(ast.Name(id=self.mp.get(node.id, node.id), ctx=node.ctx), node)


def translate_call_view(fn):
    """pyramid.view._call_view -> Gallina text of
         gen_call_view (call : N -> cand_result) (views : list N) : cv_outcome
    The locals initialised with None become loop-carried variables: FLAGS (bound from the caught PredicateMismatch;
    bool) and RESULTS (bound from the candidate call; option N).  Statement forms: the for loop over the list returned
    by _find_views whose body is one try/except PredicateMismatch; in the try body the optional secure=False block
    (fixed text, part of what calling a candidate means), `r = V(context, request)`, then `return r` / `break` /
    nothing; in the handler `flag = <exc>` / pass / continue; after the loop `if flag is not None: raise flag`,
    `return r`, `return None`.  Anything else is reported."""
    if u(fn.args) != CV_SIG or fn.decorator_list:
        raise Unknown('signature of _call_view: (%s)' % u(fn.args))
    body = _strip_doc(fn.body)
    flags, results = [], []
    views_var = None
    i = 0
    seen_iface = False
    while i < len(body):
        st = body[i]
        t = u(st)
        if t == CV_IFACE and views_var is None:
            seen_iface = True
        elif isinstance(st, ast.Assign) and len(st.targets) == 1 and isinstance(st.targets[0], ast.Name) \
                and u(st.value) == CV_FIND and views_var is None:
            if not seen_iface:
                raise Unknown('_call_view looks views up before the request type is defaulted from the request')
            views_var = st.targets[0].id
        elif isinstance(st, ast.Assign) and len(st.targets) == 1 and isinstance(st.targets[0], ast.Name) \
                and u(st.value) == 'None' and views_var is not None:
            pass        # typed below, by use
        elif isinstance(st, ast.For):
            break
        else:
            raise Unknown('_call_view: statement not recognised: %s' % t.split('\n')[0][:100])
        i += 1
    if views_var is None or i >= len(body):
        raise Unknown('_call_view: no loop over the result of _find_views')
    inits = [s.targets[0].id for s in body[:i] if isinstance(s, ast.Assign) and u(s.value) == 'None']
    loop = body[i]
    after = body[i + 1:]
    if not (isinstance(loop.target, ast.Name) and isinstance(loop.iter, ast.Name) and loop.iter.id == views_var
            and not loop.orelse):
        raise Unknown('_call_view: loop header %s' % u(loop).split('\n')[0])
    V = loop.target.id
    if len(loop.body) != 1 or not isinstance(loop.body[0], ast.Try):
        raise Unknown('_call_view: the loop body is not one try statement')
    tr = loop.body[0]
    if tr.orelse or tr.finalbody or len(tr.handlers) != 1 or tr.handlers[0].type is None \
            or u(tr.handlers[0].type) != 'PredicateMismatch':
        raise Unknown('_call_view: try/except shape')
    exc = tr.handlers[0].name
    # ---- classify the None-initialised locals
    tb = list(tr.body)
    if tb and isinstance(tb[0], ast.If) and u(tb[0].test) == 'not secure':
        want = ast.dump(ast.parse(CV_PERMISSIVE))
        got = ast.dump(ast.parse(u(_Rename({V: 'V'}).visit(ast.parse(u(tb[0]))))))
        if got != want:
            raise Unknown('_call_view: the secure=False block changed')
        tb = tb[1:]
    else:
        raise Unknown('_call_view: secure=False block not found')
    if not tb or not (isinstance(tb[0], ast.Assign) and len(tb[0].targets) == 1 and isinstance(tb[0].targets[0], ast.Name)
                      and u(tb[0].value) == '%s(context, request)' % V):
        raise Unknown('_call_view: the candidate is not called as V(context, request)')
    res = tb[0].targets[0].id
    results.append(res)
    for st in tr.handlers[0].body:
        if isinstance(st, ast.Assign) and len(st.targets) == 1 and isinstance(st.targets[0], ast.Name) \
                and isinstance(st.value, ast.Name) and st.value.id == exc:
            if st.targets[0].id not in flags:
                flags.append(st.targets[0].id)
    for n in inits:
        if n not in flags and n not in results:
            raise Unknown('_call_view: local %s is initialised but its use is not recognised' % n)
    for n in flags + results:
        if n not in inits:
            raise Unknown('_call_view: local %s is used in the loop but not initialised with None' % n)
    if set(flags) & set(results):
        raise Unknown('_call_view: a local is both flag and result')
    flags.sort(key=inits.index)
    results.sort(key=inits.index)
    fv = {n: 'f%d' % k for k, n in enumerate(flags)}
    rv = {n: 'r%d' % k for k, n in enumerate(results)}
    state = [fv[n] for n in flags] + [rv[n] for n in results]

    def ret_of(node):
        if node is None or u(node) == 'None':
            return 'CVNone'
        if isinstance(node, ast.Name) and node.id in rv:
            return '(cv_ret %s)' % rv[node.id]
        raise Unknown('_call_view returns %s' % u(node))

    def after_code(stmts, env):
        """code after the loop (also the target of break) with the current values of the state variables"""
        if not stmts:
            return 'CVNone'
        st = stmts[0]
        if isinstance(st, ast.Return):
            return _subst(ret_of(st.value), env)
        if isinstance(st, ast.If) and not st.orelse and len(st.body) == 1 and isinstance(st.body[0], ast.Raise) \
                and isinstance(st.test, ast.Compare) and len(st.test.ops) == 1 and isinstance(st.test.ops[0], ast.IsNot) \
                and isinstance(st.test.left, ast.Name) and st.test.left.id in fv and u(st.test.comparators[0]) == 'None' \
                and isinstance(st.body[0].exc, ast.Name) and st.body[0].exc.id == st.test.left.id:
            return '(if %s then CVRaiseMismatch else %s)' % (_subst(fv[st.test.left.id], env), after_code(stmts[1:], env))
        raise Unknown('_call_view: statement after the loop not recognised: %s' % u(st).split('\n')[0][:100])

    def _subst(txt, env):
        for k, v in env.items():
            txt = txt.replace(k, v)
        return txt

    # ---- the answered branch: response bound, then the rest of the try body
    env_ans = {rv[res]: '(Some a)'}
    rest = tb[1:]
    if not rest:
        answered = 'loop r %s' % ' '.join(_subst(x, env_ans) for x in state)
    elif len(rest) == 1 and isinstance(rest[0], ast.Return):
        answered = _subst(ret_of(rest[0].value), env_ans)
    elif len(rest) == 1 and isinstance(rest[0], ast.Break):
        answered = after_code(after, env_ans)
    else:
        raise Unknown('_call_view: after the candidate call: %s' % u(rest[0]).split('\n')[0][:100])
    # ---- the mismatch branch: the handler
    env_mis = {}
    for st in tr.handlers[0].body:
        if isinstance(st, ast.Assign) and len(st.targets) == 1 and isinstance(st.targets[0], ast.Name) \
                and st.targets[0].id in fv and isinstance(st.value, ast.Name) and st.value.id == exc:
            env_mis[fv[st.targets[0].id]] = 'true'
        elif isinstance(st, (ast.Pass, ast.Continue)):
            pass
        else:
            raise Unknown('_call_view: handler statement not recognised: %s' % u(st).split('\n')[0][:100])
    mismatch = 'loop r %s' % ' '.join(_subst(x, env_mis) for x in state)
    binders = ' '.join(['(%s : bool)' % fv[n] for n in flags] + ['(%s : option N)' % rv[n] for n in results])
    inits_txt = ' '.join(['false'] * len(flags) + ['None'] * len(results))
    coq = ('Definition cv_ret (o : option N) : cv_outcome := match o with Some a => CVResponse a | None => CVNone end.\n'
           'Definition gen_call_view (call : N -> cand_result) (views : list N) : cv_outcome :=\n'
           '  (fix loop (l : list N) %s {struct l} : cv_outcome :=\n'
           '     match l with\n'
           '     | [] => %s\n'
           '     | v :: r =>\n'
           '         match call v with\n'
           '         | CAnswer a => %s\n'
           '         | CMismatch => %s\n'
           '         end\n'
           '     end) views %s.\n' % (binders, after_code(after, {}), answered, mismatch, inits_txt))
    return coq


CV_FALLBACK = (
    'Definition cv_ret (o : option N) : cv_outcome := match o with Some a => CVResponse a | None => CVNone end.\n'
    'Definition gen_call_view (call : N -> cand_result) (views : list N) : cv_outcome :=\n'
    '  (fix loop (l : list N) (f0 : bool) (r0 : option N) {struct l} : cv_outcome :=\n'
    '     match l with\n'
    '     | [] => (if f0 then CVRaiseMismatch else (cv_ret r0))\n'
    '     | v :: r =>\n'
    '         match call v with\n'
    '         | CAnswer a => (cv_ret (Some a))\n'
    '         | CMismatch => loop r true r0\n'
    '         end\n'
    '     end) views false None.\n')


# ---------------------------------------------------------------- the meaning of a cache key never changes
ORDER_ATTRS = ('__bases__', '__sro__', '__iro__')
ORDER_CALLS = ('classImplements', 'classImplementsOnly', 'classImplementsFirst')


def spec_orders_immutable(src_root):
    """The cache key holds interface / specification OBJECTS; what a key means is their resolution order (__sro__).
    The model takes the resolution orders as a fixed oracle, so nothing in src/pyramid may rewrite them: no store to
    (or setattr of) __bases__ / __sro__ / __iro__, no classImplements* call (they rewrite a class's specification in
    place).  Tests, scaffolds and p* scripts excluded."""
    import os
    bad = []
    for d, _, fs in os.walk(os.path.join(src_root, 'pyramid')):
        if os.sep + 'tests' in d or d.endswith('scripts') or 'scaffolds' in d:
            continue
        for fname in fs:
            if not fname.endswith('.py'):
                continue
            path = os.path.join(d, fname)
            rel = os.path.relpath(path, src_root)
            text = open(path).read()
            if not any(a in text for a in ORDER_ATTRS + ORDER_CALLS):
                continue
            for q, n in _qual_walk(ast.parse(text)):
                if isinstance(n, ast.Attribute) and n.attr in ORDER_ATTRS and not isinstance(n.ctx, ast.Load):
                    bad.append('%s:%s stores %s (line %d)' % (rel, q or '<module>', n.attr, n.lineno))
                elif isinstance(n, ast.Call) and u(n.func) in ('setattr', 'delattr') and len(n.args) > 1 and \
                        isinstance(n.args[1], ast.Constant) and n.args[1].value in ORDER_ATTRS:
                    bad.append('%s:%s setattr %s (line %d)' % (rel, q or '<module>', n.args[1].value, n.lineno))
                elif isinstance(n, ast.Call) and u(n.func).split('.')[-1] in ORDER_CALLS:
                    bad.append('%s:%s calls %s (line %d)' % (rel, q or '<module>', u(n.func), n.lineno))
                elif isinstance(n, (ast.Import, ast.ImportFrom)) and any(a.name in ORDER_CALLS for a in n.names):
                    bad.append('%s imports %s (line %d)' % (rel, [a.name for a in n.names if a.name in ORDER_CALLS], n.lineno))
    if bad:
        raise Unknown('; '.join(bad[:4]))
    return True


# ---------------------------------------------------------------- invoke_exception_view -> the key of an exception-view lookup
TRANSLATED.append('pyramid/view.py:ViewMethodsMixin.invoke_exception_view')


def excview_key(fn):
    """ViewMethodsMixin.invoke_exception_view -> {'combined': bool}: which key the exception-view lookup is made with.
    Fail closed: exactly one _call_view call with (registry, request, exc, context_iface, '') and view_types=None,
    view_classifier=IExceptionViewClassifier, secure=secure, request_iface=<X> or <X>.combined, where X is bound exactly
    once from the request's own attribute (attrs.get('request_iface', IRequest) with attrs = request.__dict__, or
    getattr(request, 'request_iface', IRequest)), context_iface = providedBy(exc) and exc = exc_info[1] are bound
    exactly once, `request` is only rebound by the `if request is None: request = self` default, and hide_attrs does
    not hide request_iface."""
    if u(fn.args) != 'self, exc_info=None, request=None, secure=True, reraise=False' or fn.decorator_list:
        raise Unknown('signature of invoke_exception_view: (%s)' % u(fn.args))
    calls = [c for c in ast.walk(fn) if isinstance(c, ast.Call) and u(c.func) == '_call_view']
    if len(calls) != 1:
        raise Unknown('invoke_exception_view calls _call_view %d times' % len(calls))
    c = calls[0]
    if [u(a) for a in c.args] != ['registry', 'request', 'exc', 'context_iface', "''"]:
        raise Unknown('positional arguments of the exception-view lookup: %s' % [u(a) for a in c.args])
    kw = {k.arg: k.value for k in c.keywords}
    if set(kw) != {'view_types', 'view_classifier', 'secure', 'request_iface'} or u(kw['view_types']) != 'None' \
            or u(kw['view_classifier']) != 'IExceptionViewClassifier' or u(kw['secure']) != 'secure':
        raise Unknown('keyword arguments of the exception-view lookup: %s' % {k: u(v) for k, v in kw.items()})
    ri = kw['request_iface']
    combined = False
    if isinstance(ri, ast.Attribute) and ri.attr == 'combined' and isinstance(ri.value, ast.Name):
        combined, var = True, ri.value.id
    elif isinstance(ri, ast.Name):
        var = ri.id
    else:
        raise Unknown('request_iface of the exception-view lookup: %s' % u(ri))

    def bindings(name):
        out = []
        for n in ast.walk(fn):
            if isinstance(n, ast.Assign):
                for t in n.targets:
                    for x in ast.walk(t):
                        if isinstance(x, ast.Name) and x.id == name and isinstance(x.ctx, ast.Store):
                            out.append(u(n.value) if isinstance(t, ast.Name) else '<destructured>')
            elif isinstance(n, (ast.AugAssign, ast.AnnAssign, ast.NamedExpr)) and any(
                    isinstance(x, ast.Name) and x.id == name and isinstance(x.ctx, ast.Store) for x in ast.walk(n)):
                out.append('<other>')
            elif isinstance(n, (ast.For, ast.With, ast.ExceptHandler)):
                tg = [n.target] if isinstance(n, ast.For) else \
                    [i.optional_vars for i in n.items if i.optional_vars is not None] if isinstance(n, ast.With) else []
                for t in tg:
                    if any(isinstance(x, ast.Name) and x.id == name and isinstance(x.ctx, ast.Store) for x in ast.walk(t)):
                        out.append('<loop/with>')
                if isinstance(n, ast.ExceptHandler) and n.name == name:
                    out.append('<except>')
        return out
    src_ok = ("attrs.get('request_iface', IRequest)", "getattr(request, 'request_iface', IRequest)")
    b = bindings(var)
    if len(b) != 1 or b[0] not in src_ok:
        raise Unknown('the request type of the exception-view lookup is bound as %s' % b)
    if b[0].startswith('attrs') and bindings('attrs') != ['request.__dict__']:
        raise Unknown('attrs is bound as %s' % bindings('attrs'))
    if bindings('context_iface') != ['providedBy(exc)']:
        raise Unknown('context_iface is bound as %s' % bindings('context_iface'))
    if bindings('exc') != ['exc_info[1]']:
        raise Unknown('exc is bound as %s' % bindings('exc'))
    if bindings('request') != ['self']:
        raise Unknown('request is bound as %s' % bindings('request'))
    if not any(isinstance(n, ast.If) and u(n.test) == 'request is None' and [u(x) for x in n.body] == ['request = self']
               and not n.orelse for n in ast.walk(fn)):
        raise Unknown('the default `if request is None: request = self` is missing')
    for n in ast.walk(fn):
        if isinstance(n, ast.Call) and u(n.func).split('.')[-1] == 'hide_attrs':
            if any(isinstance(a, ast.Constant) and a.value == 'request_iface' for a in n.args) or \
                    any(isinstance(a, ast.Starred) for a in n.args):
                raise Unknown('hide_attrs hides request_iface')
        if isinstance(n, ast.Constant) and n.value == 'request_iface':
            pass
        if isinstance(n, (ast.Subscript, ast.Attribute)) and not isinstance(n.ctx, ast.Load) and \
                ((isinstance(n, ast.Attribute) and n.attr == 'request_iface') or
                 (isinstance(n, ast.Subscript) and isinstance(n.slice, ast.Constant) and n.slice.value == 'request_iface')):
            raise Unknown('invoke_exception_view stores request_iface (line %d)' % n.lineno)
    return {'combined': combined}


# ---------------------------------------------------------------- add_route.register_route_request_iface
TRANSLATED.append('pyramid/config/routes.py:RoutesConfiguratorMixin.add_route.register_route_request_iface')


def route_iface_once(fn):
    """the action that gives a route its request interface: the interface registered under the route's name is looked
    up; ONLY when there is none a new one is made (route_request_iface(name, bases)) and registered.  An existing
    interface is left alone (no else/elif branch, nothing after the if).  Locals and the way `bases` is computed are
    free.  -> True, or Unknown"""
    if u(fn.args) != '' or fn.decorator_list:
        raise Unknown('signature of register_route_request_iface: (%s)' % u(fn.args))
    body = _strip_doc(fn.body)
    if len(body) != 2:
        raise Unknown('register_route_request_iface has %d statements' % len(body))
    a, i = body
    if not (isinstance(a, ast.Assign) and len(a.targets) == 1 and isinstance(a.targets[0], ast.Name)
            and u(a.value) == 'self.registry.queryUtility(IRouteRequest, name=name)'):
        raise Unknown('register_route_request_iface: %s' % u(a)[:80])
    var = a.targets[0].id
    if not (isinstance(i, ast.If) and u(i.test) == '%s is None' % var and not i.orelse):
        raise Unknown('register_route_request_iface: the interface is not created only when there is none: %s'
                      % u(i).split('\n')[0][:80])
    made = registered = 0
    for n in ast.walk(i):
        if isinstance(n, ast.Call):
            f = u(n.func)
            if f == 'route_request_iface':
                made += 1
                if not n.args or u(n.args[0]) != 'name':
                    raise Unknown('route_request_iface called with %s' % [u(x) for x in n.args])
            elif f == 'self.registry.registerUtility':
                registered += 1
                if [u(x) for x in n.args] != [var, 'IRouteRequest'] or {k.arg: u(k.value) for k in n.keywords} != {'name': 'name'}:
                    raise Unknown('registerUtility called with %s' % u(n))
            else:
                raise Unknown('register_route_request_iface calls %s' % f)
        if isinstance(n, (ast.Attribute, ast.Subscript)) and not isinstance(n.ctx, ast.Load):
            raise Unknown('register_route_request_iface stores through %s' % u(n))
        if isinstance(n, (ast.Return, ast.Raise, ast.Global, ast.Nonlocal, ast.Delete)):
            raise Unknown('register_route_request_iface: %s' % type(n).__name__)
    if made != 1 or registered != 1:
        raise Unknown('register_route_request_iface makes %d / registers %d interfaces' % (made, registered))
    return True


# ---------------------------------------------------------------- Registry._clear_view_lookup_cache, add_exception_view
# clear_mode() reads the whole body of Registry._clear_view_lookup_cache (one statement of a known form, signature
# (self), undecorated): the function is translated into the parameter clear_mode_registry, no pin needed
TRANSLATED.append('pyramid/registry.py:Registry._clear_view_lookup_cache')
TRANSLATED.append('pyramid/config/views.py:ViewsConfiguratorMixin.add_exception_view')
EXCVIEW_FORCED = {'view': 'view', 'context': 'context', 'exception_only': 'True'}


def exception_view_forwards(fn):
    """ViewsConfiguratorMixin.add_exception_view: what the harness bookkeeping relies on -- the statement is forwarded to
    add_view with exception_only=True and the given view/context (context defaults to Exception only when None), and
    does nothing else to the configuration state.  Accepted statements: the loop that rejects arguments (only raises),
    `if context is None: context = Exception`, ONE `view_options.update(...)` (dict(...) call, dict display or keywords)
    whose entries include view=view, context=context, exception_only=True, and the final
    `return self.add_view(**view_options)`.  Anything else fails closed."""
    if u(fn.args) != 'self, view=None, context=None, **view_options':
        raise Unknown('signature of add_exception_view: (%s)' % u(fn.args))
    if [u(d) for d in fn.decorator_list] not in ([], ['action_method'], ['viewdefaults', 'action_method']):
        raise Unknown('decorators of add_exception_view: %s' % [u(d) for d in fn.decorator_list])
    body = _strip_doc(fn.body)
    updates = 0
    forwarded = False
    for idx, st in enumerate(body):
        t = u(st)
        if isinstance(st, ast.For):
            for n in ast.walk(st):
                if isinstance(n, (ast.Assign, ast.AugAssign, ast.Return, ast.Delete, ast.Break)) or \
                        (isinstance(n, ast.Call) and u(n.func) != 'ConfigurationError'):
                    raise Unknown('add_exception_view: the argument check does more than raise: %s' % u(n)[:60])
        elif t == 'if context is None:\n    context = Exception':
            pass
        elif isinstance(st, ast.Expr) and isinstance(st.value, ast.Call) and u(st.value.func) == 'view_options.update':
            c = st.value
            entries = {}
            if len(c.args) == 1 and isinstance(c.args[0], ast.Call) and u(c.args[0].func) == 'dict' and not c.args[0].args:
                entries = {k.arg: u(k.value) for k in c.args[0].keywords}
            elif len(c.args) == 1 and isinstance(c.args[0], ast.Dict) and all(isinstance(k, ast.Constant) for k in c.args[0].keys):
                entries = {k.value: u(v) for k, v in zip(c.args[0].keys, c.args[0].values)}
            elif not c.args:
                entries = {}
            else:
                raise Unknown('add_exception_view: view_options.update(%s)' % u(c.args[0])[:60])
            entries.update({k.arg: u(k.value) for k in c.keywords})
            if None in entries:
                raise Unknown('add_exception_view: ** in view_options.update')
            for k, v in EXCVIEW_FORCED.items():
                if entries.get(k) != v:
                    raise Unknown('add_exception_view forces %s=%s' % (k, entries.get(k)))
            updates += 1
        elif t == 'return self.add_view(**view_options)' and idx == len(body) - 1:
            forwarded = True
        else:
            raise Unknown('add_exception_view: statement not recognised: %s' % t.split('\n')[0][:90])
    if updates != 1 or not forwarded:
        raise Unknown('add_exception_view: %d updates of view_options, forwarded=%s' % (updates, forwarded))
    return True
