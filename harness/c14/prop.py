"""C14 -- an exception in request handling is rendered by the most specific exception view."""
import json
import os
import warnings
from harness.common import facts as F
from harness.c14 import c14facts
from harness.c14 import translate as T
from harness.c14 import app as A

ID = 'C14'
HERE = os.path.dirname(os.path.abspath(__file__))
CASES = {'quick': 1500, 'thorough': 60000}
PARALLEL = False            # the implementation is run once per case in generate()'s own fork pool (see _precompute)
PROOF_TIMEOUT = 1500
ALLOWED_AXIOMS = ()
DEPENDS = ['C03']        # coq/Model/C14.v imports Model/C03.v and Gen/Facts_C03.v: regenerate them from the tree under check
RULE = ('one case = one Configurator (exception classes with single/multiple inheritance, HTTP exceptions, PredicateMismatch, '
        'marker interfaces put on instances; 1-3 ordinary views + 0-6 add_view/add_exception_view/add_notfound_view/'
        'add_forbidden_view declarations with contexts (explicit or from the view class\'s __view_defaults__), route binding, '
        'predicates (incl. containment= / physical_path=, which look at request.context / the context argument), '
        'exception_only; optionally more '
        'declarations committed after the first batch of requests) x 6-12 requests through Router.__call__, each with a '
        'raising site (view body, secured view, root factory, tween, unmatched URL), a tween under the excview tween '
        '(pass / raise / catch + invoke_exception_view(reraise=, secure=), on the request itself or on ANOTHER request '
        'object with request= / dispatch the same request twice / request.invoke_subrequest(fresh request[, use_tweens=]) '
        'instead of the handler) and optionally pre-set request.exception; declarations also through the venusian '
        'decorators + config.scan(); optionally a default permission in force and add_notfound_view(append_slash=True) '
        '(route-less cases); optionally default CSRF options require_csrf=True in '
        'force; exceptions raised plainly / from a cause / while another is handled (chain compared at the caller); '
        'falsy response objects; '
        'non-trivial = the case declares >= 2 exception views, an exception view body ran on some request, and on another '
        'request the exception propagated to the caller; distinct by full case')
ASSUMPTIONS = [
    'zope.interface resolution orders (providedBy(exception object).__sro__, request_iface.__sro__, '
    'request_iface.combined.__sro__) and isinstance() tables are oracle inputs',
    'everything assumed by the C03 model of register_view / MultiView / _find_views / _call_view (no accept= here)',
    'a subrequest is dispatched from the tween under the excview tween (not from inside a view body); with '
    'append_slash=True no route exists (the redirect of AppendSlashNotFoundViewFactory is not modelled); under a default '
    'permission add_view declarations without a permission say NO_PERMISSION_REQUIRED (the default permission on the '
    'ordinary side of a declaration is not modelled)',
    'request.exc_info is represented by the exception object it carries (exc_info[1]); the traceback is not modelled',
    'thread-local push/pop inside invoke_exception_view is C13\'s; the view lookup cache is C15\'s (the model has none, '
    'so any stale answer is a disagreement)',
    'an exception view that itself raises HTTPNotFound is indistinguishable (for _error_handler) from "no view applies": '
    'the judge is silent there',
]
TRUSTED = [
    'the PRIMITIVE TABLE of harness/c14/translate.py (docstring; ~35 lines: what request.__dict__, dict operations, '
    'sys.exc_info(), providedBy(exc), _call_view(..), manager.push/pop, tp(), truthiness, isinstance ... denote in the '
    'model) and its fail-closed statement subset; the control flow of hide_attrs, reraise, invoke_exception_view, '
    '_error_handler, excview_tween, default_exceptionresponse_view, isexception is regenerated from the source on every '
    'run (gen_* in Gen/Facts_C14.v) and proved equal to the reference model',
    'hand-written reference model coq/Model/C14_base.v (the theorems are about it and, through the gen_*_is_model '
    'theorems, about the regenerated functions); the parts that are NOT regenerated stay shape-pinned: Router.handle_request / '
    'invoke_request / finish_request (route matching, traversal and notifications are oracle inputs: too irregular for '
    'the translator), add_view.register and the three directives (value facts + statement pins), MultiView / '
    'predicated_view / register_view (C03), _secured_view, Router.invoke_subrequest (masked pin + the regenerated default '
    'of use_tweens), the venusian decorators; _find_views and _clear_view_lookup_cache are tied through '
    "C15's translator (imported read-only); the C03 model (imported unchanged)",
    'the instrumented tweens / views of harness/c14/app.py (public seams only)',
]
TECHNIQUE = ('Coq proof on a Gallina model whose control flow is REGENERATED from the Python source on every run '
             '(fail-closed ast -> Gallina translator: continuation-passing symbolic execution for if/elif/and/or, '
             'try/except/finally, with, for, return/raise, Optional narrowing; leaves through an explicit primitive table) '
             'and proved equal to a hand-written reference model (generated_f = model_f, proof scripts independent of the '
             'generated text) + C03 lookup theorems at the exception classifier + extracted-model differential '
             'correspondence of full event traces through Router.__call__ (the runner executes the regenerated pipeline) '
             '+ an executable judge of the property (Coq, extracted; rendering judge + raising-site judge) applied to the '
             'implementation\'s trace')
LEVEL_TEXT = ('Machine-checked theorems, stated about the functions regenerated from the current source: the exception view '
              'that renders an exception is a qualifying registration than which none is more specific in the resolution '
              'order of the raised OBJECT (route-bound before global via the combined request interface; overriding '
              'declarations and, separately, accept= covered), it sees the exception as context, request.exception and '
              'exc_info, which stay set afterwards; when no view applies the same object propagates and '
              'response/exc_info/exception are restored (gen_hide_attrs restores every named attribute for every '
              'attribute map, duplicate-free name list and body; refuted for repeated names); a secured exception view '
              'that is refused does not run and its HTTPForbidden propagates; HTTP exceptions without a custom view are '
              'returned as the response; exception_only splits the registrations between the two classifiers; the '
              'executable judge accepts every trace of the regenerated pipeline; what an ordinary view body raised is what '
              'reaches exception handling (raising-site judge, proved at full strength incl. bodies raising '
              'PredicateMismatch); a subrequest without use_tweens=True hands its exception to the caller unrendered '
              '(default of use_tweens regenerated = False; refuted for a default of True); end to end: the trace computed '
              'from the regenerated functions and constants is accepted by the whole judge (rendering + raising site), '
              'ordinary and subrequest scenarios.')
LEVEL_NOTE = ('Trusted: Coq kernel; the translator\'s primitive table and statement subset (fail-closed); the reference '
              'model for the parts that are not regenerated (shape-pinned); the C03 model; Python harness; zope.interface as '
              'oracle. The specificity theorems inherit C03\'s hypotheses (equal (slot, phash) => equal order and predicate '
              'texts -- checked by an executable premise on every generated world; duplicate-free resolution orders; no '
              'accept= for the judge theorem); the rendering-judge theorems assume no view body raises PredicateMismatch '
              '(the raising-site theorems do not) -- localised: only the views the lookups of the request select must '
              'not raise it (C14_judge_accepts_model_local_partial); with NO premise on the bodies: the first body of a '
              'lookup is the selected view\'s, and "no view => same object propagates, attributes restored" '
              '(C14_comps_loop_first, C14_gen_no_view_propagates_same_object_full), and the rendering begins with the '
              'selected view seeing the exception as context / exception / exc_info (C14_gen_iev_first_event).')

ISA_NAMES = ['BaseException', 'Exception', 'HTTPNotFound', 'PredicateMismatch', 'HTTPForbidden']   # + pseudo 'truthy'
EXC_CLASSES = ['E0', 'E1', 'E2', 'F0', 'D', 'K', 'NF', 'FB', 'BR', 'PM', 'MyNF', 'HE', 'WX', 'BE', 'G1', 'G2', 'DD', 'FZ', 'EL', 'NA']
EXC_CTX_NAMES = ['Exception', 'E0', 'E1', 'E2', 'F0', 'D', 'K', 'NF', 'FB', 'BR', 'PM', 'MyNF', 'HE', 'IER', 'WEB',
                 'IM1', 'IM2', 'G1', 'G2', 'DD', 'FZ', 'EL', 'NA']          # contexts that are exception types
CTX_NAMES = EXC_CTX_NAMES + ['IPlain', 'BE', 'Root']
# contexts that can apply to an instance of the class (generation-time hint only; the oracle is zope's)
ANCESTORS = {
    'E0': ['E0', 'Exception'], 'E1': ['E1', 'E0', 'Exception'], 'E2': ['E2', 'E1', 'E0', 'Exception'],
    'F0': ['F0', 'Exception'], 'D': ['D', 'E1', 'E0', 'F0', 'Exception'], 'K': ['K', 'Exception'],
    'NF': ['NF', 'IER', 'Exception'], 'FB': ['FB', 'IER', 'Exception'], 'BR': ['BR', 'IER', 'Exception'],
    'PM': ['PM', 'NF', 'IER', 'Exception'], 'MyNF': ['MyNF', 'NF', 'IER', 'Exception'],
    'HE': ['HE', 'E0', 'BR', 'IER', 'Exception'], 'WX': ['WEB', 'Exception'], 'BE': ['BE'],
    'FZ': ['FZ', 'Exception'], 'EL': ['EL', 'E0', 'Exception'], 'NA': ['NA', 'Exception'],
    'G1': ['G1', 'E0', 'Exception'], 'G2': ['G2', 'E0', 'Exception'], 'DD': ['DD', 'G1', 'G2', 'E0', 'Exception'],
}
MARKS = ['IM1', 'IM2']
CONT = ['Root', 'IPlain']         # containment= values; ids = positions
ROUTES = ['r1', 'r2']
VNAMES = ['', 'v', 'zz']
PARAM_KEYS = ['k', 'j']
DIRS = ['view', 'exc', 'nf', 'fb']
FRESH = {1000: 'HTTPNotFound', 1001: 'PredicateMismatch', 1002: 'HTTPForbidden', 1032: 'ValueError',
         1010: 'HTTPNotFound', 1011: 'PredicateMismatch', 1012: 'ValueError', 1013: 'HTTPForbidden',
         1020: 'HTTPNotFound', 1021: 'PredicateMismatch', 1022: 'ValueError', 1023: 'HTTPForbidden'}


# ------------------------------------------------------------------ facts
def facts(src):
    problems = []
    summary = F.check_shapes(src, os.path.join(HERE, 'pins.json'), problems)
    v = c14facts.extract(src, problems)
    for k in ('iev_reraise_catches', 'handler_catches', 'tween_catches'):
        if v[k] not in ISA_NAMES:
            problems.append('%s = %s: a class outside the isinstance table of the harness' % (k, v[k]))
    summary.update({k: v[k] for k in sorted(v)})
    gen = T.generate(src, problems)
    coq = c14facts.emit(v) + ('\n(* ---- REGENERATED by harness/c14/translate.py from the source on this run ---- *)\n'
                             'Require Import Verif.Gen.Facts_C03 Verif.Model.C03 Verif.Model.C14_base.\n\n') + gen
    summary['translated'] = list(T.ORDER)
    return {'coq': coq, 'summary': summary, 'problems': problems}


# ------------------------------------------------------------------ generation
def gen_preds(rng, k=None):
    if k is None:
        k = rng.choice([0, 0, 0, 1, 1, 2, 3])
    names = rng.sample(['xhr', 'request_method', 'request_param', 'custom', 'match_param', 'header', 'containment',
                        'physical_path'], min(k, 8))
    p = {}
    for n in names:
        if n == 'xhr':
            p[n] = rng.random() < 0.6
        elif n == 'request_method':
            p[n] = rng.choice(['GET', 'POST', ['GET', 'POST']])
        elif n == 'request_param':
            p[n] = rng.choice(['k', 'k=v', 'j', 'j=w'])
        elif n == 'match_param':
            p[n] = rng.choice(['lang=en', 'lang=en', 'lang=fr'])
        elif n == 'header':
            p[n] = rng.choice(['X-Foo', 'X-Foo:ba.'])
        elif n == 'containment':
            p[n] = rng.choice(['Root', 'Root', 'IPlain'])       # the traversed resource is / is not inside
        elif n == 'physical_path':
            p[n] = '/'
        else:
            p[n] = [[rng.randrange(4), rng.random() < 0.2] for _ in range(rng.choice([1, 1, 2]))]
    return p


def gen_body(rng, excs, exc_view):
    # a body that raises PredicateMismatch is, for _call_view, a predicate mismatch: the search goes on (modelled)
    ok = list(range(len(excs)))
    r = rng.random()
    if exc_view:
        act = ['ret'] if (r < 0.6 or not ok) else ['ctx'] if r < 0.8 else ['raise', rng.choice(ok)]
    else:
        act = ['ret'] if (r < 0.3 or not ok) else ['raise', rng.choice(ok)]
    b = {'touch': rng.random() < 0.3, 'act': act}
    if act == ['ret'] and rng.random() < 0.15:
        b['falsy'] = True         # a response object whose truth value is False (empty body + __len__, or __bool__)
    return b


def _norm_under(u):
    """older recorded cases carry ['catch', rr, sec, then] (no via flag)"""
    if u and u[0] == 'catch' and len(u) == 4:
        return [u[0], u[1], u[2], False, u[3]]
    return u


def _exc_decl(v):
    """the declaration can register an exception view"""
    return v['dir'] != 'view' or v['ctx'] in EXC_CTX_NAMES or (v['ctx'] is None and v.get('defctx') in EXC_CTX_NAMES)


def gen_case(rng):
    routes = [{'name': n, 'ugv': rng.random() < 0.5} for n in ROUTES[:rng.choice([0, 1, 1, 2])]]
    rnames = [r['name'] for r in routes]
    fam = rng.choice([['E2', 'E1', 'D', 'E0', 'F0'], ['NF', 'MyNF', 'PM', 'FB', 'BR'], ['HE', 'E0', 'BR', 'WX', 'K'],
                      ['DD', 'G1', 'G2', 'E0', 'D'], ['FZ', 'EL', 'NA', 'E0', 'NF'],
                      EXC_CLASSES])
    excs = []
    for _ in range(rng.choice([3, 4, 5])):
        cls = rng.choice(fam) if rng.random() < 0.8 else rng.choice(EXC_CLASSES)
        marks = sorted(rng.sample(MARKS, rng.choice([1, 1, 2]))) if rng.random() < 0.3 else []
        excs.append({'cls': cls, 'marks': marks})
        r = rng.random()
        if r < 0.3:       # raised `from` a cause / while another exception is handled: the chain must survive propagation
            excs[-1]['chain'] = 'cause' if r < 0.15 else 'context'
    nexc = len(excs)
    views = []
    tag = 0
    # ordinary views: the raising sites inside view bodies
    for name in rng.sample(['', 'v'], rng.choice([1, 2, 2])):
        for _ in range(rng.choice([1, 1, 2])):
            views.append({'dir': 'view', 'ctx': rng.choice([None, None, 'Root', 'IPlain']), 'xonly': False, 'name': name,
                          'route': rng.choice([None] + rnames) if rng.random() < 0.4 else None,
                          'preds': gen_preds(rng, rng.choice([0, 0, 1])), 'perm': rng.random() < 0.25, 'phase': 0,
                          'tag': tag, 'body': gen_body(rng, excs, False)})
            if rng.random() < 0.06:       # default_exceptionresponse_view as an ordinary view
                views[-1]['body'] = {'touch': rng.random() < 0.3, 'act': ['ctx']}
            tag += 1
    # exception views
    pool = []
    for x in excs:
        pool += ANCESTORS[x['cls']] + x['marks']
    nx = rng.choice([0, 1, 2, 3, 3, 4, 5, 6])
    for _ in range(nx):
        d = rng.choice(['view', 'exc', 'exc', 'exc', 'nf', 'fb'])
        r = rng.random()
        ctx = rng.choice(pool) if r < 0.75 else rng.choice(CTX_NAMES) if r < 0.93 else None
        if ctx == 'Exception' and rng.random() < 0.5:
            ctx = rng.choice(pool)
        v = {'dir': d, 'ctx': None if d in ('nf', 'fb') else ctx, 'xonly': d == 'view' and rng.random() < 0.4,
             'name': 'v' if (d == 'view' and rng.random() < 0.06) else '',
             'route': rng.choice(rnames) if (rnames and rng.random() < 0.35) else None,
             'preds': gen_preds(rng), 'perm': d == 'view' and rng.random() < 0.3, 'phase': 0, 'tag': tag,
             'body': gen_body(rng, excs, True)}
        if d in ('view', 'exc') and rng.random() < 0.2 or d in ('nf', 'fb') and rng.random() < 0.05:
            # a class-based view whose class carries @view_defaults(context=...); mostly registered without context=
            v['defctx'] = rng.choice(pool)
            if d in ('view', 'exc') and rng.random() < 0.7:
                v['ctx'] = None
        if not _exc_decl(v):
            v['body'] = gen_body(rng, excs, False)
        if v.get('defctx') is None and rng.random() < 0.15:
            v['deco'] = True       # @exception_view_config / @notfound_view_config / ... + config.scan()
        tag += 1
        views.append(v)
    # declarations committed after the first requests: twins of earlier exception views with other predicates
    xviews = [v for v in views if _exc_decl(v)]
    if rng.random() < 0.45:
        for _ in range(rng.choice([1, 1, 2])):
            if xviews and rng.random() < 0.8:
                o = rng.choice(xviews)
                v = dict(o, preds=gen_preds(rng, rng.choice([1, 1, 2])), phase=1, tag=tag, body=gen_body(rng, excs, True))
            else:
                v = {'dir': 'exc', 'ctx': rng.choice(pool), 'xonly': False, 'name': '', 'route': None,
                     'preds': gen_preds(rng), 'perm': False, 'phase': 1, 'tag': tag, 'body': gen_body(rng, excs, True)}
            tag += 1
            views.append(v)
    two_phase = any(v['phase'] == 1 for v in views)
    reqs = []
    for _ in range(rng.choice([6, 8, 10])):
        r = rng.random()
        under = ['pass'] if r < 0.5 else ['raise', rng.randrange(nexc)] if r < 0.62 else \
            ['retry', rng.choice(['', 'v', 'zz'])] if r < 0.70 else \
            ['sub', rng.choice([None, None, None, False, True])] if r < 0.78 else \
            ['catch', rng.random() < 0.4, rng.random() < 0.7, rng.random() < 0.4,
             rng.randrange(nexc) if rng.random() < 0.6 else None]
        reqs.append({'phase': 0, 'route': rng.choice(rnames) if (rnames and rng.random() < 0.4) else None,
                     'vname': rng.choice(['', '', 'v', 'v', 'zz']), 'method': rng.choice(['GET', 'GET', 'POST']),
                     'xhr': rng.random() < 0.5, 'lang': rng.choice(['en', 'en', 'fr']),
                     'xfoo': rng.choice([None, None, 'bar', 'baz', 'qux']),
                     'qs': [[rng.choice(PARAM_KEYS), rng.choice(['v', 'w'])] for _ in range(rng.choice([0, 1, 1, 2]))],
                     'truth': sorted(rng.sample(range(4), rng.choice([0, 2, 3, 4]))), 'deny': rng.random() < 0.3,
                     'root_raise': rng.randrange(nexc) if rng.random() < 0.12 else None,
                     'under': under, 'preset': rng.randrange(nexc) if rng.random() < 0.25 else None})
    if two_phase:
        later = [dict(r, phase=1) for r in reqs if rng.random() < 0.6] or [dict(reqs[0], phase=1)]
        for r in later:
            if rng.random() < 0.3:
                r['xhr'] = not r['xhr']
        reqs += later
    case = {'routes': routes, 'excs': excs, 'views': views, 'requests': reqs, 'autocommit': rng.random() < 0.6}
    # a default permission in force before the declarations are made (exception-only views are exempt from it; the
    # other declarations then say permission=NO_PERMISSION_REQUIRED when they carry none of their own)
    if rng.random() < 0.25:
        case['defperm'] = True
    # default CSRF options require a token for unsafe methods (exception views are exempt unless they say otherwise;
    # add_view declarations that can match the resource say require_csrf=False)
    if rng.random() < 0.25:
        case['csrf'] = True
    # add_notfound_view(append_slash=True): only where no route exists (no redirect can happen: the factory is
    # transparent and hands the request on to the wrapped view)
    if not routes:
        for v in views:
            if v['dir'] == 'nf' and v.get('defctx') is None and rng.random() < 0.6:
                v['slash'] = True
    return case


def generate(rng, tier, n):
    cases = [gen_case(rng) for _ in range(n)]
    _precompute(cases)
    return cases


def valid(case):
    try:
        if set(case) - {'defperm', 'csrf'} != {'routes', 'excs', 'views', 'requests', 'autocommit'} or not case['requests'] \
                or not case['excs'] or case.get('defperm', True) is not True or case.get('csrf', True) is not True:
            return False
        rn = [r['name'] for r in case['routes']]
        if len(set(rn)) != len(rn) or any(n not in ROUTES for n in rn):
            return False
        nexc = len(case['excs'])
        for x in case['excs']:
            if x['cls'] not in EXC_CLASSES or any(m not in MARKS for m in x['marks']) or x['marks'] != sorted(set(x['marks'])):
                return False
            if set(x) - {'cls', 'marks', 'chain'} or x.get('chain', 'cause') not in ('cause', 'context'):
                return False

        def okid(i):
            return isinstance(i, int) and not isinstance(i, bool) and 0 <= i < nexc
        tags = [v['tag'] for v in case['views']]
        if len(set(tags)) != len(tags) or any(not (isinstance(t, int) and 0 <= t < 800) for t in tags):
            return False
        if [v['phase'] for v in case['views']] != sorted(v['phase'] for v in case['views']):
            return False
        if [r['phase'] for r in case['requests']] != sorted(r['phase'] for r in case['requests']):
            return False
        for v in case['views']:
            if v['dir'] not in DIRS or v['phase'] not in (0, 1) or v['name'] not in ('', 'v'):
                return False
            if not (v['ctx'] is None or v['ctx'] in CTX_NAMES) or not (v['route'] is None or v['route'] in rn):
                return False
            if not (v.get('defctx') is None or v['defctx'] in CTX_NAMES):
                return False
            if v['dir'] != 'view' and (v['xonly'] or v['perm'] or v['name']):
                return False
            if v['dir'] in ('nf', 'fb') and v['ctx'] is not None:
                return False
            if 'deco' in v and (v['deco'] is not True or v.get('defctx') is not None):
                return False
            if 'slash' in v and (v['slash'] is not True or v['dir'] != 'nf' or case['routes'] or v.get('defctx') is not None):
                return False
            a = v['body']['act']
            if not (a in (['ret'], ['ctx']) or (len(a) == 2 and a[0] == 'raise' and okid(a[1]))):
                return False
            if not isinstance(v['body']['touch'], bool):
                return False
            if set(v['body']) - {'touch', 'act', 'falsy'} or ('falsy' in v['body'] and (v['body']['falsy'] is not True or a != ['ret'])):
                return False
            for n, val in v['preds'].items():
                if n == 'xhr':
                    if not isinstance(val, bool):
                        return False
                elif n == 'request_method':
                    if val not in ('GET', 'POST', ['GET', 'POST']):
                        return False
                elif n == 'request_param':
                    if val not in ('k', 'k=v', 'j', 'j=w'):
                        return False
                elif n == 'match_param':
                    if val not in ('lang=en', 'lang=fr'):
                        return False
                elif n == 'header':
                    if val not in ('X-Foo', 'X-Foo:ba.'):
                        return False
                elif n == 'containment':
                    if val not in CONT:
                        return False
                elif n == 'physical_path':
                    if val != '/':
                        return False
                elif n == 'custom':
                    if not (isinstance(val, list) and val and all(
                            isinstance(c, list) and len(c) == 2 and c[0] in range(4) and isinstance(c[1], bool) for c in val)):
                        return False
                else:
                    return False
        for r in case['requests']:
            if r['phase'] not in (0, 1) or not (r['route'] is None or r['route'] in rn) or r['vname'] not in VNAMES:
                return False
            if r['method'] not in ('GET', 'POST') or not isinstance(r['xhr'], bool) or not isinstance(r['deny'], bool):
                return False
            if r.get('lang', 'en') not in ('en', 'fr') or r.get('xfoo') not in (None, 'bar', 'baz', 'qux'):
                return False
            if any(not (isinstance(kv, list) and len(kv) == 2 and kv[0] in PARAM_KEYS and kv[1] in ('v', 'w')) for kv in r['qs']):
                return False
            if not all(t in range(4) for t in r['truth']) or r['truth'] != sorted(set(r['truth'])):
                return False
            if not (r['root_raise'] is None or okid(r['root_raise'])) or not (r['preset'] is None or okid(r['preset'])):
                return False
            u = _norm_under(r['under'])
            if not (u == ['pass'] or (len(u) == 2 and u[0] == 'raise' and okid(u[1]))
                    or (len(u) == 2 and u[0] == 'retry' and u[1] in VNAMES)
                    or (len(u) == 2 and u[0] == 'sub' and u[1] in (None, False, True))
                    or (len(u) == 5 and u[0] == 'catch' and isinstance(u[1], bool) and isinstance(u[2], bool)
                        and isinstance(u[3], bool) and (u[4] is None or okid(u[4])))):
                return False
        return True
    except Exception:
        return False


def shrinks(case):
    l = case['requests']
    if len(l) > 1:
        for i in range(len(l)):
            yield dict(case, requests=l[:i] + l[i + 1:])
    l = case['views']
    for i in range(len(l)):
        yield dict(case, views=l[:i] + l[i + 1:])
    if not case['autocommit']:
        yield dict(case, autocommit=True)
    if case.get('defperm'):
        yield {k: x for k, x in case.items() if k != 'defperm'}
    if case.get('csrf'):
        yield {k: x for k, x in case.items() if k != 'csrf'}
    for i, v in enumerate(case['views']):
        def put(nv, i=i):
            vs = case['views'][:i] + [nv] + case['views'][i + 1:]
            return dict(case, views=sorted(vs, key=lambda w: w['phase']))
        for n in sorted(v['preds']):
            p = dict(v['preds'])
            del p[n]
            yield put(dict(v, preds=p))
        for k, simple in (('route', None), ('perm', False), ('phase', 0), ('xonly', False), ('defctx', None)):
            if v.get(k, simple) != simple:
                yield put(dict(v, **{k: simple}))
        if v['body']['touch']:
            yield put(dict(v, body=dict(v['body'], touch=False)))
        if v['body'].get('falsy'):
            yield put(dict(v, body={k: x for k, x in v['body'].items() if k != 'falsy'}))
        if v.get('slash'):
            yield put({k: x for k, x in v.items() if k != 'slash'})
        if v.get('deco'):
            yield put({k: x for k, x in v.items() if k != 'deco'})
    for i, r in enumerate(case['requests']):
        def putr(nr, i=i):
            rs = case['requests'][:i] + [nr] + case['requests'][i + 1:]
            return dict(case, requests=sorted(rs, key=lambda w: w['phase']))
        for k, simple in (('qs', []), ('xhr', False), ('lang', 'en'), ('xfoo', None), ('truth', []), ('deny', False), ('root_raise', None), ('preset', None),
                          ('route', None), ('method', 'GET'), ('under', ['pass']), ('phase', 0), ('vname', '')):
            if r.get(k, simple) != simple:
                yield putr(dict(r, **{k: simple}))
        if r['under'][0] == 'catch' and r['under'][4] is not None:
            yield putr(dict(r, under=r['under'][:4] + [None]))
        if r['under'][0] == 'catch' and not r['under'][2]:
            yield putr(dict(r, under=['catch', r['under'][1], True] + r['under'][3:]))
        if r['under'][0] == 'catch' and r['under'][3]:
            yield putr(dict(r, under=r['under'][:3] + [False, r['under'][4]]))
    for i, x in enumerate(case['excs']):
        if x['marks']:
            yield dict(case, excs=case['excs'][:i] + [dict(x, marks=[])] + case['excs'][i + 1:])
        if x.get('chain'):
            yield dict(case, excs=case['excs'][:i] + [{k: y for k, y in x.items() if k != 'chain'}] + case['excs'][i + 1:])
    used = {v['route'] for v in case['views']} | {r['route'] for r in case['requests']}
    for i, rt in enumerate(case['routes']):
        if rt['name'] not in used and not (len(case['routes']) == 1 and any(v.get('slash') for v in case['views'])):
            yield dict(case, routes=case['routes'][:i] + case['routes'][i + 1:])


# ------------------------------------------------------------------ the world of one case
_P = {}


def setup(tier):
    if _P:
        return
    warnings.simplefilter('ignore')
    from zope.interface import Interface, alsoProvides, implementedBy, providedBy
    from zope.interface.interfaces import IInterface
    import inspect
    from pyramid.config import Configurator, not_
    from pyramid.interfaces import IRequest, IRouteRequest, IException, IExceptionResponse, IResponse
    from pyramid.request import Request
    from pyramid.exceptions import PredicateMismatch, ConfigurationConflictError
    from pyramid.httpexceptions import HTTPNotFound, HTTPForbidden, HTTPBadRequest
    from pyramid.tweens import EXCVIEW
    import webob.exc

    class IM1(IException):
        pass

    class IM2(IM1):
        pass

    class IPlain(Interface):
        pass

    class E0(Exception):
        pass

    class E1(E0):
        pass

    class E2(E1):
        pass

    class F0(Exception):
        pass

    class D(E1, F0):
        pass

    class K(KeyError):
        pass

    class MyNF(HTTPNotFound):
        pass

    class HE(E0, HTTPBadRequest):
        pass

    class BE(BaseException):
        pass

    class FZ(Exception):           # falsy instances
        def __bool__(self):
            return False

    class EL(E0):                  # an empty container of errors: falsy through __len__
        def __len__(self):
            return 0

    class NA(Exception):           # falsy, and cannot be built without arguments
        def __init__(self, a, b):
            Exception.__init__(self, a, b)

        def __bool__(self):
            return False

    class G1(E0):
        pass

    class G2(E0):
        pass

    class DD(G1, G2):          # diamond: DD -> G1, G2 -> E0
        pass
    classes = {'G1': G1, 'G2': G2, 'DD': DD, 'FZ': FZ, 'EL': EL, 'NA': NA, 'E0': E0, 'E1': E1, 'E2': E2, 'F0': F0, 'D': D, 'K': K, 'NF': HTTPNotFound, 'FB': HTTPForbidden,
               'BR': HTTPBadRequest, 'PM': PredicateMismatch, 'MyNF': MyNF, 'HE': HE, 'WX': webob.exc.HTTPBadRequest,
               'BE': BE, 'Exception': Exception, 'IER': IExceptionResponse, 'WEB': webob.exc.WSGIHTTPException,
               'IM1': IM1, 'IM2': IM2, 'IPlain': IPlain, 'Root': A.Root}
    isa_classes = {'BaseException': BaseException, 'Exception': Exception, 'HTTPNotFound': HTTPNotFound,
                   'PredicateMismatch': PredicateMismatch, 'HTTPForbidden': HTTPForbidden}
    fresh_classes = {'HTTPNotFound': HTTPNotFound, 'PredicateMismatch': PredicateMismatch,
                     'HTTPForbidden': HTTPForbidden, 'ValueError': ValueError}
    _P.update(locals())


def _ctxbits(o):
    """the oracle bits isexception() asks about (zope + Python only; the regenerated gen_isexception combines them)"""
    P = _P
    if o is None:
        return [False] * 5
    iface = bool(P['IInterface'].providedBy(o))
    cls = bool(P['inspect'].isclass(o))
    return [iface, bool(P['IException'].isEqualOrExtendedBy(o)) if iface else False, isinstance(o, Exception), cls,
            bool(issubclass(o, Exception)) if cls else False]


class World:
    def __init__(self, case):
        if not _P:
            setup('quick')
        self.case = case
        self._build(not case['autocommit'])
        if self.conflict:
            self._build(False)

    # ---- configuration
    def _build(self, batched):
        P = _P
        case = self.case
        self.conflict = False
        self.batched = batched
        cfg = P['Configurator'](autocommit=not batched, root_factory=A.root_factory,
                                exceptionresponse_view=A.make_body(900, False, ['ctx']))
        cfg.set_security_policy(A.Policy())
        if case.get('defperm'):
            cfg.set_default_permission('dp')
        if case.get('csrf'):
            from pyramid.csrf import CookieCSRFStoragePolicy
            cfg.set_csrf_storage_policy(CookieCSRFStoragePolicy())
            cfg.set_default_csrf_options(require_csrf=True)
        cfg.add_tween('harness.c14.app.observer_factory', over=P['EXCVIEW'])
        cfg.add_tween('harness.c14.app.probe_factory', under=P['EXCVIEW'])
        cfg.add_tween('harness.c14.app.under_factory', under='harness.c14.app.probe_factory')
        for r in case['routes']:
            cfg.add_route(r['name'], '/%s/{lang}/*traverse' % r['name'], use_global_views=r['ugv'])
        if batched:
            cfg.commit()
        self.cfg = cfg
        self.ids = {}
        self.iid(P['Interface'])
        self.iid(P['IRequest'])
        self.route_iface = {r['name']: cfg.registry.getUtility(P['IRouteRequest'], name=r['name']) for r in case['routes']}
        self.failed = set()
        self.decls = []
        try:
            for v in case['views']:
                if v['phase'] == 0:
                    self.decls.append(self._add(v))
            self.app = cfg.make_wsgi_app()
        except P['ConfigurationConflictError']:
            if not batched:
                raise
            self.conflict = True

    def phase1(self):
        P = _P
        for v in self.case['views']:
            if v['phase'] == 1:
                self.decls.append(self._add(v))
                self.cfg.commit()           # committed one by one: a later declaration overrides, never conflicts

    def iid(self, spec):
        return self.ids.setdefault(spec, len(self.ids))

    def ctx_obj(self, name):
        return None if name is None else _P['classes'][name]

    def spec_of(self, o):
        P = _P
        return o if P['IInterface'].providedBy(o) else P['implementedBy'](o)

    def _add(self, v):
        P = _P
        tag = v['tag']
        body = A.make_body(tag, v['body']['touch'], v['body']['act'], bool(v['body'].get('falsy')))
        kw, mkw = {}, []
        for n in sorted(v['preds']):
            val = v['preds'][n]
            if n == 'custom':
                vals, wv = [], []
                for i, nt in val:
                    c = A.Custom(i)
                    vals.append(P['not_'](c) if nt else c)
                    wv.append([nt, [3, i, '']])
                kw['custom_predicates'] = tuple(vals)
                mkw.append(['custom', wv])
            elif n == 'containment':
                kw[n] = P['classes'][val]
                mkw.append([n, [[False, [3, CONT.index(val), str(kw[n])]]]])
            elif isinstance(val, bool):
                kw[n] = val
                mkw.append([n, [[False, [0, val]]]])
            elif isinstance(val, str):
                kw[n] = val
                mkw.append([n, [[False, [1, val]]]])
            else:
                kw[n] = tuple(val)
                mkw.append([n, [[False, [2, list(val)]]]])
        ctxobj = self.ctx_obj(v['ctx'])
        defobj = self.ctx_obj(v.get('defctx'))
        if defobj is not None:
            # class-based view with class-level defaults (@view_defaults(context=...)); an argument that is not passed
            # takes the class default, so context= is passed only when the declaration has one
            fn = body

            class Cls:
                __view_defaults__ = {'context': defobj}

                def __init__(self, context, request):
                    self.context, self.request = context, request

                def run(self):
                    return fn(self.context, self.request)
            body = Cls
            kw['attr'] = 'run'
        ckw = {} if (defobj is not None and ctxobj is None) else {'context': ctxobj}
        if self.case.get('csrf') and v['dir'] == 'view' and not (v['ctx'] in EXC_CTX_NAMES and defobj is None):
            # a declaration that can match the traversed resource opts out of the default CSRF check; one made for an
            # exception context says nothing (its exception side is exempt, its ordinary side matches no resource here)
            ckw['require_csrf'] = False
        try:
            if v.get('deco'):
                # declared with the venusian decorator of the directive and picked up by config.scan()
                from pyramid.security import NO_PERMISSION_REQUIRED
                import pyramid.view as PV
                if v['dir'] == 'view':
                    noperm = NO_PERMISSION_REQUIRED if self.case.get('defperm') else None
                    self._scan(tag, body, PV.view_config, dict(kw, name=v['name'], route_name=v['route'],
                                                               exception_only=v['xonly'],
                                                               permission='p' if v['perm'] else noperm, **ckw))
                elif v['dir'] == 'exc':
                    self._scan(tag, body, PV.exception_view_config, dict(kw, route_name=v['route'], **ckw))
                elif v['dir'] == 'nf':
                    if v.get('slash'):
                        kw['append_slash'] = True
                    self._scan(tag, body, PV.notfound_view_config, dict(kw, route_name=v['route']))
                else:
                    self._scan(tag, body, PV.forbidden_view_config, dict(kw, route_name=v['route']))
            elif v['dir'] == 'view':
                from pyramid.security import NO_PERMISSION_REQUIRED
                noperm = NO_PERMISSION_REQUIRED if self.case.get('defperm') else None
                self.cfg.add_view(body, name=v['name'], route_name=v['route'], exception_only=v['xonly'],
                                  permission='p' if v['perm'] else noperm, **ckw, **kw)
            elif v['dir'] == 'exc':
                self.cfg.add_exception_view(body, route_name=v['route'], **ckw, **kw)
            elif v['dir'] == 'nf':
                if v.get('slash'):
                    kw['append_slash'] = True
                self.cfg.add_notfound_view(body, route_name=v['route'], **kw)
            else:
                self.cfg.add_forbidden_view(body, route_name=v['route'], **kw)
        except P['ConfigurationConflictError']:
            raise
        except Exception:
            self.failed.add(tag)
        req_id = self.iid(P['IRequest'] if v['route'] is None else self.route_iface[v['route']])
        args = [req_id, 0, v['name'], mkw, [], v['perm'], tag]
        act = v['body']['act']
        wact = [0] if act[0] == 'ret' else [1] if act[0] == 'ctx' else [2, act[1]]
        return [DIRS.index(v['dir']), [] if ctxobj is None else [self.iid(self.spec_of(ctxobj))], v['xonly'],
                _ctxbits(ctxobj), args, v['phase'], [v['body']['touch'], wact, v['perm']],
                [] if defobj is None else [self.iid(self.spec_of(defobj))], _ctxbits(defobj)]

    def _scan(self, tag, body, deco, kw):
        import sys
        import types
        name = 'c14scan_%d' % tag
        mod = types.ModuleType(name)
        sys.modules[name] = mod
        mod.__dict__.update(KW=kw, BODY=body, DECO=deco)
        src = '@DECO(**KW)\ndef v(context, request):\n    return BODY(context, request)\n'
        import linecache
        fname = '<%s>' % name
        linecache.cache[fname] = (len(src), None, src.splitlines(True), fname)    # view_config reads its source line
        try:
            exec(compile(src, fname, 'exec'), mod.__dict__)
            self.cfg.scan(mod)
        finally:
            sys.modules.pop(name, None)
            linecache.cache.pop(fname, None)

    # ---- exceptions
    def make_exc(self, i):
        P = _P
        x = self.case['excs'][i]
        cls = P['classes'][x['cls']]
        e = cls() if x['cls'] == 'BE' else cls('c14', i) if x['cls'] == 'NA' else cls('c14-%d' % i)
        for m in x['marks']:
            P['alsoProvides'](e, P['classes'][m])
        e.c14_id = i
        return e

    def exc_entry(self, i, e):
        P = _P
        sro = [self.iid(s) for s in P['providedBy'](e).__sro__]
        isa = [n for n in ISA_NAMES if isinstance(e, P['isa_classes'][n])] + (['truthy'] if bool(e) else [])
        st = int(e.status_int) if isinstance(e, webob_response()) else 0
        return [i, sro, isa, st]

    def named(self):
        P = _P
        import webob.exc
        return [['Interface', self.iid(P['Interface'])], ['IRequest', self.iid(P['IRequest'])],
                ['Exception', self.iid(P['implementedBy'](Exception))],
                ['HTTPNotFound', self.iid(P['implementedBy'](P['HTTPNotFound']))],
                ['HTTPForbidden', self.iid(P['implementedBy'](P['HTTPForbidden']))],
                ['IExceptionResponse', self.iid(P['IExceptionResponse'])],
                ['WebobWSGIHTTPException', self.iid(P['implementedBy'](webob.exc.WSGIHTTPException))]]

    # ---- requests
    def request(self, r):
        P = _P
        segs = [r['vname']] if r['vname'] else []
        url = '/' + '/'.join(([r['route'], r.get('lang', 'en')] if r['route'] else []) + segs)
        if r['route'] and not segs:
            url += '/'
        if r['qs']:
            from urllib.parse import urlencode
            url += '?' + urlencode([tuple(kv) for kv in r['qs']])
        req = P['Request'].blank(url)
        req.method = r['method']
        if r['xhr']:
            req.headers['X-Requested-With'] = 'XMLHttpRequest'
        if r.get('xfoo') is not None:
            req.headers['X-Foo'] = r['xfoo']
        return req

    def oracle(self, r):
        P = _P
        req = self.request(r)
        params = [[k, req.params.get(k)] for k in PARAM_KEYS if req.params.get(k) is not None]
        riface = P['IRequest'] if r['route'] is None else self.route_iface[r['route']]
        rsro = [self.iid(i) for i in riface.__sro__]
        comb = [self.iid(i) for i in riface.combined.__sro__]
        csro = [self.iid(i) for i in P['providedBy'](A.ROOT).__sro__]
        import re
        xf = req.headers.get('X-Foo')
        headers = [['X-Foo', xf]] if xf is not None else []
        rx = [['ba.', xf, re.compile('ba.').match(xf) is not None]] if xf is not None else []
        md = [[['lang', r.get('lang', 'en')]]] if r['route'] else []
        rq = [r['method'], params, headers, r['xhr'], md, False, req.upath_info, [['', [0]]], True,
              rx, [], sorted(r['truth']), rsro, csro, r['vname']]
        u = _norm_under(r['under'])
        wu = [0] if u[0] == 'pass' else [1, u[1]] if u[0] == 'raise' else [3] if u[0] == 'retry' else \
            [4, [] if u[1] is None else [bool(u[1])]] if u[0] == 'sub' else \
            [2, u[1], u[2], u[3], [] if u[4] is None else [u[4]]]
        rq2 = []
        if u[0] == 'retry':
            # second dispatch of the same request object: path_info rewritten to an unrouted path; the route mapper
            # leaves matchdict / environ['bfg.routes.*'] of the first dispatch in place, so a first dispatch through a
            # *traverse route still decides the traversal path of the second one
            vn2 = r['vname'] if r['route'] else u[1]
            r2sro = [self.iid(i) for i in P['IRequest'].__sro__]
            rq2 = [[r['method'], params, headers, r['xhr'], md, False, '/' + u[1], [['', [0]]], True,
                    rx, [], sorted(r['truth']), r2sro, csro, vn2]]
        unr = [self.iid(i) for i in P['IRequest'].combined.__sro__]
        return [r['phase'], rq, rq2, comb, unr, r['deny'], [] if r['root_raise'] is None else [r['root_raise']], wu,
                [] if r['preset'] is None else [r['preset']]]

    def run(self, r):
        req = self.request(r)
        env = A.Env(self, {'under': _norm_under(r['under']), 'preset': r['preset'], 'root_raise': r['root_raise'],
                           'deny': r['deny'], 'truth': set(r['truth']), 'r': r})
        req.environ['c14'] = env
        outer = None
        try:
            resp = req.get_response(self.app)
            outer = [0, resp.status_int]
        except BaseException as e:
            outer = [2, env.lab(e)]
            changed = env.chain_state(e)
            if changed is not None:
                # "the original exception object propagates UNCHANGED to the caller": same object, but the chaining
                # information it was raised with (__cause__ / __suppress_context__) was rewritten on the way
                return [[9, 'propagated-object-changed'] + changed]
        if env.final is None:
            return [[9, 'no-final']]
        out, snap = env.final
        # what the caller of the application sees must be what left the outermost tween
        if out[0] == 2 and outer != out:
            return [[9, 'outer-mismatch', outer, out]]
        if out[0] == 1 and outer != [0, out[2]]:
            return [[9, 'outer-status-mismatch', outer, out]]
        if out[0] == 0 and outer[0] != 0:
            return [[9, 'outer-mismatch', outer, out]]
        fin = env.fin if env.fin is not A.ABSENT else [9996]
        return env.log + [[3, out, snap, fin]]

    def run_all(self):
        """-> (wire without observations, observations)"""
        case = self.case
        obs = []
        oracles = []
        done1 = False
        for r in case['requests']:
            if r['phase'] == 1 and not done1:
                self.phase1()
                done1 = True
            oracles.append(self.oracle(r))
            obs.append(self.run(r))
        if not done1 and any(v['phase'] == 1 for v in case['views']):
            self.phase1()
        excs = []
        for i in range(len(case['excs'])):
            excs.append(self.exc_entry(i, self.make_exc(i)))
        for i, n in sorted(FRESH.items()):
            cls = _P['fresh_classes'][n]
            excs.append(self.exc_entry(i, cls()))
        # declarations in registration order (phase 0 first); those whose add_* raised still travel: the model
        # must predict that they register nothing
        wire = [self.named(), self.decls, excs, oracles]
        return wire, obs, sorted(self.failed)


def webob_response():
    import webob
    return webob.Response


_CACHE = {}


def _key(case):
    return json.dumps(case, sort_keys=True)


def _compute(case):
    try:
        w = World(case)
        wire, obs, failed = w.run_all()
        return {'wire': wire, 'obs': obs, 'failed': failed, 'conflict': w.conflict}
    except Exception as e:
        import traceback
        return {'wire': None, 'obs': ['HARNESS-EXC', type(e).__name__, str(e)[:300], traceback.format_exc()[-600:]],
                'failed': [], 'conflict': False}


def _get(case):
    k = _key(case)
    d = _CACHE.get(k)
    if d is None:
        if len(_CACHE) > 200000:
            _CACHE.clear()
        d = _CACHE[k] = _compute(case)
    return d


def _precompute(cases):
    todo = [c for c in cases if _key(c) not in _CACHE]
    if len(todo) < 64:
        return
    import multiprocessing as mp
    if not _P:
        setup('quick')
    ctx = mp.get_context('fork')
    with ctx.Pool(min(12, os.cpu_count() or 4)) as pool:
        res = pool.map(_compute, todo, chunksize=max(1, len(todo) // 96))
    for c, d in zip(todo, res):
        _CACHE[_key(c)] = d


# ------------------------------------------------------------------ wire
def to_wire(case):
    d = _get(case)
    if d['wire'] is None:
        return [[], [], [], [], []]
    return d['wire'] + [d['obs']]


_PREM = {}
_GENREF = {}


def from_wire(case, raw):
    if raw == [['bad']] or not isinstance(raw, list) or any(not (isinstance(p, list) and len(p) == 7) for p in raw):
        return {'model': ['MODEL-BAD', raw], 'spec': None}
    _PREM[_key(case)] = [p[5] for p in raw]
    _GENREF[_key(case)] = [p[0] == p[6] for p in raw]
    return {'model': [p[0] for p in raw], 'spec': [[p[1], p[2], sorted(p[3]), p[4], p[5]] for p in raw]}


def run_impl(case):
    return _get(case)['obs']


# ------------------------------------------------------------------ judging
def spec_holds(case, obs, spec):
    """The property judged on the implementation's own trace by the extracted Coq judge (run_C14 receives the
    observed traces with the case).  spec[i] = [judge(model trace), judge(observed trace), winners]."""
    if spec is None or not isinstance(obs, list) or len(obs) != len(spec):
        return None
    from harness.common.wire import canon
    if canon(_get(case)['obs']) != obs:          # the trace that was judged is not the one we are asked about
        return None
    if any(p[1] == 2 for p in spec):
        return None
    return all(p[1] == 1 for p in spec)


def classify(case, obs, spec):
    """C14-permissive-skips-predicates: every request on which the judge fails (a) is accepted by the tolerant judge
    (= everything except the direct invoke_exception_view(secure=False) call is as the property says), (b) made
    that call with secure=False, and (c) the exception-view body that ran inside the call belongs to a declaration
    with a permission (the only views that carry __call_permissive__) which has predicates."""
    if spec is None or not isinstance(obs, list) or len(obs) != len(spec):
        return None
    bad = [(r, tr, p) for r, tr, p in zip(case['requests'], obs, spec) if p[1] != 1]
    if not bad:
        return None
    decl = {v['tag']: v for v in case['views']}
    for r, tr, p in bad:
        u = _norm_under(r['under'])
        if p[3] != 1 or u[0] != 'catch' or u[2]:
            return None
        pre = []
        for e in tr:
            if e[0] == 2:
                break
            pre.append(e)
        ran = [e[1] for e in pre if e[0] == 0 and e[2] != A.CTX_RESOURCE]
        if len(ran) != 1 or ran[0] not in decl or not decl[ran[0]]['perm'] or not decl[ran[0]]['preds']:
            return None
    return 'C14-permissive-skips-predicates'


def _final(tr):
    return tr[-1] if tr and tr[-1] and tr[-1][0] == 3 else None


def _excbodies(tr):
    return [e for e in tr if e and e[0] == 0 and e[2] != A.CTX_RESOURCE]


def nontrivial(case, obs):
    if not isinstance(obs, list) or (obs and obs[0] == 'HARNESS-EXC'):
        return False
    nx = sum(1 for v in case['views'] if _exc_decl(v))
    ran = any(_excbodies(tr) for tr in obs)
    prop = any(_final(tr) and _final(tr)[1][0] == 2 for tr in obs)
    return nx >= 2 and ran and prop


def kinds(case, obs):
    k = []
    if not isinstance(obs, list) or (obs and obs[0] == 'HARNESS-EXC'):
        return ['harness-exc']
    act_of = {v['tag']: v['body']['act'][0] for v in case['views']}
    falsy_tags = {v['tag'] for v in case['views'] if v['body'].get('falsy')}
    for r, tr in zip(case['requests'], obs):
        r = dict(r, under=_norm_under(r['under']))
        f = _final(tr)
        if f is None:
            k.append('req:odd')
            continue
        probe = [e for e in tr if e[0] == 2]
        arriving = probe[0][1] if probe else None
        k.append('req:under-' + r['under'][0])
        if arriving is not None:
            k.append('arrive:' + {0: 'response', 1: 'exc-response', 2: 'raise'}[arriving[0]])
            if arriving[0] == 2:
                e = arriving[1]
                k.append('arrive:raise-' + ('user' if e < 1000 else FRESH.get(e, '?') + str(e)))
        o = f[1]
        k.append('final:' + ({0: 'view-response', 2: 'propagated'}.get(o[0]) or 'exc-response-%d' % o[2]))
        xb = _excbodies(tr)
        if len(xb) > 1 or len([e for e in tr if e[0] == 0 and e[2] == A.CTX_RESOURCE]) > 1:
            k.append('search-went-on-after-a-body-raised-PredicateMismatch')
        if xb:
            k.append('excview-ran')
            act = {v['tag']: v['body']['act'][0] for v in case['views']}
            k.append('excview-act-' + act.get(xb[-1][1], 'default-ctx'))
            if xb[-1][1] == 900:
                k.append('excview-default-view')
        if arriving is not None and arriving[0] == 2 and o[0] == 2 and not xb:
            k.append('no-view:propagated' + ('-attrs-preset' if any(s for s in f[2]) else ''))
        if r['preset'] is not None:
            k.append('req:preset')
        if o[0] == 2 and o[1] < 1000 and case['excs'][o[1]].get('chain'):
            k.append('final:propagated-with-' + case['excs'][o[1]]['chain'])
        if xb and xb[-1][1] in falsy_tags and o[0] == 0:
            k.append('excview-returned-falsy-response')
        if case.get('csrf') and r['method'] == 'POST' and xb:
            k.append('excview-ran-on-POST-under-default-csrf')
        if r['under'][0] == 'retry':
            k.append('req:dispatched-twice' + ('-first-routed' if r['route'] else ''))
        if r['under'][0] == 'sub':
            k.append('req:subrequest-use_tweens-' + {None: 'default', False: 'false', True: 'true'}[r['under'][1]]
                     + ('-raised' if (arriving is not None and arriving[0] == 2) else '')
                     + ('-sub-excview-ran' if (probe and any(e[0] == 0 and e[2] != A.CTX_RESOURCE
                                                             for e in tr[:tr.index(probe[0])])) else ''))
        if r['phase'] == 1:
            k.append('req:phase1')
        if r['route']:
            k.append('req:routed')
        if arriving is not None and arriving[0] == 2 and arriving[1] < 1000 and \
                case['excs'][arriving[1]]['cls'] in ('FZ', 'EL', 'NA'):
            k.append('arrive:falsy-exception' + ('-propagated' if o[0] == 2 else ''))
        if any(e[0] == 1 for e in tr):
            k.append('req:iev-in-tween' + ('' if r['under'][2] else '-secure-false'))
            if r['under'][3]:
                k.append('req:iev-called-on-another-request' + ('-routed' if r['route'] else ''))
        if o[0] == 2 and o[1] in (1013, 1023):
            k.append('final:secured-excview-refused')
        if any(e[0] == 0 and e[2] == A.CTX_RESOURCE and act_of.get(e[1]) == 'ctx' for e in tr):
            k.append('ordinary-view-returns-context')
    dirs = set()
    for v in case['views']:
        dirs.add('decl:' + v['dir'] + ('-xonly' if v['xonly'] else ''))
        if v['route'] and v['dir'] != 'view':
            dirs.add('decl:route-bound-excview')
        if v['ctx'] in MARKS:
            dirs.add('decl:marker-iface-context')
        if v['phase'] == 1:
            dirs.add('decl:phase1')
        if v['preds']:
            dirs.add('decl:predicated')
        for n in v['preds']:
            if v['dir'] in ('nf', 'fb', 'exc'):
                dirs.add('decl:%s-with-%s' % (v['dir'], n))
        if v.get('defctx') is not None:
            dirs.add('decl:class-defaults-%s%s' % (v['dir'], '' if v['ctx'] is None else '-explicit-context'))
        if v.get('deco'):
            dirs.add('decl:by-decorator-and-scan-' + v['dir'])
        if v.get('slash'):
            dirs.add('decl:nf-append-slash' + ('-under-default-permission' if case.get('defperm') else ''))
    k += sorted(dirs)
    if any(x['marks'] for x in case['excs']):
        k.append('exc:marked-instance')
    d = _CACHE.get(_key(case))
    if d and d['failed']:
        k.append('decl:add-raised')
    if d and d['conflict']:
        k.append('cfg:conflict-fallback')
    k.append('cfg:autocommit' if case['autocommit'] else 'cfg:batched')
    if case.get('defperm'):
        k.append('cfg:default-permission')
    if case.get('csrf'):
        k.append('cfg:default-csrf-required')
        if any(v['dir'] == 'view' and v['ctx'] in EXC_CTX_NAMES and v.get('defctx') is None
               and (v['perm'] or case.get('defperm')) for v in case['views']):
            k.append('cfg:default-csrf-required+add_view-excview-with-explicit-permission')
    for ok in _PREM.get(_key(case), []):
        k.append('theorem-premises:' + ('hold' if ok else 'fail'))
    for ok in _GENREF.get(_key(case), []):
        k.append('regenerated-pipeline-%s-reference' % ('equals' if ok else 'DIFFERS-FROM'))
    return k


# ------------------------------------------------------------------ violation search
def targeted(broken, disagreements, rng):
    """Cases concentrated on (a) requests that already carry an exception (pre-set by a tween, or rendered by
    request.invoke_exception_view() in a tween that then raises another one) and end without a view, (b) a second
    view for the same class committed after the first rendering, (c) marker interfaces on instances, (d) exception
    views that fail, (e) routed requests with global exception views."""
    out = []
    for i in range(560):
        c = gen_case(rng)
        k = i % 7
        nexc = len(c['excs'])
        if k == 0:
            for r in c['requests']:
                r['preset'] = rng.randrange(nexc)
                if rng.random() < 0.5:
                    r['under'] = ['catch', rng.random() < 0.5, rng.random() < 0.7, rng.random() < 0.4, rng.randrange(nexc)]
            c['views'] = [v for v in c['views'] if not _exc_decl(v) or rng.random() < 0.4]
        elif k == 1:
            xs = [v for v in c['views'] if _exc_decl(v) and v['phase'] == 0]
            tag = max([v['tag'] for v in c['views']] + [0]) + 1
            for o in xs[:2]:
                c['views'].append(dict(o, preds=gen_preds(rng, 1), phase=1, tag=tag, body=gen_body(rng, c['excs'], True)))
                tag += 1
            c['views'].sort(key=lambda v: v['phase'])
            first = [r for r in c['requests'] if r['phase'] == 0]
            c['requests'] = first + [dict(r, phase=1) for r in first]
        elif k == 2:
            for x in c['excs']:
                x['marks'] = sorted(rng.sample(MARKS, rng.choice([1, 2])))
            for v in c['views']:
                if _exc_decl(v) and v['dir'] in ('view', 'exc') and rng.random() < 0.6:
                    v['ctx'] = rng.choice(MARKS)
        elif k == 3:
            ok = list(range(len(c['excs'])))
            for v in c['views']:
                if _exc_decl(v) and ok and rng.random() < 0.7:
                    v['body'] = {'touch': rng.random() < 0.5, 'act': ['raise', rng.choice(ok)]}
        elif k == 5:
            # (f) configuration-wide defaults (CSRF, permission) x add_view declarations for exception contexts with an
            # explicit permission x unsafe methods
            c['csrf'] = True
            if rng.random() < 0.5:
                c['defperm'] = True
            for v in c['views']:
                if _exc_decl(v) and v['dir'] in ('exc', 'view') and v.get('defctx') is None and rng.random() < 0.7:
                    v.update(dir='view', xonly=rng.random() < 0.3, perm=rng.random() < 0.6, name='')
                    if v['ctx'] is None:
                        v['ctx'] = 'Exception'
            for r in c['requests']:
                r['method'] = 'POST'
        elif k == 6:
            # (g) falsy values flowing through: falsy responses from exception views, chained exceptions without a view
            for v in c['views']:
                if _exc_decl(v) and v['body']['act'] == ['ret']:
                    v['body']['falsy'] = True
            for x in c['excs']:
                x['chain'] = rng.choice(['cause', 'context'])
        else:
            if not c['routes']:
                c['routes'] = [{'name': 'r1', 'ugv': rng.random() < 0.5}]
            for r in c['requests']:
                r['route'] = rng.choice([x['name'] for x in c['routes']])
                if r['under'][0] == 'raise':
                    r['under'] = ['pass']
        if valid(c):
            out.append(c)
    _precompute(out)
    return out


def describe(case):
    return {'routes': case['routes'], 'excs': case['excs'], 'views': case['views'], 'requests': case['requests'][:3]}


def explain(item):
    return ('events: [0,tag,ctx,snapshot]=a view body ran; [1,e,before,outcome,after]=invoke_exception_view in the tween under '
            'the excview tween; [2,outcome,snapshot]=what reaches the excview tween; [3,outcome,snapshot,fin]=what leaves it. '
            'snapshot=[response,exc_info,exception] of request.__dict__ ([]=absent); outcome [0,tag]=response of view tag, '
            '[1,e,status]=the exception object e as response, [2,e]=e propagates; ids <1000 index case.excs, 1000+ are '
            'framework-made (1000 router HTTPNotFound, 1001 PredicateMismatch, 1002 HTTPForbidden, 101x/102x made inside '
            'invoke_exception_view in the tween / in the excview tween); spec=[judge(model), judge(observed), winners, '
            'tolerant judge(observed)]')
