"""C14 translator: Python ast of the exception-view machinery -> Gallina definitions gen_* in coq/Gen/Facts_C14.v,
re-run on every check (prop.facts).

  pyramid/util.py           hide_attrs                      -> gen_hide_attrs      (context manager; two loops)
  pyramid/util.py           reraise                         -> gen_reraise
  pyramid/view.py           ViewMethodsMixin.invoke_exception_view -> gen_iev
  pyramid/tweens.py         _error_handler                  -> gen_error_handler
  pyramid/tweens.py         excview_tween_factory.excview_tween    -> gen_excview_tween
  pyramid/httpexceptions.py default_exceptionresponse_view  -> gen_default_view
  pyramid/config/views.py   isexception                     -> gen_isexception

Fail-closed: a statement outside the SUBSET, an expression outside the PRIMITIVE TABLE, a typing surprise ->
Problem; the caller records a broken tie and emits the stored fallback text (gen_fallback.json = the translation of
the text the reference model was written against) so that the Coq development still type-checks.

=== CONTROL FLOW (mechanical, continuation-passing symbolic execution; nothing is looked up) ===================
  block s1; s2; ..        s1 receives the translation of the rest as its continuation (three continuations: normal
                          completion, `return v`, exception e)
  v = e                   substitution (no let is emitted; locals never occur in the output)
  if c: A else: B; rest   decision tree over the ATOMS of c (`and`/`or`/`not` split, elif = nested if); a test that
                          the table resolves statically (a parameter known to be None / not None, `x is None` on a
                          value of known shape) selects its branch; `x is None` / `x is not _marker` on an optional
                          value becomes `match x with None => .. | Some y => ..` and narrows x to y in that branch; an
                          `if` whose branches translate to the same term disappears; every branch gets its own copy
                          of the rest
  try: B except C [as n]: H   the exception continuation of B becomes `if isa W "C" e then <H; rest> else <outer>`
                          (several handlers: tested in order); bare `raise` in H = the caught object
  try: B finally: F       F is appended to each of the three continuations of B (normal / return / exception)
  raise X / raise X(..)   exception continuation with the object (a class: a framework-made instance, see table)
  return e                return continuation
  for x in names: B; rest local fix over the list, the state and the re-bound locals as arguments, `rest` in the nil
                          case, the recursive call at the end of B (no break/continue/return/raise inside B)
  with hide_attrs(request, 'a', ..): B; rest
                          match gen_hide_attrs [a; ..] (fun st => <B>) st with (WNorm v, st') => <rest> | (WExn e, st')
                          => <exception continuation> end; v = the value of the ONE local assigned in B and read in
                          rest (none: unit); no return inside B
  yield                   (only in hide_attrs) the with-body: match body st with (WNorm v, st') .. | (WExn e, st') ..
  x = f(..) with effects  match <call> with (Resp r, st') => <rest, x := r> | (Raise e, st') => <exception> end
                          (_call_view: three cases, LNone / LResp r / LRaise e)

=== PRIMITIVE TABLE (trusted: each line is a claim about Python / Pyramid / the harness) =========================
  state                   request.__dict__ (also obj.__dict__ of hide_attrs when obj is the request) is the attribute map
                          of the threaded [state]; `attrs = request.__dict__` aliases it
  attrs[k] = v            st_set k v st       (v an exception object or an exc_info triple: stored as its exc_info[1])
  del attrs[k]            st_del k st         k in attrs        st_mem k st
  attrs.pop(k, _marker)   value st_get k st (optional), state st_del k st
  d = {} ; d[k] = v ; d[k]    a local dict of optional values: [], sset k v d, sget k d (key known to be present)
  x is None / is not None / is _marker / is not _marker      on optional values: match; on values of known shape: static
  a == b / a != b         text_eqb a b on attribute names (texts)
  parameters              request (tweens), obj (hide_attrs) -> the request being rendered; invoke_exception_view: self is the
                          request the method is called on, request= is optional: `request is None` -> `oth` is false and
                          self IS the rendered request; otherwise request is the rendered one and self ANOTHER object
                          whose __dict__ operations are ctl_get/ctl_set/ctl_del/ctl_mem (write events) and whose
                          request_iface is IRequest (an unrouted request); exc_info -> either given or sys.exc_info(): both the triple of the
                          exception e being handled; secure -> sec, reraise -> rr; tp/tb of reraise: class / traceback
  getattr(request, 'registry', None), get_current_registry()   a registry, not None
  sys.exc_info()          the triple of the exception being handled;  exc_info[1] its object;  *exc_info = (tp, e, tb)
  providedBy(exc)         the resolution order of the OBJECT (oracle x_sro), only as context_iface of _call_view
  attrs.get('request_iface', IRequest)   the request's interface;  X.combined  its combined variant
  _call_view(registry, request, exc, providedBy(exc), name, view_types=None, view_classifier=IExceptionViewClassifier,
             secure=s, request_iface=RI)    prim_call_view P W ri site s e (exc_request_raw <RI is combined> name W ri e) st
  manager.push(..), manager.pop()           no effect on this model (thread-local stack: C13)
  handler(request)        the outcome of the handler below (parameter ho of gen_excview_tween), state unchanged
  _error_handler(request, exc) / request.invoke_exception_view(exc_info) / reraise(*exc_info)
                          the regenerated gen_error_handler / gen_iev (defaults of the omitted arguments read from the
                          signature) / gen_reraise
  tp()                    a framework-made instance (fresh);  raise C  for a class C: fresh_of_class "C" site
  value.with_traceback(tb), value.__traceback__ is not tb     the same object / an untracked boolean (both branches
                          must then translate to the same term)
  not x, x or y           on an optional object: truthiness `isa W "truthy" x` (oracle bool(object))
  isinstance(x, C)        isa W "C" x ;   request.exception   st_get "exception" st (class attribute default None)
  isexception(o) bits     IInterface.providedBy(o) cb_iface, IException.isEqualOrExtendedBy(o) cb_ext,
                          isinstance(o, Exception) cb_inst, inspect.isclass(o) cb_class, issubclass(o, Exception) cb_sub
  string literals         attribute names -> texts; messages are not modelled
"""
import ast
import json
import os

HERE = os.path.dirname(os.path.abspath(__file__))
FALLBACK = os.path.join(HERE, 'gen_fallback.json')


# every source function whose control flow is regenerated on every run (tools/coverage_map.py reads this)
TRANSLATED = [
    'pyramid/util.py:hide_attrs',
    'pyramid/util.py:reraise',
    'pyramid/view.py:ViewMethodsMixin.invoke_exception_view',
    'pyramid/tweens.py:_error_handler',
    'pyramid/tweens.py:excview_tween_factory',
    'pyramid/tweens.py:excview_tween_factory.excview_tween',
    'pyramid/httpexceptions.py:default_exceptionresponse_view',
    'pyramid/config/views.py:isexception',
]


class Problem(Exception):
    pass


def u(node):
    try:
        return ast.unparse(node)
    except Exception:
        return '<%s>' % type(node).__name__


def coq_text(s):
    return '[' + '; '.join(str(ord(c)) for c in s) + ']%N'


class Val:
    def __init__(self, ty, term=None, **kw):
        self.ty, self.term = ty, term
        self.__dict__.update(kw)

    def __repr__(self):
        return 'Val(%s,%s)' % (self.ty, self.term)


class K:
    def __init__(self, normal, ret, exc):
        self.normal, self.ret, self.exc = normal, ret, exc


def loads(nodes):
    s = set()
    for n in nodes:
        for x in ast.walk(n):
            if isinstance(x, ast.Name) and isinstance(x.ctx, ast.Load):
                s.add(x.id)
    return s


def assigned(nodes):
    out = []
    for n in nodes:
        for x in ast.walk(n):
            if isinstance(x, ast.Name) and isinstance(x.ctx, ast.Store) and x.id not in out:
                out.append(x.id)
            if isinstance(x, ast.Subscript) and isinstance(x.ctx, ast.Store) and isinstance(x.value, ast.Name) \
                    and x.value.id not in out:
                out.append(x.value.id)
    return out


CLASSES = ('HTTPNotFound', 'Exception', 'RuntimeError', 'PredicateMismatch', 'HTTPForbidden', 'BaseException')


class Tr:
    """one function"""

    def __init__(self, fname, kind, sigs):
        self.fname, self.kind, self.sigs = fname, kind, sigs
        self.n = 0

    def fresh(self, p):
        self.n += 1
        return '%s%d' % (p, self.n)

    def pair(self, fa, fb):
        """evaluate two sibling continuations with the same supply of fresh names (so that equal continuations
        give equal text)"""
        n0 = self.n
        a = fa()
        n1 = self.n
        self.n = n0
        b = fb()
        self.n = max(n1, self.n)
        return a, b

    # ------------------------------------------------------------ which request object
    def comp_of(self, v, env):
        """'attrs': the request being rendered (its __dict__ is the attribute map of the threaded state);
        'ctl': the request the method was called on when ANOTHER request was passed as request= (its writes are
        ECtlW events).  `self` is the former iff request= was omitted."""
        if v.ty != 'req':
            raise Problem('not a request: %s' % v.ty)
        if v.who == 'target':
            return 'attrs'
        if '$oth' not in env:
            raise Problem('self is used before `request is None` was decided')
        return 'ctl' if env['$oth'] else 'attrs'

    @staticmethod
    def op(comp, name):
        return ('st_' if comp == 'attrs' else 'ctl_') + name

    # ------------------------------------------------------------ expressions
    def ev(self, e, env):
        if isinstance(e, ast.Constant):
            if e.value is None:
                return Val('none')
            if isinstance(e.value, bool):
                return Val('static', e.value)
            if isinstance(e.value, str):
                return Val('str', coq_text(e.value), py=e.value)
            raise Problem('constant %r' % (e.value,))
        if isinstance(e, ast.Name):
            if e.id in env:
                return env[e.id]
            if e.id == '_marker':
                return Val('marker')
            if e.id in CLASSES:
                return Val('class', py=e.id)
            if e.id in ('IRequest', 'IExceptionViewClassifier', 'manager', 'sys'):
                return Val('global', py=e.id)
            raise Problem('%s: name %s is not in the table' % (self.fname, e.id))
        if isinstance(e, ast.Dict) and not e.keys:
            return Val('dict', '[]')
        if isinstance(e, ast.IfExp):
            out = []
            self.branch(e.test, env, lambda en: out.append(self.ev(e.body, en)) or 'T',
                        lambda en: out.append(self.ev(e.orelse, en)) or 'F')
            if len(out) != 1:
                raise Problem('conditional expression whose test is not static: %s' % u(e))
            return out[0]
        if isinstance(e, ast.Attribute):
            b = self.ev(e.value, env)
            if e.attr == '__dict__' and b.ty == 'req':
                return Val('attrs', comp=self.comp_of(b, env))
            if e.attr == 'combined' and b.ty == 'riface':
                return Val('riface', combined=True, own=b.own)
            if e.attr == 'exception' and b.ty == 'req':
                return Val('optobj', '%s %s %s' % (self.op(self.comp_of(b, env), 'get'), coq_text('exception'), env['$st']))
            if e.attr == '__traceback__' and b.ty == 'obj':
                return Val('tb')
            raise Problem('attribute %s' % u(e))
        if isinstance(e, ast.Subscript):
            b = self.ev(e.value, env)
            if b.ty == 'excinfo' and isinstance(e.slice, ast.Constant) and e.slice.value == 1:
                return Val('obj', b.term)
            if b.ty == 'dict':
                k = self.ev(e.slice, env)
                if k.ty not in ('str', 'text'):
                    raise Problem('dict key %s' % u(e.slice))
                return Val('optobj', 'sget %s %s' % (k.term, b.term))
            raise Problem('subscript %s' % u(e))
        if isinstance(e, ast.BoolOp) and isinstance(e.op, ast.Or) and len(e.values) == 2:
            a, b = self.ev(e.values[0], env), self.ev(e.values[1], env)
            if a.ty == 'optobj' and b.ty == 'obj':
                p = self.fresh('p')
                return Val('obj', '(match %s with Some %s => if isa W %s %s then %s else %s | None => %s end)' % (
                    a.term, p, coq_text('truthy'), p, p, b.term, b.term))
            raise Problem('or-expression %s' % u(e))
        if isinstance(e, ast.Call):
            f = u(e.func)
            args = [self.ev(a, env) for a in e.args if not isinstance(a, ast.Starred)]
            if f == 'getattr' and len(args) == 3 and args[0].ty == 'req' and args[1].ty == 'str' \
                    and args[1].py == 'registry':
                return Val('registry')
            if f == 'get_current_registry' and not args:
                return Val('registry')
            if f == 'sys.exc_info' and not args:
                if '$handled' not in env:
                    raise Problem('sys.exc_info() outside the handling of an exception')
                return Val('excinfo', env['$handled'])
            if f == 'providedBy' and len(args) == 1 and args[0].ty == 'obj':
                return Val('ctxiface', args[0].term)
            if isinstance(e.func, ast.Attribute) and e.func.attr == 'get' and len(args) == 2 \
                    and self.ev(e.func.value, env).ty == 'attrs' and args[0].ty == 'str' \
                    and args[0].py == 'request_iface' and args[1].ty == 'global' and args[1].py == 'IRequest':
                return Val('riface', combined=False, own=self.ev(e.func.value, env).comp == 'attrs')
            if isinstance(e.func, ast.Attribute) and e.func.attr == 'with_traceback' and len(args) == 1 \
                    and self.ev(e.func.value, env).ty == 'obj' and args[0].ty == 'tb':
                return self.ev(e.func.value, env)
            if not e.args and not e.keywords and self.ev(e.func, env).ty == 'classparam':
                return Val('obj', self.ev(e.func, env).term)
            raise Problem('%s: call %s is not in the table' % (self.fname, u(e)))
        raise Problem('%s: expression %s is not in the subset' % (self.fname, u(e)))

    # ------------------------------------------------------------ tests
    def branch(self, t, env, kt, kf):
        """decision tree; kt/kf take an env and return a term"""
        if isinstance(t, ast.UnaryOp) and isinstance(t.op, ast.Not):
            return self.branch(t.operand, env, kf, kt)
        if isinstance(t, ast.BoolOp) and isinstance(t.op, ast.And):
            if len(t.values) == 1:
                return self.branch(t.values[0], env, kt, kf)
            rest = ast.BoolOp(op=ast.And(), values=t.values[1:])
            return self.branch(t.values[0], env, lambda en: self.branch(rest, en, kt, kf), kf)
        if isinstance(t, ast.BoolOp) and isinstance(t.op, ast.Or):
            if len(t.values) == 1:
                return self.branch(t.values[0], env, kt, kf)
            rest = ast.BoolOp(op=ast.Or(), values=t.values[1:])
            return self.branch(t.values[0], env, kt, lambda en: self.branch(rest, en, kt, kf))
        if isinstance(t, ast.Compare) and len(t.ops) == 1:
            op, l, r = t.ops[0], t.left, t.comparators[0]
            if isinstance(op, (ast.Is, ast.IsNot)):
                neg = isinstance(op, ast.IsNot)
                rv = self.ev(r, env)
                lv = self.ev(l, env)
                if rv.ty in ('none', 'marker'):
                    if lv.ty == 'untracked' or rv.ty == 'untracked':
                        return self.merge(*self.pair(lambda: kt(env), lambda: kf(env)), u(t))
                    if lv.ty == 'optreq':
                        # request= given (oth) or omitted: from here on `self` is / is not the rendered request
                        en_t = dict(env)
                        en_t['$oth'] = False
                        en_f = dict(env)
                        en_f['$oth'] = True
                        if isinstance(l, ast.Name):
                            en_f[l.id] = Val('req', who='target')
                        a, b = self.pair(lambda: (kf if neg else kt)(en_t), lambda: (kt if neg else kf)(en_f))
                        return self.ite('oth', b, a)
                    if lv.ty in ('optobj', 'optresp', 'optexcinfo'):
                        return self.optmatch(l, lv, env, kf if neg else kt, kt if neg else kf)
                    isnone = lv.ty == rv.ty
                    return (kf if neg else kt)(env) if isnone else (kt if neg else kf)(env)
                if lv.ty == 'tb' and rv.ty == 'tb':
                    return self.merge(*self.pair(lambda: kt(env), lambda: kf(env)), u(t))
                raise Problem('identity test %s' % u(t))
            if isinstance(op, ast.In):
                lv, rv = self.ev(l, env), self.ev(r, env)
                if rv.ty == 'attrs' and lv.ty in ('str', 'text'):
                    return self.ite('%s %s %s' % (self.op(rv.comp, 'mem'), lv.term, env['$st']),
                                    *self.pair(lambda: kt(env), lambda: kf(env)))
                raise Problem('membership test %s' % u(t))
            if isinstance(op, (ast.Eq, ast.NotEq)):
                lv, rv = self.ev(l, env), self.ev(r, env)
                if lv.ty in ('str', 'text') and rv.ty in ('str', 'text'):
                    a, b = self.pair(lambda: kt(env), lambda: kf(env))
                    if isinstance(op, ast.NotEq):
                        a, b = b, a
                    return self.ite('text_eqb %s %s' % (lv.term, rv.term), a, b)
            raise Problem('comparison %s' % u(t))
        if isinstance(t, ast.Call):
            f = u(t.func)
            if f == 'isinstance' and len(t.args) == 2:
                a, c = self.ev(t.args[0], env), self.ev(t.args[1], env)
                if a.ty == 'obj' and c.ty == 'class':
                    return self.ite('isa W %s %s' % (coq_text(c.py), a.term), *self.pair(lambda: kt(env), lambda: kf(env)))
                if a.ty == 'ctxobj' and c.ty == 'class' and c.py == 'Exception':
                    return self.ite('cb_inst %s' % a.term, *self.pair(lambda: kt(env), lambda: kf(env)))
            bits = {'IInterface.providedBy': 'cb_iface', 'IException.isEqualOrExtendedBy': 'cb_ext',
                    'inspect.isclass': 'cb_class'}
            if f in bits and len(t.args) == 1 and self.ev(t.args[0], env).ty == 'ctxobj':
                return self.ite('%s %s' % (bits[f], self.ev(t.args[0], env).term), *self.pair(lambda: kt(env), lambda: kf(env)))
            if f == 'issubclass' and len(t.args) == 2 and self.ev(t.args[0], env).ty == 'ctxobj' \
                    and self.ev(t.args[1], env).ty == 'class' and self.ev(t.args[1], env).py == 'Exception':
                return self.ite('cb_sub %s' % self.ev(t.args[0], env).term, *self.pair(lambda: kt(env), lambda: kf(env)))
            raise Problem('test %s' % u(t))
        v = self.ev(t, env)
        if v.ty == 'static':
            return kt(env) if v.term else kf(env)
        if v.ty == 'bool':
            return self.ite(v.term, *self.pair(lambda: kt(env), lambda: kf(env)))
        if v.ty == 'optobj':           # truthiness of an optional object
            x = self.fresh('v')
            en = dict(env)
            if isinstance(t, ast.Name):
                en[t.id] = Val('obj', x)
            a, b = self.pair(lambda: kf(env), lambda: self.ite('isa W %s %s' % (coq_text('truthy'), x),
                                                                *self.pair(lambda: kt(en), lambda: kf(en))))
            return self.mopt(v.term, a, x, b)
        if v.ty == 'obj':
            return self.ite('isa W %s %s' % (coq_text('truthy'), v.term), *self.pair(lambda: kt(env), lambda: kf(env)))
        raise Problem('%s: test %s' % (self.fname, u(t)))

    def optmatch(self, node, v, env, knone, ksome):
        if v.ty == 'optexcinfo':
            # table: the exc_info argument, when given, is the triple of the exception being handled -- the same
            # value sys.exc_info() yields; so both cases must lead to the same term
            en = dict(env)
            if isinstance(node, ast.Name):
                en[node.id] = Val('excinfo', env['$handled'])
            return self.merge(*self.pair(lambda: knone(env), lambda: ksome(en)), u(node) + ' is None')
        if v.term == 'None':
            return knone(env)
        if v.term.startswith('Some '):
            en = dict(env)
            if isinstance(node, ast.Name):
                en[node.id] = Val({'optobj': 'obj', 'optresp': 'resp', 'optexcinfo': 'excinfo'}[v.ty], v.term[5:])
            return ksome(en)
        x = self.fresh('v')
        en = dict(env)
        if isinstance(node, ast.Name):
            en[node.id] = Val({'optobj': 'obj', 'optresp': 'resp', 'optexcinfo': 'excinfo'}[v.ty], x)
        a, b = self.pair(lambda: knone(env), lambda: ksome(en))
        return self.mopt(v.term, a, x, b)

    @staticmethod
    def merge(a, b, what):
        if a != b:
            raise Problem('the untracked test %s separates two different continuations' % what)
        return a

    @staticmethod
    def ite(c, a, b):
        return a if a == b else '(if %s then %s else %s)' % (c, a, b)

    @staticmethod
    def mopt(s, none, x, some):
        # a match whose branches do not depend on the scrutinee disappears
        if none == some and x not in some.replace('Some', ''):
            return none
        return '(match %s with None => %s | Some %s => %s end)' % (s, none, x, some)

    # ------------------------------------------------------------ statements
    def block(self, stmts, env, k):
        if not stmts:
            return k.normal(env)
        s, rest = stmts[0], stmts[1:]
        cont = K(lambda en: self.block(rest, en, k), k.ret, k.exc)
        return self.stmt(s, rest, env, cont)

    def set_state(self, env, st):
        en = dict(env)
        en['$st'] = st
        return en

    def stmt(self, s, rest, env, k):
        if isinstance(s, ast.Expr) and isinstance(s.value, ast.Constant) and isinstance(s.value.value, str):
            return k.normal(env)                                       # docstring
        if isinstance(s, ast.Pass):
            return k.normal(env)
        if isinstance(s, ast.Return):
            if isinstance(s.value, ast.Call) and self.effectful(s.value, env):
                return self.call(s.value, env, lambda v, en: k.ret(v, en), k)
            if self.kind == 'bool' and not isinstance(s.value, ast.Constant):
                return self.branch(s.value, env, lambda en: k.ret(Val('static', True), en),
                                   lambda en: k.ret(Val('static', False), en))
            return k.ret(self.ev(s.value, env), env)
        if isinstance(s, ast.Raise):
            if s.exc is None:
                if '$caught' not in env:
                    raise Problem('bare raise outside a handler')
                return k.exc(env['$caught'], env)
            if isinstance(s.exc, ast.Call) and self.effectful(s.exc, env):
                return self.call(s.exc, env, None, k)
            v = self.ev(s.exc if not isinstance(s.exc, ast.Call) or not isinstance(s.exc.func, ast.Name)
                        or s.exc.func.id not in CLASSES else s.exc.func, env)
            if v.ty == 'obj':
                return k.exc(v.term, env)
            if v.ty == 'class':
                return k.exc('(fresh_of_class %s site)' % coq_text(v.py), env)
            raise Problem('raise %s' % u(s.exc))
        if isinstance(s, ast.Expr) and isinstance(s.value, ast.Yield) and s.value.value is None:
            if self.kind != 'ctxmgr':
                raise Problem('yield')
            y, st = self.fresh('y'), self.fresh('st')
            e2 = self.fresh('e')
            en = self.set_state(env, st)
            en1 = dict(en)
            en1['$yield'] = y
            return '(match body %s with (WNorm %s, %s) => %s | (WExn %s, %s) => %s end)' % (
                env['$st'], y, st, k.normal(en1), e2, st, k.exc(e2, en))
        if isinstance(s, ast.Expr) and isinstance(s.value, ast.Call):
            if self.effectful(s.value, env):
                return self.call(s.value, env, lambda v, en: k.normal(en), k)
            f = u(s.value.func)
            if f in ('manager.push', 'manager.pop'):
                return k.normal(env)
            raise Problem('%s: statement %s' % (self.fname, u(s)))
        if isinstance(s, ast.Assign) and len(s.targets) == 1:
            t = s.targets[0]
            if isinstance(t, ast.Name):
                if isinstance(s.value, ast.Call) and self.effectful(s.value, env):
                    def after(v, en, name=t.id):
                        en = dict(en)
                        en[name] = v
                        return k.normal(en)
                    return self.call(s.value, env, after, k)
                en = dict(env)
                en[t.id] = self.ev(s.value, env)
                return k.normal(en)
            if isinstance(t, ast.Subscript) and isinstance(t.value, ast.Name):
                tgt = self.ev(t.value, env)
                key = self.ev(t.slice, env)
                if key.ty not in ('str', 'text'):
                    raise Problem('key %s' % u(t.slice))
                en = dict(env)
                # the value may be attrs.pop(k, _marker)
                if isinstance(s.value, ast.Call) and isinstance(s.value.func, ast.Attribute) \
                        and s.value.func.attr == 'pop' and self.ev(s.value.func.value, env).ty == 'attrs' \
                        and len(s.value.args) == 2 and self.ev(s.value.args[1], env).ty == 'marker':
                    pk = self.ev(s.value.args[0], env)
                    pc = self.ev(s.value.func.value, env).comp
                    val = Val('optobj', '%s %s %s' % (self.op(pc, 'get'), pk.term, env['$st']))
                    en['$st'] = '(%s %s %s)' % (self.op(pc, 'del'), pk.term, env['$st'])
                else:
                    val = self.ev(s.value, env)
                if tgt.ty == 'attrs':
                    if val.ty not in ('obj', 'excinfo'):
                        raise Problem('value stored in the request: %s' % u(s.value))
                    en['$st'] = '(%s %s %s %s)' % (self.op(tgt.comp, 'set'), key.term, val.term, en['$st'])
                    return k.normal(en)
                if tgt.ty == 'dict':
                    if val.ty != 'optobj':
                        raise Problem('value stored in a local dict: %s' % u(s.value))
                    en[t.value.id] = Val('dict', '(sset %s (%s) %s)' % (key.term, val.term, tgt.term))
                    return k.normal(en)
            raise Problem('%s: assignment %s' % (self.fname, u(s)))
        if isinstance(s, ast.Delete) and len(s.targets) == 1 and isinstance(s.targets[0], ast.Subscript):
            t = s.targets[0]
            if self.ev(t.value, env).ty == 'attrs':
                key = self.ev(t.slice, env)
                return k.normal(self.set_state(env, '(%s %s %s)' % (self.op(self.ev(t.value, env).comp, 'del'), key.term,
                                                                     env['$st'])))
            raise Problem('del %s' % u(s))
        if isinstance(s, ast.If):
            return self.branch(s.test, env, lambda en: self.block(s.body, en, k),
                               lambda en: self.block(s.orelse, en, k))
        if isinstance(s, ast.Try):
            if s.orelse:
                raise Problem('try/else')
            kk = k
            if s.finalbody:
                fin = s.finalbody
                kk = K(lambda en: self.block(fin, en, K(k.normal, k.ret, k.exc)),
                       lambda v, en: self.block(fin, en, K(lambda e2: k.ret(v, e2), k.ret, k.exc)),
                       lambda e, en: self.block(fin, en, K(lambda e2: k.exc(e, e2), k.ret, k.exc)))
            if s.handlers:
                handlers = s.handlers

                def on_exc(e, en, hs=handlers):
                    if not hs:
                        return kk.exc(e, en)
                    h = hs[0]
                    if h.type is None or not isinstance(h.type, ast.Name) or h.type.id not in CLASSES:
                        raise Problem('except clause %s' % (u(h.type) if h.type else 'bare'))
                    en2 = dict(en)
                    en2['$caught'] = e
                    en2['$handled'] = e
                    if h.name:
                        en2[h.name] = Val('obj', e)
                    return self.ite('isa W %s %s' % (coq_text(h.type.id), e),
                                    *self.pair(lambda: self.block(h.body, en2, kk), lambda: on_exc(e, en, hs[1:])))
                return self.block(s.body, env, K(kk.normal, kk.ret, on_exc))
            return self.block(s.body, env, kk)
        if isinstance(s, ast.With) and len(s.items) == 1 and s.items[0].optional_vars is None:
            ce = s.items[0].context_expr
            if not (isinstance(ce, ast.Call) and u(ce.func) == 'hide_attrs' and ce.args and not ce.keywords
                    and self.ev(ce.args[0], env).ty == 'req' and self.comp_of(self.ev(ce.args[0], env), env) == 'attrs'
                    and all(isinstance(a, ast.Constant) and isinstance(a.value, str) for a in ce.args[1:])):
                raise Problem('with %s' % u(ce))
            names = '[' + '; '.join(coq_text(a.value) for a in ce.args[1:]) + ']'
            live = [v for v in assigned(s.body) if v in loads(rest) and v not in env]
            if len(live) > 1:
                raise Problem('with-block: more than one local is assigned inside and read after it: %s' % live)
            stb, st2, v, e2 = self.fresh('st'), self.fresh('st'), self.fresh('w'), self.fresh('e')

            def body_normal(en):
                if not live:
                    return '(WNorm tt, %s)' % en['$st']
                val = en.get(live[0])
                if val is None or val.ty != 'optresp':
                    raise Problem('the local %s leaving the with-block is not an optional response' % live[0])
                return '(WNorm (%s), %s)' % (val.term, en['$st'])

            def body_ret(val, en):
                raise Problem('return inside a with-block')
            body = self.block(s.body, self.set_state(env, stb),
                              K(body_normal, body_ret, lambda e, en: '(WExn %s, %s)' % (e, en['$st'])))
            en_after = self.set_state(env, st2)
            en_norm = dict(en_after)
            if live:
                en_norm[live[0]] = Val('optresp', v)
            return '(match gen_hide_attrs %s (fun %s => %s) %s with (WNorm %s, %s) => %s | (WExn %s, %s) => %s end)' % (
                names, stb, body, env['$st'], v, st2, k.normal(en_norm), e2, st2, k.exc(e2, en_after))
        if isinstance(s, ast.For) and not s.orelse and isinstance(s.target, ast.Name):
            it = self.ev(s.iter, env)
            if it.ty != 'names':
                raise Problem('loop over %s' % u(s.iter))
            for x in ast.walk(s):
                if isinstance(x, (ast.Break, ast.Continue, ast.Return, ast.Raise, ast.Yield, ast.With, ast.Try)):
                    raise Problem('loop body contains %s' % type(x).__name__)
            carried = [v for v in assigned(s.body) if v in env and env[v].ty == 'dict']
            n = self.fresh('loop')
            l, x, t, st = 'l_' + n, 'x_' + n, 't_' + n, 'st_' + n
            cv = ['c_%s_%d' % (n, i) for i in range(len(carried))]
            inner = self.set_state(env, st)
            for v, c in zip(carried, cv):
                inner[v] = Val('dict', c)
            inner_body = dict(inner)
            inner_body[s.target.id] = Val('text', x)

            def again(en):
                return '(%s %s %s%s)' % (n, t, en['$st'], ''.join(' ' + en[v].term for v in carried))

            def no(*a):
                raise Problem('loop body leaves the loop')
            body = self.block(s.body, inner_body, K(again, no, no))
            nil = k.normal(inner)
            return '((fix %s (%s : list text) (%s : state)%s {struct %s} : %s := match %s with [] => %s | %s :: %s => %s end) %s %s%s)' % (
                n, l, st, ''.join(' (%s : saved)' % c for c in cv), l, self.sigs['ret'], l, nil, x, t, body,
                it.term, env['$st'], ''.join(' ' + env[v].term for v in carried))
        raise Problem('%s: statement %s is not in the subset' % (self.fname, u(s).split('\n')[0]))

    # ------------------------------------------------------------ calls with effects
    def effectful(self, c, env):
        f = u(c.func)
        return f in ('handler', '_error_handler', 'request.invoke_exception_view', '_call_view', 'reraise', 'reraise_')

    def call(self, c, env, after, k):
        f = u(c.func)
        st = env['$st']
        if f == 'handler':
            if len(c.args) != 1 or self.ev(c.args[0], env).ty != 'req' or c.keywords:
                raise Problem('call %s' % u(c))
            r, e = self.fresh('r'), self.fresh('e')
            return '(match ho with Resp %s => %s | Raise %s => %s end)' % (
                r, after(Val('resp', r), env), e, k.exc(e, env))
        if f in ('reraise', 'reraise_'):
            if not (len(c.args) == 1 and isinstance(c.args[0], ast.Starred) and not c.keywords
                    and self.ev(c.args[0].value, env).ty == 'excinfo'):
                raise Problem('call %s' % u(c))
            ei = self.ev(c.args[0].value, env)
            return k.exc('(gen_reraise W (fresh_unknown site) (Some %s))' % ei.term, env)
        if f == '_error_handler':
            a = [self.ev(x, env) for x in c.args]
            if not (len(a) == 2 and a[0].ty == 'req' and a[1].ty == 'obj' and not c.keywords):
                raise Problem('call %s' % u(c))
            term = 'gen_error_handler P W ri site %s %s' % (a[1].term, st)
            return self.outcome_match(term, env, after, k)
        if f == 'request.invoke_exception_view':
            sig = self.sigs['iev_defaults']
            a = [self.ev(x, env) for x in c.args]
            kw = {x.arg: self.ev(x.value, env) for x in c.keywords}
            if not (len(a) == 1 and a[0].ty == 'excinfo' and not kw):
                raise Problem('call %s' % u(c))
            if sig.get('request') is not None:
                raise Problem('invoke_exception_view: the default of request= is not None')
            term = 'gen_iev P W ri false site %s %s %s %s' % (
                'true' if sig['reraise'] else 'false', 'true' if sig['secure'] else 'false', a[0].term, st)
            return self.outcome_match(term, env, after, k)
        if f == '_call_view':
            a = [self.ev(x, env) for x in c.args]
            kw = {x.arg: self.ev(x.value, env) for x in c.keywords}
            ok = len(a) == 5 and a[0].ty == 'registry' and a[1].ty == 'req' and self.comp_of(a[1], env) == 'attrs' \
                and a[2].ty == 'obj' \
                and a[3].ty == 'ctxiface' and a[3].term == a[2].term and a[4].ty == 'str' \
                and set(kw) == {'view_types', 'view_classifier', 'secure', 'request_iface'} \
                and kw['view_types'].ty == 'none' and kw['view_classifier'].ty == 'global' \
                and kw['view_classifier'].py == 'IExceptionViewClassifier' and kw['secure'].ty == 'bool' \
                and kw['request_iface'].ty == 'riface'
            if not ok:
                raise Problem('_call_view arguments: %s' % u(c))
            rq = '(exc_request_raw %s %s %s W ri %s)' % ('true' if kw['request_iface'].own else 'false',
                                                        'true' if kw['request_iface'].combined else 'false',
                                                        a[4].term, a[2].term)
            term = 'prim_call_view P W ri site %s %s %s %s' % (kw['secure'].term, a[2].term, rq, st)
            r, e, st2 = self.fresh('r'), self.fresh('e'), self.fresh('st')
            en = self.set_state(env, st2)
            return '(match %s with (LNone, %s) => %s | (LResp %s, %s) => %s | (LRaise %s, %s) => %s end)' % (
                term, st2, after(Val('optresp', 'None'), en), r, st2, after(Val('optresp', 'Some ' + r), en),
                e, st2, k.exc(e, en))
        raise Problem('call %s' % u(c))

    def outcome_match(self, term, env, after, k):
        r, e, st2 = self.fresh('r'), self.fresh('e'), self.fresh('st')
        en = self.set_state(env, st2)
        return '(match %s with (Resp %s, %s) => %s | (Raise %s, %s) => %s end)' % (
            term, r, st2, after(Val('resp', r), en), e, st2, k.exc(e, en))


# ---------------------------------------------------------------- the functions
def _find(tree, qual):
    node = tree
    for part in qual.split('.'):
        nxt = None
        for ch in ast.walk(node):
            if ch is not node and isinstance(ch, (ast.FunctionDef, ast.ClassDef)) and ch.name == part:
                nxt = ch
                break
        if nxt is None:
            raise Problem('%s not found' % qual)
        node = nxt
    return node


def _params(fn):
    return [a.arg for a in fn.args.args], (fn.args.vararg.arg if fn.args.vararg else None)


def _defaults(fn):
    names = [a.arg for a in fn.args.args]
    ds = fn.args.defaults
    out = {}
    for n, d in zip(names[len(names) - len(ds):], ds):
        if not isinstance(d, ast.Constant):
            raise Problem('default of %s' % n)
        out[n] = d.value
    return out


def _resp_term(v):
    if v.ty == 'resp':
        return 'Resp ' + v.term
    raise Problem('the function returns something that is not a response')


# module-level bindings the primitive table relies on: (file, local name) -> (module, original name)
BINDINGS = {
    ('pyramid/tweens.py', 'HTTPNotFound'): ('pyramid.httpexceptions', 'HTTPNotFound'),
    ('pyramid/tweens.py', 'reraise'): ('pyramid.util', 'reraise'),
    ('pyramid/tweens.py', 'sys'): (None, 'sys'),
    ('pyramid/view.py', 'HTTPNotFound'): ('pyramid.httpexceptions', 'HTTPNotFound'),
    ('pyramid/view.py', 'reraise_'): ('pyramid.util', 'reraise'),
    ('pyramid/view.py', 'hide_attrs'): ('pyramid.util', 'hide_attrs'),
    ('pyramid/view.py', 'providedBy'): ('zope.interface', 'providedBy'),
    ('pyramid/view.py', 'manager'): ('pyramid.threadlocal', 'manager'),
    ('pyramid/view.py', 'get_current_registry'): ('pyramid.threadlocal', 'get_current_registry'),
    ('pyramid/view.py', 'IExceptionViewClassifier'): ('pyramid.interfaces', 'IExceptionViewClassifier'),
    ('pyramid/view.py', 'IRequest'): ('pyramid.interfaces', 'IRequest'),
    ('pyramid/view.py', 'sys'): (None, 'sys'),
    ('pyramid/util.py', 'contextmanager'): ('contextlib', 'contextmanager'),
    ('pyramid/config/views.py', 'IException'): ('pyramid.interfaces', 'IException'),
    ('pyramid/config/views.py', 'IInterface'): ('zope.interface.interfaces', 'IInterface'),
    ('pyramid/config/views.py', 'inspect'): (None, 'inspect'),
}


def check_bindings(trees):
    """each name of the table is bound exactly once at module level, by the expected import; the names the table
    treats as module constants (_marker) by the expected statement"""
    for (rel, local), (mod, orig) in BINDINGS.items():
        tree = trees[rel]
        found = []
        for st in tree.body:
            if isinstance(st, ast.ImportFrom):
                for a in st.names:
                    if (a.asname or a.name) == local:
                        found.append((st.module, a.name))
            elif isinstance(st, ast.Import):
                for a in st.names:
                    if (a.asname or a.name) == local:
                        found.append((None, a.name))
            elif isinstance(st, (ast.Assign, ast.FunctionDef, ast.ClassDef)):
                names = [t.id for t in getattr(st, 'targets', []) if isinstance(t, ast.Name)] + \
                    ([st.name] if not isinstance(st, ast.Assign) else [])
                if local in names:
                    found.append(('<rebound>', local))
        if found != [(mod, orig)]:
            raise Problem('%s: the name %s is bound by %s, expected import of %s from %s' % (rel, local, found, orig, mod))
    mk = [st for st in trees['pyramid/util.py'].body if isinstance(st, ast.Assign)
          and any(isinstance(t, ast.Name) and t.id == '_marker' for t in st.targets)]
    if len(mk) != 1 or u(mk[0].value) != 'object()':
        raise Problem('pyramid/util.py: _marker is no longer a fresh object()')


def translate(src):
    """-> {'gen_hide_attrs': text, ...} (Coq definitions, in dependency order)"""
    out = {}

    def parse(rel):
        with open(os.path.join(src, rel)) as f:
            return ast.parse(f.read())
    util, view, tweens = parse('pyramid/util.py'), parse('pyramid/view.py'), parse('pyramid/tweens.py')
    httpexc, cviews = parse('pyramid/httpexceptions.py'), parse('pyramid/config/views.py')
    check_bindings({'pyramid/util.py': util, 'pyramid/view.py': view, 'pyramid/tweens.py': tweens,
                    'pyramid/config/views.py': cviews})

    # hide_attrs
    fn = _find(util, 'hide_attrs')
    ps, va = _params(fn)
    if ps != ['obj'] or va is None or not any(u(d) == 'contextmanager' for d in fn.decorator_list):
        raise Problem('hide_attrs: signature / decorator')
    tr = Tr('hide_attrs', 'ctxmgr', {'ret': 'wres A * state'})
    env = {'obj': Val('req', who='target'), va: Val('names', 'names'), '$st': 'st'}
    k = K(lambda en: '(%s, %s)' % ('WNorm ' + en['$yield'] if '$yield' in en else _no('hide_attrs ends without yield'),
                                  en['$st']),
          lambda v, en: _no('hide_attrs returns'), lambda e, en: '(WExn %s, %s)' % (e, en['$st']))
    body = tr.block(fn.body, env, k)
    out['gen_hide_attrs'] = ('Definition gen_hide_attrs {A : Type} (names : list text) (body : state -> wres A * state) '
                             '(st : state) : wres A * state :=\n  %s.' % body)

    # reraise
    fn = _find(util, 'reraise')
    ps, va = _params(fn)
    if ps != ['tp', 'value', 'tb'] or va or _defaults(fn) != {'tb': None}:
        raise Problem('reraise: signature')
    tr = Tr('reraise', 'raises', {})
    env = {'tp': Val('classparam', 'fresh'), 'value': Val('optobj', 'value'), 'tb': Val('tb'), '$st': 'tt'}
    k = K(lambda en: _no('reraise ends without raising'), lambda v, en: _no('reraise returns'), lambda e, en: e)
    out['gen_reraise'] = 'Definition gen_reraise (W : world) (fresh : N) (value : option N) : N :=\n  %s.' % \
        tr.block(fn.body, env, k)

    # invoke_exception_view
    fn = _find(view, 'ViewMethodsMixin.invoke_exception_view')
    ps, va = _params(fn)
    dflt = _defaults(fn)
    if ps != ['self', 'exc_info', 'request', 'secure', 'reraise'] or va or \
            dflt != {'exc_info': None, 'request': None, 'secure': True, 'reraise': False}:
        raise Problem('invoke_exception_view: signature %s %s' % (ps, dflt))
    tr = Tr('invoke_exception_view', 'outcome', {})
    env = {'self': Val('req', who='self'), 'exc_info': Val('optexcinfo', 'optinfo'), 'request': Val('optreq'),
           'secure': Val('bool', 'sec'), 'reraise': Val('bool', 'rr'), '$st': 'st', '$handled': 'e'}
    k = K(lambda en: _no('invoke_exception_view ends without return'),
          lambda v, en: '(%s, %s)' % (_resp_term(v), en['$st']), lambda e, en: '(Raise %s, %s)' % (e, en['$st']))
    body = tr.block(fn.body, env, k)
    if 'optinfo' in body:
        raise Problem('invoke_exception_view: the result depends on whether exc_info was passed')
    out['gen_iev'] = ('Definition gen_iev (P : params) (W : world) (ri : rinfo) (oth : bool) (site : N) (rr sec : bool) (e : N) '
                      '(st : state) : outcome * state :=\n  %s.' % body)

    # _error_handler
    fn = _find(tweens, '_error_handler')
    ps, va = _params(fn)
    if ps != ['request', 'exc'] or va:
        raise Problem('_error_handler: signature')
    tr = Tr('_error_handler', 'outcome', {'iev_defaults': dflt})
    env = {'request': Val('req', who='target'), 'exc': Val('obj', 'e'), '$st': 'st', '$handled': 'e'}
    k = K(lambda en: _no('_error_handler ends without return'),
          lambda v, en: '(%s, %s)' % (_resp_term(v), en['$st']), lambda e, en: '(Raise %s, %s)' % (e, en['$st']))
    out['gen_error_handler'] = ('Definition gen_error_handler (P : params) (W : world) (ri : rinfo) (site : N) (e : N) '
                                '(st : state) : outcome * state :=\n  %s.' % tr.block(fn.body, env, k))

    # excview_tween
    fac = _find(tweens, 'excview_tween_factory')
    fps, _ = _params(fac)
    fn = _find(tweens, 'excview_tween_factory.excview_tween')
    ps, va = _params(fn)
    if fps != ['handler', 'registry'] or ps != ['request'] or va:
        raise Problem('excview_tween: signature')
    fbody = [x for x in fac.body if not (isinstance(x, ast.Expr) and isinstance(x.value, ast.Constant))]
    if not (len(fbody) == 2 and fbody[0] is fn and isinstance(fbody[1], ast.Return) and u(fbody[1].value) == 'excview_tween'
            and not fac.decorator_list and not fn.decorator_list):
        raise Problem('excview_tween_factory is no longer "def excview_tween ..; return excview_tween"')
    tr = Tr('excview_tween', 'outcome', {})
    env = {'request': Val('req', who='target'), '$st': 'st'}
    out['gen_excview_tween'] = ('Definition gen_excview_tween (P : params) (W : world) (ri : rinfo) (site : N) '
                                '(ho : outcome) (st : state) : outcome * state :=\n  %s.' % tr.block(fn.body, env, k))

    # default_exceptionresponse_view
    fn = _find(httpexc, 'default_exceptionresponse_view')
    ps, va = _params(fn)
    if ps != ['context', 'request'] or va:
        raise Problem('default_exceptionresponse_view: signature')
    tr = Tr('default_exceptionresponse_view', 'pure', {})
    env = {'context': Val('obj', 'ctx'), 'request': Val('req', who='target'), '$st': 'st'}

    def ret_obj(v, en):
        if v.ty != 'obj':
            raise Problem('default_exceptionresponse_view returns %s' % v.ty)
        return v.term
    k2 = K(lambda en: _no('default_exceptionresponse_view ends without return'), ret_obj,
           lambda e, en: _no('default_exceptionresponse_view raises'))
    out['gen_default_view'] = 'Definition gen_default_view (W : world) (ctx : N) (st : state) : N :=\n  %s.' % \
        tr.block(fn.body, env, k2)

    # isexception
    fn = _find(cviews, 'isexception')
    ps, va = _params(fn)
    if ps != ['o'] or va:
        raise Problem('isexception: signature')
    tr = Tr('isexception', 'bool', {})
    env = {'o': Val('ctxobj', 'c'), '$st': 'tt'}

    def ret_bool(v, en):
        if v.ty != 'static':
            raise Problem('isexception returns %s' % v.ty)
        return 'true' if v.term else 'false'
    k3 = K(lambda en: _no('isexception ends without return'), ret_bool, lambda e, en: _no('isexception raises'))
    out['gen_isexception'] = 'Definition gen_isexception (c : ctxbits) : bool :=\n  %s.' % tr.block(fn.body, env, k3)
    return out


def _no(msg):
    raise Problem(msg)


ORDER = ['gen_hide_attrs', 'gen_reraise', 'gen_iev', 'gen_error_handler', 'gen_excview_tween', 'gen_default_view',
         'gen_isexception']


def generate(src, problems):
    """Coq text of the regenerated definitions (the fallback for whatever could not be translated)"""
    try:
        defs = translate(src)
    except Problem as e:
        problems.append('translator: %s -- the stored fallback text is emitted' % e)
        defs = None
    except Exception as e:          # fail closed
        problems.append('translator failed: %r -- the stored fallback text is emitted' % e)
        defs = None
    if defs is None:
        with open(FALLBACK) as f:
            defs = json.load(f)
    return '\n'.join(defs[n] + '\n' for n in ORDER)


if __name__ == '__main__':
    import sys
    src = sys.argv[1] if len(sys.argv) > 1 else '/repo/src'
    d = translate(src)
    if '--write-fallback' in sys.argv:
        with open(FALLBACK, 'w') as f:
            json.dump(d, f, indent=1, sort_keys=True)
    for n in ORDER:
        print(d[n])
        print()
