"""Instrumented pieces of the C14 application (public seams only): three tweens around the excview tween,
a root factory, a security policy, view bodies.  Every piece finds the scenario of its request in
request.environ['c14'] (an Env) and appends numeric events there; the numbering is that of coq/Model/C14.v."""
import warnings

ABSENT = object()
CTX_RESOURCE = 3000
ORIGIN_BASE = {'H': 1000, 'I': 1010, 'X': 1020}
H_IDS = {'HTTPNotFound': 1000, 'PredicateMismatch': 1001, 'HTTPForbidden': 1002, 'ValueError': 1032}
F_IDS = {'HTTPNotFound': 0, 'PredicateMismatch': 1, 'ValueError': 2, 'HTTPForbidden': 3}


class Env:
    def __init__(self, world, scn):
        self.world, self.scn = world, scn
        self.log = []
        self.objs = {}        # exception id -> instance (one per request)
        self.seen = []        # framework-made exception objects: (obj, id)
        self.fin = ABSENT
        self.final = None
        self.causes = {}      # exception id -> the object it was raised `from`

    def exc(self, i):
        if i not in self.objs:
            self.objs[i] = self.world.make_exc(i)
        return self.objs[i]

    def throw(self, i):
        """raise exception i the way its declaration says: plainly, `from` a cause, or while another exception is
        being handled (implicit __context__)"""
        e = self.exc(i)
        kind = self.world.case['excs'][i].get('chain')
        if kind == 'cause':
            if i not in self.causes:
                self.causes[i] = RuntimeError('c14-cause-%d' % i)
            raise e from self.causes[i]
        if kind == 'context':
            try:
                raise LookupError('c14-context-%d' % i)
            except LookupError:
                raise e
        raise e

    def chain_state(self, e):
        """[the propagated object still carries the chaining information it was raised with]"""
        i = getattr(e, 'c14_id', None)
        if i is None:
            return None
        kind = self.world.case['excs'][i].get('chain')
        if kind == 'cause':
            want = (self.causes.get(i), True)
        else:
            want = (None, False)
        got = (e.__cause__, bool(e.__suppress_context__))
        if got[0] is want[0] and got[1] == want[1]:
            return None
        return [i, kind or 'plain', 'cause-' + ('kept' if got[0] is want[0] else 'changed'),
                'suppress_context-%s' % got[1]]

    def note(self, obj, origin):
        if getattr(obj, 'c14_id', None) is not None:
            return obj.c14_id
        for o, i in self.seen:
            if o is obj:
                return i
        n = type(obj).__name__
        if origin == 'H':
            i = H_IDS.get(n, 1009)
        else:
            i = ORIGIN_BASE[origin] + F_IDS.get(n, 9)
        self.seen.append((obj, i))
        return i

    def lab(self, obj):
        return self.note(obj, 'X')

    def snapshot(self, request):
        d = request.__dict__
        out = []
        r = d.get('response', ABSENT)
        if r is ABSENT:
            out.append([])
        else:
            t = getattr(r, 'headers', {}).get('X-C14-Resp')
            out.append([2000 + int(t)] if t is not None else [9997])
        ei = d.get('exc_info', ABSENT)
        if ei is ABSENT:
            out.append([])
        elif isinstance(ei, tuple) and len(ei) == 3 and isinstance(ei[1], BaseException) and ei[0] is type(ei[1]):
            out.append([self.lab(ei[1])])
        else:
            out.append([9998])
        e = d.get('exception', ABSENT)
        if e is ABSENT:
            out.append([])
        elif isinstance(e, BaseException):
            out.append([self.lab(e)])
        else:
            out.append([9998])
        return out

    def outcome(self, resp):
        if isinstance(resp, BaseException):
            return [1, self.lab(resp), int(getattr(resp, 'status_int', 0))]
        t = getattr(resp, 'headers', {}).get('X-C14-Tag')
        return [0, int(t) if t is not None else 9999]


def _env(request):
    return request.environ['c14']


def observer_factory(handler, registry):
    def observer(request):
        if request.environ.get('c14.sub'):
            # a subrequest sent through the tweens: observed at the outer level only (what its own excview tween
            # makes is labelled as made there)
            try:
                return handler(request)
            except BaseException as e:
                _env(request).note(e, 'X')
                raise
        env = _env(request)
        p = env.scn['preset']
        if p is not None:
            e = env.exc(p)
            request.exception = e
            request.exc_info = (type(e), e, None)

        def fin(req):
            x = req.__dict__.get('exception', ABSENT)
            env.fin = [] if x is ABSENT else [env.lab(x) if isinstance(x, BaseException) else 9998]
        request.add_finished_callback(fin)
        try:
            resp = handler(request)
        except BaseException as e:
            env.final = [[2, env.lab(e)], env.snapshot(request)]
            raise
        env.final = [env.outcome(resp), env.snapshot(request)]
        return resp
    return observer


def probe_factory(handler, registry):
    def probe(request):
        if request.environ.get('c14.sub'):
            return handler(request)
        env = _env(request)
        try:
            resp = handler(request)
        except BaseException as e:
            env.log.append([2, [2, env.lab(e)], env.snapshot(request)])
            raise
        env.log.append([2, env.outcome(resp), env.snapshot(request)])
        return resp
    return probe


def under_factory(handler, registry):
    def under(request):
        if request.environ.get('c14.sub'):
            try:
                return handler(request)
            except BaseException as e:
                _env(request).note(e, 'H')
                raise
        env = _env(request)
        prog = env.scn['under']
        if prog[0] == 'sub':
            # the handler is NOT called for this request: a fresh request for the same URL is dispatched through
            # request.invoke_subrequest (use_tweens passed only when the program says so)
            sub = env.world.request(env.scn['r'])
            sub.environ['c14'] = env
            sub.environ['c14.sub'] = True
            kw = {} if prog[1] is None else {'use_tweens': bool(prog[1])}
            try:
                return request.invoke_subrequest(sub, **kw)
            except BaseException as e:
                env.note(e, 'H')
                raise
        if prog[0] == 'raise':
            env.throw(prog[1])
        if prog[0] == 'retry':
            # the same request object dispatched twice: the second time to another (unrouted) path
            try:
                handler(request)
            except BaseException as e:
                env.note(e, 'H')
            request.path_info = '/' + prog[1]
            try:
                return handler(request)
            except BaseException as e:
                env.note(e, 'H')
                raise
        try:
            resp = handler(request)
        except BaseException as e:
            env.note(e, 'H')
            if prog[0] == 'catch' and isinstance(e, Exception):
                before = env.snapshot(request)
                # via: the method is called on ANOTHER request object, the failed one is passed as request=
                if prog[3]:
                    from pyramid.request import Request
                    caller = Request.blank('/')
                    caller.registry = request.registry
                    kw = {'request': request}
                else:
                    caller, kw = request, {}

                def ctl_events():
                    if caller is request:
                        return []
                    snap = env.snapshot(caller)
                    return [[4, i, v] for i, v in enumerate(snap) if v != []]
                try:
                    resp = caller.invoke_exception_view(reraise=bool(prog[1]), secure=bool(prog[2]), **kw)
                except BaseException as e2:
                    env.note(e2, 'I')
                    env.log.extend(ctl_events())
                    env.log.append([1, env.lab(e), before, [2, env.lab(e2)], env.snapshot(request)])
                    raise
                env.log.extend(ctl_events())
                env.log.append([1, env.lab(e), before, env.outcome(resp), env.snapshot(request)])
            else:
                raise
        if prog[0] == 'catch' and prog[4] is not None:
            env.throw(prog[4])
        return resp
    return under


class Root:
    __name__ = ''
    __parent__ = None

    def __getitem__(self, k):
        raise KeyError(k)


ROOT = Root()


def root_factory(request):
    env = _env(request)
    r = env.scn['root_raise']
    if r is not None:
        env.throw(r)
    return ROOT


class Policy:
    def identity(self, request):
        return None

    def authenticated_userid(self, request):
        return None

    def permits(self, request, context, permission):
        from pyramid.security import Allowed, Denied
        return Denied('no') if _env(request).scn['deny'] else Allowed('ok')

    def remember(self, request, userid, **kw):
        return []

    def forget(self, request, **kw):
        return []


def make_body(tag, touch, act, falsy=False):
    """act: ['ret'] | ['ctx'] | ['raise', exc id]; falsy: the response object returned is falsy (empty body + __len__ /
    __bool__)"""
    from pyramid.response import Response

    class SizedResponse(Response):          # len(response) = size of the body: an empty one is falsy
        def __len__(self):
            return len(self.body)

    class QuietResponse(Response):
        def __bool__(self):
            return False
    from pyramid.httpexceptions import default_exceptionresponse_view

    def body(context, request):
        env = _env(request)
        c = env.lab(context) if isinstance(context, BaseException) else CTX_RESOURCE
        env.log.append([0, tag, c, env.snapshot(request)])
        if touch:
            request.response.headers['X-C14-Resp'] = str(tag)
        if act[0] == 'ret':
            resp = (SizedResponse(b'') if tag % 2 else QuietResponse('ok')) if falsy else Response('ok')
            resp.headers['X-C14-Tag'] = str(tag)
            return resp
        if act[0] == 'ctx':
            return default_exceptionresponse_view(context, request)
        env.throw(act[1])
    body.c14_tag = tag
    return body


class Custom:
    def __init__(self, i):
        self.i = i

    def __hash__(self):
        return self.i

    def __eq__(self, o):
        return isinstance(o, Custom) and o.i == self.i

    def __call__(self, context, request):
        return self.i in _env(request).scn['truth']


warnings.simplefilter('ignore')
