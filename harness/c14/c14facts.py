"""Value facts for C14, read with the ast module (fail-closed): every unknown shape is reported as a
problem and the default value is emitted so that Gen/Facts_C14.v still type-checks."""
import ast
from harness.common import facts as F

# predicate parameters of add_notfound_view / add_forbidden_view, in signature order (model name: custom)
DIRECTIVE_PREDS = ['request_method', 'request_param', 'containment', 'xhr', 'accept', 'header', 'path_info', 'custom',
                   'match_param']
NOT_FORWARDED_OK = {'append_slash'}      # consumed by the directive itself

DEFAULTS = {
    'hidden_names': ['response', 'exc_info', 'exception'],
    'set_in_with': ['exception', 'exc_info'],
    'set_after': ['exception', 'exc_info'],
    'uses_combined': True,
    'lookup_uses_provided_by': True,
    'exc_view_name': '',
    'exc_classifier': 'IExceptionViewClassifier',
    'iev_none_raises': 'HTTPNotFound',
    'iev_reraise_catches': 'Exception',
    'handler_catches': 'HTTPNotFound',
    'handler_reraises_original': True,
    'tween_catches': 'Exception',
    'default_excview_contexts': ['IExceptionResponse', 'WebobWSGIHTTPException'],
    'nf_context': 'HTTPNotFound', 'nf_exception_only': True,
    'fb_context': 'HTTPForbidden', 'fb_exception_only': True,
    'exc_default_context': 'Exception', 'exc_exception_only': True,
    'default_view_returns_context': True,
    'permissive_checks_predicates': False,
    'nf_forwards': list(DIRECTIVE_PREDS), 'fb_forwards': list(DIRECTIVE_PREDS),
    'viewdefaults_on': ['add_view', 'add_exception_view', 'add_notfound_view', 'add_forbidden_view'],
    'containment_reads_request_context': True, 'physical_path_reads_request_context': False,
    'subrequest_use_tweens_default': False,
}


def _name(n):
    return n.id if isinstance(n, ast.Name) else None


def _sub_assign(st, obj):
    """attrs['k'] = name  ->  (k, name) or None"""
    if isinstance(st, ast.Assign) and len(st.targets) == 1 and isinstance(st.targets[0], ast.Subscript):
        t = st.targets[0]
        if _name(t.value) == obj and isinstance(t.slice, ast.Constant) and isinstance(t.slice.value, str):
            return (t.slice.value, _name(st.value))
    return None


def _iev(src, v, problems):
    m = F.Module(src, 'pyramid/view.py')
    fn = m.find('ViewMethodsMixin.invoke_exception_view')
    if fn is None:
        problems.append('invoke_exception_view not found')
        return
    withs = [s for s in fn.body if isinstance(s, ast.With)]
    if len(withs) != 1:
        problems.append('invoke_exception_view: expected exactly one with-statement')
        return
    w = withs[0]
    ce = w.items[0].context_expr if len(w.items) == 1 else None
    if not (isinstance(ce, ast.Call) and _name(ce.func) == 'hide_attrs' and ce.args and _name(ce.args[0]) == 'request'
            and all(isinstance(a, ast.Constant) and isinstance(a.value, str) for a in ce.args[1:]) and not ce.keywords):
        problems.append('invoke_exception_view: with hide_attrs(request, <names>) unrecognised')
    else:
        v['hidden_names'] = [a.value for a in ce.args[1:]]
    want_val = {'exception': 'exc', 'exc_info': 'exc_info'}
    inside = [x for x in (_sub_assign(s, 'attrs') for s in w.body) if x]
    if not inside or any(want_val.get(k) != val for k, val in inside):
        problems.append('invoke_exception_view: assignments to attrs[...] inside the with-block unrecognised: %r' % inside)
    else:
        v['set_in_with'] = [k for k, _ in inside]
    idx = fn.body.index(w)
    after = [x for x in (_sub_assign(s, 'attrs') for s in fn.body[idx + 1:]) if x]
    if any(want_val.get(k) != val for k, val in after):
        problems.append('invoke_exception_view: assignments to attrs[...] after the with-block unrecognised: %r' % after)
    else:
        v['set_after'] = [k for k, _ in after]
    # context_iface = providedBy(exc)
    ok = False
    for s in fn.body:
        if isinstance(s, ast.Assign) and len(s.targets) == 1 and _name(s.targets[0]) == 'context_iface':
            c = s.value
            ok = isinstance(c, ast.Call) and _name(c.func) == 'providedBy' and len(c.args) == 1 and _name(c.args[0]) == 'exc' \
                and not c.keywords
    if not ok:
        problems.append('invoke_exception_view: context_iface is no longer providedBy(exc) -- the model looks the '
                        'views up by what the raised object provides')
        v['lookup_uses_provided_by'] = False
    # exc = exc_info[1]
    ok = any(isinstance(s, ast.Assign) and len(s.targets) == 1 and _name(s.targets[0]) == 'exc'
             and isinstance(s.value, ast.Subscript) and _name(s.value.value) == 'exc_info'
             and isinstance(s.value.slice, ast.Constant) and s.value.slice.value == 1 for s in fn.body)
    if not ok:
        problems.append('invoke_exception_view: exc = exc_info[1] unrecognised')
    # the _call_view call
    calls = [n for n in ast.walk(w) if isinstance(n, ast.Call) and _name(n.func) == '_call_view']
    if len(calls) != 1:
        problems.append('invoke_exception_view: expected one _call_view call in the with-block')
    else:
        c = calls[0]
        kw = {k.arg: k.value for k in c.keywords}
        args = c.args
        if not (len(args) == 5 and [_name(a) for a in args[:4]] == ['registry', 'request', 'exc', 'context_iface']
                and isinstance(args[4], ast.Constant) and isinstance(args[4].value, str)):
            problems.append('invoke_exception_view: positional arguments of _call_view unrecognised')
        else:
            v['exc_view_name'] = args[4].value
        ri = kw.get('request_iface')
        if isinstance(ri, ast.Attribute) and _name(ri.value) == 'request_iface' and ri.attr == 'combined':
            v['uses_combined'] = True
        elif _name(ri) == 'request_iface':
            v['uses_combined'] = False
        else:
            problems.append('invoke_exception_view: request_iface= argument of _call_view unrecognised')
        vc = kw.get('view_classifier')
        if _name(vc) is None:
            problems.append('invoke_exception_view: view_classifier= unrecognised')
        else:
            v['exc_classifier'] = _name(vc)
        if not (isinstance(kw.get('view_types'), ast.Constant) and kw['view_types'].value is None):
            problems.append('invoke_exception_view: view_types= is no longer None')
    # try/except around the call
    trys = [s for s in w.body if isinstance(s, ast.Try)]
    if len(trys) == 1 and len(trys[0].handlers) == 1 and _name(trys[0].handlers[0].type):
        v['iev_reraise_catches'] = _name(trys[0].handlers[0].type)
    else:
        problems.append('invoke_exception_view: try/except around _call_view unrecognised')
    # if response is None: ... raise HTTPNotFound
    found = None
    for s in fn.body[idx + 1:]:
        if isinstance(s, ast.If) and isinstance(s.test, ast.Compare) and _name(s.test.left) == 'response' \
                and len(s.test.ops) == 1 and isinstance(s.test.ops[0], ast.Is) \
                and isinstance(s.test.comparators[0], ast.Constant) and s.test.comparators[0].value is None:
            last = s.body[-1]
            if isinstance(last, ast.Raise) and _name(last.exc):
                found = _name(last.exc)
    if found is None:
        problems.append('invoke_exception_view: "if response is None: ... raise X" unrecognised')
    else:
        v['iev_none_raises'] = found


def _tweens(src, v, problems):
    m = F.Module(src, 'pyramid/tweens.py')
    eh = m.find('_error_handler')
    trys = [s for s in (eh.body if eh else []) if isinstance(s, ast.Try)]
    if len(trys) == 1 and len(trys[0].handlers) == 1 and _name(trys[0].handlers[0].type):
        h = trys[0].handlers[0]
        v['handler_catches'] = _name(h.type)
        b = h.body
        ok = len(b) == 1 and isinstance(b[0], ast.Expr) and isinstance(b[0].value, ast.Call) \
            and _name(b[0].value.func) == 'reraise' and len(b[0].value.args) == 1 \
            and isinstance(b[0].value.args[0], ast.Starred) and _name(b[0].value.args[0].value) == 'exc_info'
        if not ok:
            problems.append('_error_handler: the except body is no longer reraise(*exc_info)')
            v['handler_reraises_original'] = False
    else:
        problems.append('_error_handler: try/except unrecognised')
    tw = m.find('excview_tween_factory.excview_tween')
    trys = [s for s in (tw.body if tw else []) if isinstance(s, ast.Try)]
    if len(trys) == 1 and len(trys[0].handlers) == 1 and _name(trys[0].handlers[0].type):
        v['tween_catches'] = _name(trys[0].handlers[0].type)
    else:
        problems.append('excview_tween: try/except unrecognised')


def _kwconst(call, name):
    for k in call.keywords:
        if k.arg == name:
            return k.value
    return None


def _config(src, v, problems):
    m = F.Module(src, 'pyramid/config/__init__.py')
    fn = m.find('Configurator.setup_registry')
    ctxs = []
    bad = fn is None
    for n in (ast.walk(fn) if fn else []):
        if isinstance(n, ast.Call) and isinstance(n.func, ast.Attribute) and n.func.attr == 'add_view' \
                and _name(n.func.value) == 'self':
            c = _kwconst(n, 'context')
            if len(n.args) == 1 and _name(n.args[0]) == 'exceptionresponse_view' and _name(c) and len(n.keywords) == 1:
                ctxs.append((n.lineno, _name(c)))
            else:
                bad = True
    if bad:
        problems.append('Configurator.setup_registry: default exception-response view registrations unrecognised')
    else:
        v['default_excview_contexts'] = [c for _, c in sorted(ctxs)]
    mv = F.Module(src, 'pyramid/config/views.py')
    for meth, pfx in (('add_notfound_view', 'nf'), ('add_forbidden_view', 'fb')):
        fn = mv.find('ViewsConfiguratorMixin.' + meth)
        got = None
        for n in (ast.walk(fn) if fn else []):
            if isinstance(n, ast.Assign) and len(n.targets) == 1 and _name(n.targets[0]) == 'settings' \
                    and isinstance(n.value, ast.Call) and _name(n.value.func) == 'dict':
                c, x = _kwconst(n.value, 'context'), _kwconst(n.value, 'exception_only')
                if _name(c) and isinstance(x, ast.Constant) and isinstance(x.value, bool):
                    got = (_name(c), x.value)
        if got is None:
            problems.append('%s: settings = dict(context=..., exception_only=...) unrecognised' % meth)
        else:
            v[pfx + '_context'], v[pfx + '_exception_only'] = got
    fn = mv.find('ViewsConfiguratorMixin.add_exception_view')
    dflt, xo = None, None
    for n in (ast.walk(fn) if fn else []):
        if isinstance(n, ast.If) and isinstance(n.test, ast.Compare) and _name(n.test.left) == 'context' \
                and isinstance(n.test.ops[0], ast.Is) and len(n.body) == 1 and isinstance(n.body[0], ast.Assign) \
                and _name(n.body[0].targets[0]) == 'context':
            dflt = _name(n.body[0].value)
        if isinstance(n, ast.Call) and _name(n.func) == 'dict':
            x = _kwconst(n, 'exception_only')
            if isinstance(x, ast.Constant) and isinstance(x.value, bool):
                xo = x.value
    if dflt is None or xo is None:
        problems.append('add_exception_view: default context / exception_only unrecognised')
    else:
        v['exc_default_context'], v['exc_exception_only'] = dflt, xo


ADD_VIEW_STATEMENTS = [
    "isexc = isexception(context)",
    "if exception_only and not isexc:\n    raise ConfigurationError('view \"context\" must be an exception type when \"exception_only\" is True')",
    "r_context = context",
    "if r_context is None:\n    r_context = Interface",
    "if not IInterface.providedBy(r_context):\n    r_context = implementedBy(r_context)",
    "if context is None:\n    context = for_",
]


def _add_view(src, v, problems):
    """the few statements of the (long) add_view body the model follows: exact statement pins"""
    m = F.Module(src, 'pyramid/config/views.py')
    fn = m.find('ViewsConfiguratorMixin.add_view')
    have = [ast.dump(s) for s in (fn.body if fn else [])]
    pos = []
    for text in ADD_VIEW_STATEMENTS:
        want = ast.dump(ast.parse(text).body[0])
        if want not in have:
            problems.append('add_view: statement no longer present: %s' % text.split('\n')[0])
        else:
            pos.append(have.index(want))
    if pos != sorted(pos) and len(pos) == len(ADD_VIEW_STATEMENTS):
        pass
    order = [have.index(ast.dump(ast.parse(t).body[0])) for t in ADD_VIEW_STATEMENTS
             if ast.dump(ast.parse(t).body[0]) in have]
    # "context = for_" precedes isexc; isexc precedes the check; the check precedes r_context
    want_order = [5, 0, 1, 2, 3, 4]
    if len(order) == len(ADD_VIEW_STATEMENTS) and [order[i] for i in want_order] != sorted(order):
        problems.append('add_view: the exception-context statements changed their order')


PERMISSIVE_OLD = """
if not secure:
    view_callable = getattr(view_callable, '__call_permissive__', view_callable)
"""
PERMISSIVE_NEW = """
if not secure:
    permissive = getattr(view_callable, '__call_permissive__', None)
    if permissive is not None:
        predicated = getattr(view_callable, '__predicated__', None)
        if predicated is not None and not predicated(context, request):
            raise PredicateMismatch(view_name)
        view_callable = permissive
"""


def _permissive(src, v, problems):
    """_call_view: what secure=False does (finding C14-permissive-skips-predicates and its repair)"""
    m = F.Module(src, 'pyramid/view.py')
    fn = m.find('_call_view')
    blocks = [n for n in (ast.walk(fn) if fn else []) if isinstance(n, ast.If) and isinstance(n.test, ast.UnaryOp)
              and isinstance(n.test.op, ast.Not) and _name(n.test.operand) == 'secure']
    if len(blocks) != 1:
        problems.append('_call_view: "if not secure:" block unrecognised')
        return
    # the rest of _call_view: shape pin with the secure=False block masked
    import hashlib
    cp = F.strip_doc(fn)
    for n in ast.walk(cp):
        if isinstance(n, ast.If) and isinstance(n.test, ast.UnaryOp) and isinstance(n.test.op, ast.Not) \
                and _name(n.test.operand) == 'secure':
            n.body = [ast.Pass()]
    if hashlib.sha1(ast.dump(cp).encode()).hexdigest()[:16] != _masked_pins()['pyramid/view.py']['_call_view']:
        problems.append('shape pin pyramid/view.py:_call_view (secure=False block masked) changed: the hand-written '
                        'model follows the previous text of this function')
    got = ast.dump(F.strip_doc(blocks[0]).body[0])
    if got == ast.dump(ast.parse(PERMISSIVE_OLD).body[0]):
        v['permissive_checks_predicates'] = False
    elif got == ast.dump(ast.parse(PERMISSIVE_NEW).body[0]):
        v['permissive_checks_predicates'] = True
    else:
        problems.append('_call_view: the body of "if not secure:" is neither the known text nor its repair')


def _masked_pins():
    import json
    import os
    with open(os.path.join(os.path.dirname(os.path.abspath(__file__)), 'pins_masked.json')) as f:
        return json.load(f)


def masked_add_view_shape(src):
    """add_view with the bodies of its nested functions blanked (they are pinned / translated on their own)"""
    import hashlib
    m = F.Module(src, 'pyramid/config/views.py')
    fn = F.strip_doc(m.find('ViewsConfiguratorMixin.add_view'))
    top = fn.body[0] if isinstance(fn, ast.Module) else fn
    for n in ast.walk(top):
        if isinstance(n, ast.FunctionDef) and n is not top:
            n.body = [ast.Pass()]
    return hashlib.sha1(ast.dump(top).encode()).hexdigest()[:16]


def _masked(src, v, problems):
    if masked_add_view_shape(src) != _masked_pins()['pyramid/config/views.py']['ViewsConfiguratorMixin.add_view']:
        problems.append('shape pin pyramid/config/views.py:ViewsConfiguratorMixin.add_view (nested functions masked) '
                        'changed: the hand-written model follows the previous text of this function')


CLASS_FACTS = [
    # (file, class, bases as written, {class-level name: value as written})
    ('pyramid/httpexceptions.py', 'HTTPException', ['Response', 'Exception'], {}),
    ('pyramid/httpexceptions.py', 'HTTPError', ['HTTPException'], {}),
    ('pyramid/httpexceptions.py', 'HTTPClientError', ['HTTPError'], {'code': '400'}),
    ('pyramid/httpexceptions.py', 'HTTPNotFound', ['HTTPClientError'], {'code': '404'}),
    ('pyramid/httpexceptions.py', 'HTTPForbidden', ['HTTPClientError'], {'code': '403'}),
    ('pyramid/exceptions.py', 'PredicateMismatch', ['HTTPNotFound'], {}),
    ('pyramid/request.py', 'Request', None, {'exception': 'None', 'exc_info': 'None', 'request_iface': 'IRequest'}),
]
DECORATED = {'add_view': ['viewdefaults', 'action_method'], 'add_forbidden_view': ['viewdefaults', 'action_method'],
             'add_notfound_view': ['viewdefaults', 'action_method'], 'add_exception_view': ['viewdefaults', 'action_method']}


def _classes(src, v, problems):
    """class-level facts the model relies on: base classes and status codes of the HTTP exceptions the framework
    raises, the class-level defaults of Request, IRequest.combined, the decorators of the directives"""
    for rel, cls, bases, attrs in CLASS_FACTS:
        m = F.Module(src, rel)
        node = m.find(cls)
        if node is None or not isinstance(node, ast.ClassDef):
            problems.append('%s: class %s not found' % (rel, cls))
            continue
        if bases is not None and [ast.unparse(b) for b in node.bases] != bases:
            problems.append('%s: bases of %s are %s, expected %s' % (rel, cls, [ast.unparse(b) for b in node.bases], bases))
        have = {}
        for st in node.body:
            if isinstance(st, ast.Assign) and len(st.targets) == 1 and isinstance(st.targets[0], ast.Name):
                have.setdefault(st.targets[0].id, []).append(ast.unparse(st.value))
        for k, want in attrs.items():
            if have.get(k) != [want]:
                problems.append('%s: %s.%s is %s, expected %s' % (rel, cls, k, have.get(k), want))
    mi = F.Module(src, 'pyramid/interfaces.py')
    n = [ast.unparse(st) for st in mi.tree.body if isinstance(st, ast.Assign) and 'combined' in ast.unparse(st.targets[0])]
    if n != ['IRequest.combined = IRequest']:
        problems.append('pyramid/interfaces.py: IRequest.combined is set by %s' % n)
    # the decorators of the directives: @action_method always; @viewdefaults is a regenerated FACT (the model applies
    # the view class's __view_defaults__ before the directive's own body only where the decorator is)
    mv = F.Module(src, 'pyramid/config/views.py')
    on = []
    for meth in ('add_view', 'add_exception_view', 'add_notfound_view', 'add_forbidden_view'):
        fn = mv.find('ViewsConfiguratorMixin.' + meth)
        got = [ast.unparse(d) for d in fn.decorator_list] if fn else None
        if got == ['viewdefaults', 'action_method']:
            on.append(meth)
        elif got != ['action_method']:
            problems.append('%s: decorators %s: neither [viewdefaults, action_method] nor [action_method]' % (meth, got))
    v['viewdefaults_on'] = on
    # which object the predicates of a view consult: their `context` argument (for an exception view: the exception)
    # or request.context (the traversed resource).  Only containment and physical_path may look at either.
    mp = F.Module(src, 'pyramid/predicates.py')
    for st in mp.tree.body:
        if not isinstance(st, ast.ClassDef):
            continue
        call = [f for f in st.body if isinstance(f, ast.FunctionDef) and f.name == '__call__']
        if not call:
            continue
        fn = call[0]
        if [a.arg for a in fn.args.args] != ['self', 'context', 'request']:
            problems.append('predicates.py: %s.__call__ signature' % st.name)
            continue
        uses_ctx = [n for n in ast.walk(fn) if isinstance(n, ast.Name) and n.id == 'context' and isinstance(n.ctx, ast.Load)]
        req_ctx = [n for n in ast.walk(fn) if (isinstance(n, ast.Attribute) and n.attr == 'context' and _name(n.value) == 'request')
                   or (isinstance(n, ast.Call) and _name(n.func) == 'getattr' and len(n.args) >= 2
                       and _name(n.args[0]) == 'request' and isinstance(n.args[1], ast.Constant) and n.args[1].value == 'context')]
        rebinds = [n for n in ast.walk(fn) if isinstance(n, ast.Name) and n.id in ('context', 'request') and isinstance(n.ctx, ast.Store)]
        if rebinds:
            problems.append('predicates.py: %s.__call__ rebinds context/request' % st.name)
        key = {'ContainmentPredicate': 'containment_reads_request_context',
               'PhysicalPathPredicate': 'physical_path_reads_request_context'}.get(st.name)
        if key:
            # getattr(request, 'context', context) counts as reading request.context (falling back to the argument)
            v[key] = bool(req_ctx)
            if not req_ctx and not uses_ctx:
                problems.append('predicates.py: %s.__call__ consults neither its context argument nor request.context' % st.name)
        elif st.name in ('CustomPredicate', 'Notted', 'TraversePredicate'):
            pass        # hand both on to user code / the wrapped predicate; traverse= is a route pseudo-predicate
        elif uses_ctx or req_ctx:
            problems.append('predicates.py: %s.__call__ looks at the context (argument or request.context): the model '
                            'evaluates it on the request alone' % st.name)


def _forwards(src, v, problems):
    """which of its own parameters each directive hands on to add_view (settings = dict(p=p, ...), settings['p'] = p,
    view_options.update(dict(p=p, ...))); fail closed when a parameter is not handed on"""
    m = F.Module(src, 'pyramid/config/views.py')
    for meth, key in (('add_notfound_view', 'nf_forwards'), ('add_forbidden_view', 'fb_forwards'),
                      ('add_exception_view', None)):
        fn = m.find('ViewsConfiguratorMixin.' + meth)
        if fn is None:
            problems.append('%s not found' % meth)
            continue
        params = [a.arg for a in fn.args.args if a.arg != 'self'] + [a.arg for a in fn.args.kwonlyargs]
        fwd = set()
        for n in ast.walk(fn):
            if isinstance(n, ast.Call) and _name(n.func) == 'dict':
                for k in n.keywords:
                    if k.arg is not None and _name(k.value) == k.arg:
                        fwd.add(k.arg)
            x = _sub_assign(n, 'settings') if isinstance(n, ast.Assign) else None
            if x and x[0] == x[1]:
                fwd.add(x[0])
        # the call that ends the directive must pass the collected settings on
        last = fn.body[-1]
        ok = isinstance(last, ast.Return) and isinstance(last.value, ast.Call) and isinstance(last.value.func, ast.Attribute) \
            and last.value.func.attr == 'add_view' and not last.value.args and len(last.value.keywords) == 1 \
            and last.value.keywords[0].arg is None and _name(last.value.keywords[0].value) in ('settings', 'view_options')
        if not ok:
            problems.append('%s: does not end in "return self.add_view(**settings)"' % meth)
        if fn.args.kwarg is None:
            problems.append('%s: no **view_options' % meth)
        missing = [p for p in params if p not in fwd and p not in NOT_FORWARDED_OK]
        if missing:
            problems.append('%s: parameter(s) %s are not passed on to add_view' % (meth, ', '.join(missing)))
        if key:
            got = set('custom' if p == 'custom_predicates' else p for p in fwd)
            v[key] = [p for p in DIRECTIVE_PREDS if p in got]


def _c15_tie(src, v, problems):
    """_find_views / Registry._clear_view_lookup_cache: tied through C15's translator (imported read-only): the lookup
    must translate to the program C15's theorems are about (cache transparent; product of the two resolution orders x
    the three view types), the clear must replace the dict"""
    from harness.c15 import translate as T15
    m = F.Module(src, 'pyramid/view.py')
    fn = m.find('_find_views')
    try:
        res = T15.translate_lookup(fn)          # (program, view types[, ...]): C15's API may carry more
        prog, vt = res[0], res[1]
        if prog != T15.DEFAULT_LOOKUP or vt != ['IView', 'ISecuredView', 'IMultiView']:
            problems.append('_find_views: translates (C15 translator) to another program: %s %s' % (T15.coq_prog(prog), vt))
    except Exception as e:
        problems.append('_find_views: C15 translator: %s' % e)
    mr = F.Module(src, 'pyramid/registry.py')
    fn = mr.find('Registry._clear_view_lookup_cache')
    try:
        if T15.clear_mode(fn, 'self') != 'Swap':
            problems.append('_clear_view_lookup_cache no longer replaces the cache dict')
    except Exception as e:
        problems.append('_clear_view_lookup_cache: C15 translator: %s' % e)


def masked_subrequest_shape(src):
    """Router.invoke_subrequest with the DEFAULT of use_tweens blanked (the default is a regenerated fact)"""
    import hashlib
    m = F.Module(src, 'pyramid/router.py')
    fn = F.strip_doc(m.find('Router.invoke_subrequest'))
    top = fn.body[0] if isinstance(fn, ast.Module) else fn
    top.args.defaults = [ast.Constant(value=None) for _ in top.args.defaults]
    return hashlib.sha1(ast.dump(top).encode()).hexdigest()[:16]


def _subrequest(src, v, problems):
    """Router.invoke_subrequest(request, use_tweens=<default>): the default is a FACT (the model sends a subrequest
    through the tween stack -- incl. its own excview tween -- exactly when use_tweens says so); the rest of the
    body is shape-pinned (it hands use_tweens on to invoke_request(_use_tweens=...), pinned in pins.json)."""
    m = F.Module(src, 'pyramid/router.py')
    fn = m.find('Router.invoke_subrequest')
    if fn is None:
        problems.append('Router.invoke_subrequest not found')
        return
    names = [a.arg for a in fn.args.args]
    if names != ['self', 'request', 'use_tweens'] or fn.args.kwonlyargs or fn.args.vararg or fn.args.kwarg \
            or len(fn.args.defaults) != 1:
        problems.append('Router.invoke_subrequest: signature is no longer (self, request, use_tweens=<bool>)')
        return
    d = fn.args.defaults[0]
    if isinstance(d, ast.Constant) and isinstance(d.value, bool):
        v['subrequest_use_tweens_default'] = d.value
    else:
        problems.append('Router.invoke_subrequest: default of use_tweens is not a literal bool')
    if masked_subrequest_shape(src) != _masked_pins()['pyramid/router.py']['Router.invoke_subrequest']:
        problems.append('shape pin pyramid/router.py:Router.invoke_subrequest (default of use_tweens masked) changed: '
                        'the hand-written model follows the previous text of this function')
    # Request.invoke_subrequest is the attribute the router puts on the request (request.invoke_subrequest = ...)
    mr = F.Module(src, 'pyramid/router.py')
    for q in ('Router.request_context', 'Router.invoke_subrequest'):
        f2 = mr.find(q)
        txt = ast.unparse(f2) if f2 is not None else ''
        if q == 'Router.invoke_subrequest' and 'request.invoke_subrequest = self.invoke_subrequest' not in txt:
            problems.append('%s no longer sets request.invoke_subrequest = self.invoke_subrequest' % q)


def extract(src, problems):
    v = dict(DEFAULTS)
    # _iev, _tweens and the default-view check are superseded by harness/c14/translate.py (the functions are
    # regenerated as gen_*; their constants stay at the property's values in code_params and are no longer used by
    # the executed pipeline)
    for f in (_config, _add_view, _permissive, _forwards, _c15_tie, _masked, _classes, _subrequest):
        try:
            f(src, v, problems)
        except Exception as e:          # fail closed
            problems.append('%s: extractor failed: %r' % (f.__name__, e))
    return v


def emit(v):
    out = [F.HEADER]
    for k in ('hidden_names', 'set_in_with', 'set_after', 'default_excview_contexts', 'nf_forwards', 'fb_forwards',
              'viewdefaults_on'):
        out.append('Definition %s : list text := %s.\n' % (k, F.coq_texts(v[k])))
    for k in ('exc_view_name', 'exc_classifier', 'iev_none_raises', 'iev_reraise_catches', 'handler_catches',
              'tween_catches', 'nf_context', 'fb_context', 'exc_default_context'):
        out.append('Definition %s : text := %s.\n' % (k, F.coq_text(v[k])))
    for k in ('uses_combined', 'lookup_uses_provided_by', 'handler_reraises_original', 'nf_exception_only',
              'fb_exception_only', 'exc_exception_only', 'default_view_returns_context',
              'permissive_checks_predicates', 'containment_reads_request_context',
              'physical_path_reads_request_context', 'subrequest_use_tweens_default'):
        out.append('Definition %s : bool := %s.\n' % (k, F.coq_bool(v[k])))
    return ''.join(out)
