"""C05 -- a protected view body runs only after the security policy granted its permission."""
import copy
import json
import os
from harness.common import facts as F
from harness.common import build
from . import c05facts
from . import translate
from . import world as W
from . import gen as G

ID = 'C05'
HERE = os.path.dirname(os.path.abspath(__file__))
CASES = {'quick': 700, 'thorough': 15000}
PARALLEL = True
PROOF_TIMEOUT = 1500
ALLOWED_AXIOMS = ()
DEPENDS = ['C03', 'C18']     # Model/C05.v imports Model/C03.v and Model/C18.v: the engine regenerates their facts first
RULE = ('one case = one Configurator program (security policy absent / truthy object / falsy dict-subclass object, given to the '
        'constructor or by set_security_policy; default permission absent / name / falsy IntEnum member / empty string / '
        'NO_PERMISSION_REQUIRED, constructor or directive; routes; 2-9 add_view / add_notfound_view(append_slash) / '
        'add_forbidden_view / add_exception_view / add_view(context=ExcClass) / add_static_view statements with permission '
        'absent / name / falsy / NO_PERMISSION_REQUIRED, predicates, wrapper=, decorator=, five view kinds, bodies that return or '
        'raise; class views whose permission comes from @view_defaults on the class or on a base class; statements shuffled, the '
        'policy statement last in a quarter of the cases; optionally a second commit with overrides and with views for more '
        'specific contexts, the application serving requests between the two commits; in 40 % of the cases a second, open '
        'application built from the same statements is alive in the same process and serves every request first; the marker VALUE '
        'as an equal non-identical str; permission=None passed explicitly to add_view / add_static_view; a policy object whose '
        '`permits` attribute resolves to another callable until the application is built; request_method= predicates in several '
        'spellings of one method set (tuple order, implied HEAD), overrides of a later commit re-spelling them; GET/POST/HEAD requests; '
        'accept= views (text/html, application/json) with Accept headers in several spellings, also as warm traffic before an override; '
        'a resource that is an exception instance, reaching the normal half of add_view(context=<exception class>)) '
        'x a random decision table x 8-12 requests through Router.__call__; observation = ordered log of '
        'policy.permits calls (answers of several truthy/falsy kinds), decorator entries, view-body executions, the exception the '
        'main handler raised, and the final response or propagated exception. non-trivial = a policy is declared, at least one '
        'request ran a body right after a granted check and at least one request was refused; distinct by full case')
ASSUMPTIONS = [
    'zope.interface resolution orders (request_iface, request_iface.combined, providedBy(request), providedBy(context), '
    'providedBy(exception)) and isexception(context) are oracle inputs computed with the real library',
    'one decision table per request: policy.permits is a function of (permission, context); its answer is used by truthiness',
    'predicates used: request_method, xhr, custom (truth tables over the request, independent of the context)',
    'debug_authorization is off (the _authdebug_view deriver returns the view unchanged); csrf_view is enabled per view by '
    'require_csrf=True only (no default CSRF options; CookieCSRFStoragePolicy; http scheme, so no origin check); '
    'http_cached_view, rendered_view, mapped_view do not affect the event log',
    'policy / default-permission / route statements are written before the first commit; a program has at most one of each',
    'exception-context views are unnamed, wrapper views are named w1/w2 and w2 has no wrapper (no wrapper cycles)',
    'a request path + "/" never matches a route (AppendSlashNotFoundViewFactory falls through to the wrapped view)',
    'translator assumptions: A1 the view-lookup cache misses (its transparency is C15\'s), A2 no response/finished callbacks and no '
    'event subscribers, A3 guards `if <unmodelled state>: raise RuntimeError` do not fire, A4 sys.exc_info() in _error_handler is the '
    'exception the tween caught',
]
TRUSTED = [
    'translator harness/c05/translate.py: its PRIMITIVE TABLE (which Python leaf expression / library call / exception class stands '
    'for which primitive of Model/C05_base.v or parameter of the generated definition) and its assumptions A1-A4 (cache miss, no '
    'callbacks/subscribers, guards on unmodelled state, sys.exc_info) -- control flow is translated mechanically',
    'hand-written reference model coq/Model/C05.v for what is NOT regenerated: the deriver pipeline composition, add_view '
    'registration, the exception-view directives, owrapped/decorated/csrf wrappers, MultiView.match/__call_permissive__/'
    '__permitted__/add/get_views (shape pins + 3 masked pins; MultiView.__call__ is regenerated)',
    'Model/C03.v (registration, MultiView, lookup) and Model/C18.v (sorter, default deriver declarations), imported unchanged',
]
TECHNIQUE = ('Coq proof about a Gallina program whose control flow is TRANSLATED from the Python source on every run '
             '(_secured_view, secured_view, _authdebug_view, _find_views, _call_view, excview_tween, _error_handler, '
             'invoke_exception_view, Router.invoke_request, the view-execution part of Router.handle_request, '
             'default_exceptionresponse_view, MultiView.__call__; and, from C03\'s translation of pyramid/predicates.py, '
             'RequestMethodPredicate.__init__): generated-equals-model theorems proved once (induction per loop, case split on the '
             'table atoms, scripts independent of the generated text), property theorems restated about the generated request path; '
             'trace invariants by induction over wrapper nesting / lookup loops / wrapper fuel; sortedness argument for commit phases; '
             'extracted regenerated program run differentially against the implementation; the Coq judge is run on the implementation log')
LEVEL_TEXT = ('Machine-checked theorems over the request path REGENERATED from the source (gen_router = invoke_request(excview_tween('
              'handle_request/_call_view/_find_views), _error_handler/invoke_exception_view)), for every registry, decision table and '
              'request: every decorator entry and body execution of a view whose regenerated _secured_view closed over permission p is '
              'preceded in the same request by Permits p ctx true for the context it is called with; a refusal is the last event of '
              'its call and raises HTTPForbidden (403 handling, or propagation while an exception view is rendered); views without a '
              'closed-over permission cause no policy call; the closed-over permission is characterised by the table (explicit, else '
              'default unless exception-only, marker = none, no policy = none); views are derived under the final phase-1/2 state of '
              'their commit whatever the statement order (also for sequences of commits); the @view_defaults permission of a view class is its '
              'explicit permission; secured_view is the outermost sorted deriver, '
              'csrf_view directly under it; the judge clauses J1/J2 accept every model trace and every trace of the regenerated request path, '
              'clauses J4 and J5 do so at registration level (source of an HTTPForbidden / owner of a policy call read from the derived-view table; a table entry runs the body its statement declares) for every registry '
              'state; the view-execution core writes no Raised event; secure=False is never used by the router; '
              'the regenerated MultiView.__call__ is the model\'s loop; the registration key (slot, phash, predicates, order) does not '
              'depend on how request_method= is spelled (sorted closure under GET-implies-HEAD, also for the regenerated constructor), '
              'PredicateList.make reads predicate arguments only through the constructors; an accept= view is filed under its offer '
              '(C03 MultiView model: media_views, acceptable_offers over the WebOb quality oracle), clause J7 is not applied to configurations with accept= (C03-accept-first).')
LEVEL_NOTE = ('Trusted: Coq kernel; the translator\'s primitive table and assumptions A1-A4; the hand-written model for the parts that '
              'are not regenerated (shape-pinned, validated by correspondence); Python harness; zope.interface as oracle. A semantics-'
              'preserving rewrite of a translated function raises no alarm; a semantic change makes a generated_is_model theorem fail and '
              'the correspondence/judge run produces the replay. C03 (a dependency) still pins _call_view/_find_views whole. Judge '
              'clauses J3-J7 (J7 = C03\'s most-specific-view specification, also for a registry that served requests before a later '
              'commit and with a second application alive in the process; structural facts: per-registry lookup cache, no mutable '
              'class-level attribute / default argument in the modelled files) '
              'commit) are validated by the run, not proved at judge level (J4 and J5 are proved at registration level, not yet for the program-text clauses on the projected trace).')

_facts_cache = {}


def facts(src):
    problems = []
    summary = F.check_shapes(src, os.path.join(HERE, 'pins.json'), problems)
    vals, pr = c05facts.extract(src)
    problems += pr
    _facts_cache['vals'] = vals
    summary.update({k: (list(v) if isinstance(v, tuple) else v) for k, v in vals.items()})
    # the control flow of the view-execution core, regenerated from the source (harness/c05/translate.py)
    gen, tproblems, tsummary = translate.translate_tree(src)
    problems += tproblems
    try:                                       # functions of which only a fragment is translated: pin on the rest
        with open(os.path.join(HERE, 'pins_masked.json')) as f:
            want = json.load(f)
        got = translate.masked_shapes(src)
        for rel, qs in want.items():
            for q, w in qs.items():
                g = got.get(rel, {}).get(q)
                summary['%s:%s(masked)' % (rel, q)] = g
                if g != w:
                    problems.append('shape pin %s:%s (translated fragment masked out) changed (%s -> %s): the hand-written '
                                    'model follows the previous text' % (rel, q, w, g))
    except Exception as e:
        problems.append('masked shape pins could not be computed: %r' % e)
    summary.update(tsummary)
    coq = c05facts.emit(vals)
    coq += ('\n(* ---- regenerated from the source by harness/c05/translate.py: control flow translated mechanically,\n'
            '   leaves through the primitive table (see that file) ---- *)\n'
            'Require Import Verif.Gen.Facts_C03 Verif.Model.C03 Verif.Model.C05_base.\n' + translate.emit(gen))
    return {'coq': coq, 'summary': summary, 'problems': problems}


def _vals():
    if 'vals' not in _facts_cache:
        _facts_cache['vals'] = c05facts.extract(build.SRC)[0]
    return _facts_cache['vals']


def setup(tier):
    W.setup()


generate = G.generate
valid = G.valid
shrinks = G.shrinks
targeted = G.targeted


# ------------------------------------------------------------------ wire
BEHAVE = {'ret': 0, 'forbid': 1, 'notfound': 2, 'boom': 3}
KCODE = {'view': 3, 'forbidden': 4, 'notfound': 5, 'excview': 6, 'static': 7}


def _kw_wire(preds):
    out = []
    for n in sorted(preds):
        val = preds[n]
        if n == 'custom':
            out.append([n, [[bool(nt), [3, i, '']] for i, nt in val]])
        elif n == 'xhr':
            out.append([n, [[False, [0, bool(val)]]]])
        elif n == 'request_method':
            out.append([n, [[False, [2, list(val)] if isinstance(val, list) else [1, val]]]])
        else:
            raise KeyError(n)
    return out


def _ctx_wire(c):
    return [c[0], c[1]]


def _stmt_wire(w, s):
    P = W._P
    k = s['k']
    if k == 'policy':
        return [0, not s['falsy'], bool(s['ctor'])]
    if k == 'defperm':
        return [1, W.perm_text(s['perm']), W.perm_truthy(s['perm']), bool(s['ctor'])]
    if k == 'route':
        return [2]
    from pyramid.config.views import isexception
    if k == 'static':
        riface = w.cfg.registry.queryUtility(P['IRouteRequest'], name='__static/')
        req = w.iid(riface) if riface is not None else 1
        vo = [s['tag'], req, w.iid(P['Interface']), '', [], None if s['perm'] is None else [W.perm_text(s['perm'])],
              False, False, '', False, 0, False, None]
        return [7, vo]
    if k == 'view':
        ctxo = P['classes'][s['ctx']] if s['ctx'] is not None else None
        spec = w.ctx_spec(s['ctx'])
        name = s['name']
    else:
        ctxo = {'notfound': P['HTTPNotFound'], 'forbidden': P['HTTPForbidden']}.get(k) or P['classes'][s['ctx']]
        spec = P['implementedBy'](ctxo)
        name = ''
    req = w.iid(w.route_iface[s['route']]) if s.get('route') else w.iid(P['IRequest'])
    kww = _kw_wire(s.get('preds', {}))
    if k == 'view' and s.get('accept'):
        kww.append(['accept', [[False, [1, s['accept']]]]])        # a predicate argument AND the offer MultiView.add files it under
    vo = [s['tag'], req, w.iid(spec), name, kww,
          None if s.get('perm') is None or k != 'view' else [W.perm_text(s['perm'])],
          bool(isexception(ctxo)), bool(s.get('exc_only')) and k == 'view', s.get('wrapper') or '', bool(s.get('deco')),
          BEHAVE[s['behave']], bool(s.get('csrf')) and k == 'view', _vd_perm(s) if k == 'view' else None]
    if k == 'notfound':
        return [5, vo, bool(s.get('append_slash'))]
    return [KCODE[k], vo]


def _vd_perm(s):
    """what the PROGRAM declares: @view_defaults(permission=..) on the view class or on a base class of it (class kinds only).
    Taken from the case, not from the attribute pyramid.view.view_defaults writes: the decorator is code under test."""
    if s.get('vd') and s['kind'] in ('cls', 'cls2', 'attr'):
        return [W.perm_text(s['vd']['perm'])]
    return None


def _req_wire(w, r):
    o = w.oracle(r)
    return [r['method'], bool(r['xhr']), list(r['truth']), o['vname'], [0, o['res']], o['req_sro'], o['comb_sro'],
            o['wrap_sro'], o['ctx_sro'], o['exc_sro'], r['method'] in ('GET', 'HEAD') or bool(r.get('csrf')), o['accq']]


def _iface_ids(w):
    P = W._P
    from webob.exc import WSGIHTTPException
    from pyramid.interfaces import IExceptionResponse
    return w.iid(P['IRequest']), w.iid(IExceptionResponse), w.iid(P['implementedBy'](WSGIHTTPException))


def _batches(case):
    cut = case.get('cut')
    st = case['stmts']
    return [st] if cut is None else [st[:cut + 1], st[cut + 1:]]


def _batches_wire(w, case):
    return [[_stmt_wire(w, s) for s in b] for b in _batches(case)]


def to_wire(case):
    w = W.World(case)
    if w.error:
        return [9]
    irq, ier, iwsgi = _iface_ids(w)
    reqs = []
    for r in case['requests']:
        base = _req_wire(w, r)
        reqs.append([9, bool(r['secure']), base] if r.get('op') == 'render' else base)
    bw = _batches_wire(w, case)          # after the oracles: every interface has its id by now
    return [0, irq, ier, iwsgi, bw, [[W.perm_text(p), _ctx_wire(c)] for p, c in case['grants']], reqs]


def _ev(e):
    if e[0] == 0:
        return ['permits', W.perm_from_text(e[1]), e[2], bool(e[3])]
    if e[0] == 1:
        return ['deco', e[1], e[2]]
    if e[0] == 2:
        return ['body', e[1], e[2]]
    return ['raised', W.EXC_KINDS[e[1]]]


def _ev_wire(e):
    if e[0] == 'permits':
        return [0, W.perm_text(e[1]), e[2], bool(e[3])]
    if e[0] == 'deco':
        return [1, e[1], e[2]]
    if e[0] == 'body':
        return [2, e[1], e[2]]
    return [3, W.EXC_KINDS.index(e[1])]


def _out(tr, fin):
    if fin[0] == 0:
        if fin[1] == W.BUILTIN_TAG:
            last = [e for e in tr if e[0] == 'raised']
            st = {'forbidden': '403', 'notfound': '404', 'pme': '404', 'csrf': '400'}.get(last[-1][1] if last else None, '?')
            return ['ret', W.BUILTIN_TAG, st]
        return ['ret', fin[1]]
    if fin[0] == 1:
        return ['exc', W.EXC_KINDS[fin[1]]]
    if fin[0] == 3:
        return ['none']
    return ['stuck']


def _out_wire(o):
    if o[0] == 'ret':
        return [0, o[1]]
    if o[0] == 'exc' and o[1] in W.EXC_KINDS:
        return [1, W.EXC_KINDS.index(o[1])]
    return None


def from_wire(case, raw):
    if raw == [['bad']] or not isinstance(raw, list) or len(raw) != 2:
        return {'model': ['MODEL-BAD', raw], 'spec': None}
    dtab, per = raw
    model, masks, differs = [], [], False
    for tr, fin, mask, variant_ok, gen_same in per:
        if not gen_same:         # the program regenerated from the source differs from the reference model on this input
            differs = True
        if not variant_ok:       # the judge's way of telling the variants apart does not hold for this case: make it visible
            return {'model': ['MODEL-VARIANT-ASSUMPTION-BROKEN', raw], 'spec': None}
        evs = [_ev(e) for e in tr]
        model.append([evs, _out(evs, fin)])
        masks.append(mask)
    if differs:            # a correspondence failure of its own kind; the judge still runs on the implementation's log
        return {'model': ['REGENERATED-PROGRAM-DIFFERS-FROM-MODEL', model], 'spec': [masks, model, dtab]}
    return {'model': model, 'spec': [masks, model, dtab]}


# ------------------------------------------------------------------ implementation
def run_impl(case):
    w = W.World(case)
    if w.error:
        return w.error
    return [w.run_render(r) if r.get('op') == 'render' else w.run(r) for r in case['requests']]


# ------------------------------------------------------------------ judging: the Coq judge on the implementation's log
_judge = {}


def _judge_call(wire):
    if 'r' not in _judge:
        from harness.common.main import Runner
        path = os.path.join(build.BUILD, ID, 'runner')
        _judge['r'] = Runner(path) if os.path.exists(path) else None
    r = _judge['r']
    if r is None:
        return None
    try:
        return r.one(wire)
    except Exception:
        _judge.pop('r', None)
        return None


def masks_of(case, obs, spec):
    """judge mask per request for the implementation's observation; None = cannot judge"""
    if spec is None or not isinstance(obs, list) or (obs and obs[0] in ('CONFIG-ERROR', 'HARNESS-EXC')):
        return None
    masks, model = spec[0], spec[1]
    if obs == model:
        return list(masks)
    out = list(masks)
    todo = [i for i in range(len(obs)) if i >= len(model) or obs[i] != model[i]]
    todo = [i for i in todo if i >= len(case['requests']) or case['requests'][i].get('op') != 'render']   # render ops: correspondence only
    items = []
    for i in todo:
        evs, o = obs[i]
        ow = _out_wire(o)
        if ow is None or any(e[0] not in ('permits', 'deco', 'body', 'raised') or
                             (e[0] == 'raised' and e[1] not in W.EXC_KINDS) or
                             (e[0] != 'raised' and e[2][0] not in (0, 1)) for e in evs):
            return [64] * len(obs)          # something outside the vocabulary happened (unknown exception ...)
        items.append([i, [_ev_wire(e) for e in evs], ow])
    w = W.World(case)
    if w.error:
        return None
    irq, ier, iwsgi = _iface_ids(w)
    rws = [_req_wire(w, r) for r in case['requests']]
    res = _judge_call([1, irq, ier, iwsgi, _batches_wire(w, case), [[rws[i], evs, ow] for i, evs, ow in items if i < len(rws)]])
    if res is None or res == [['bad']] or len(res) != len(todo):
        return None
    for i, m in zip(todo, res):
        if i < len(out):
            out[i] = m
        else:
            out.append(m)
    return out


def spec_holds(case, obs, spec):
    if isinstance(obs, list) and obs and obs[0] == 'CONFIG-ERROR':
        return False                         # a valid program must configure
    m = masks_of(case, obs, spec)
    if m is None:
        return None
    return all(x == 0 for x in m)


def _has_falsy_ctor(case):
    v = _vals()
    for s in case['stmts']:
        if s['k'] == 'policy' and s['ctor'] and s['falsy'] and not v['ctor_policy_is_none_test']:
            return True
        if s['k'] == 'defperm' and s['ctor'] and not W.perm_truthy(s['perm']) and not v['ctor_defperm_is_none_test']:
            return True
    return False


def _has_late_slash(case):
    cut = case.get('cut')
    if cut is None:
        return False
    first = case['stmts'][:cut + 1]
    pol = any(s['k'] == 'policy' for s in first)
    dp = any(s['k'] == 'defperm' and s['perm'] not in ('NPR', 'NPRC') for s in first)
    return pol and dp and any(s['k'] == 'notfound' and s.get('append_slash') for s in case['stmts'][cut + 1:])


def classify(case, obs, spec):
    """A deviation is a known finding only if the implementation did, request by request, exactly what the faithful
    model (which follows the code) predicts, and the failing judge clauses are those the finding explains."""
    m = masks_of(case, obs, spec)
    if m is None or spec is None or obs != spec[1]:
        return None
    bad = [x for x in m if x]
    if not bad:
        return None
    if all(x == 4 for x in bad):
        return 'C05-excview-refusal-propagates'
    if _has_falsy_ctor(case) and all(x & ~(1 | 4) == 0 for x in bad):
        return 'C05-ctor-falsy-argument-dropped'
    if _has_late_slash(case) and all(x & ~(4 | 8 | 32) == 0 for x in bad):
        return 'C05-append-slash-inherits-default-permission'
    return None


# ------------------------------------------------------------------ evidence
def _req_kinds(o):
    evs, out = o
    ks = []
    grant = any(e[0] == 'permits' and e[3] for e in evs)
    refuse = any(e[0] == 'permits' and not e[3] for e in evs)
    bodies = [e for e in evs if e[0] == 'body']
    raised = [e for e in evs if e[0] == 'raised']
    if grant and bodies:
        ks.append('req:granted-then-body')
    if refuse:
        ks.append('req:refused')
    if bodies and not grant and not refuse:
        ks.append('req:unprotected-body')
    if len([e for e in evs if e[0] == 'permits']) >= 2:
        ks.append('req:two-checks(wrapper/excview)')
    if raised:
        ks.append('req:raised-' + raised[0][1])
    if any(e[0] == 'body' and e[2][0] == 1 for e in evs):
        ks.append('req:exception-view-body')
    if any(e[0] == 'deco' for e in evs):
        ks.append('req:decorator')
    ks.append('out:' + (out[0] if out[0] != 'ret' else ('builtin' + out[2] if len(out) == 3 else 'view')))
    return ks


def kinds(case, obs):
    ks = []
    pol = [s for s in case['stmts'] if s['k'] == 'policy']
    dp = [s for s in case['stmts'] if s['k'] == 'defperm']
    ks.append('policy:' + ('none' if not pol else ('legacy-pair' if pol[0].get('legacy') else ('falsy' if pol[0]['falsy'] else 'truthy') + ('-ctor' if pol[0]['ctor'] else ''))))
    if pol and pol[0].get('swap'):
        ks.append('policy:permits-attribute-rebound-after-configuration')
    if dp and dp[0]['perm'] == 'NPRC':
        ks.append('stmt:marker-value-not-the-constant')
    if pol and not pol[0]['ctor']:
        idx = case['stmts'].index(pol[0])
        last = (case['cut'] if case.get('cut') is not None else len(case['stmts']) - 1)
        if idx == last:
            ks.append('policy-written-last-in-its-commit')
    ks.append('defperm:' + ('none' if not dp else dp[0]['perm'] + ('-ctor' if dp[0]['ctor'] else '')))
    ks.append('commits:%d' % (1 if case.get('cut') is None else 2))
    if case.get('warm'):
        ks.append('case:requests-served-between-the-commits')
    if case.get('sibling'):
        ks.append('case:second-application-in-the-process')
    seen_keys = {}
    for bi, b in enumerate(_batches(case)):
        for s in b:
            if s['k'] == 'view' and 'request_method' in s.get('preds', {}):
                dk = G.disc_key(s)
                prev = seen_keys.get(dk)
                if prev is not None and prev[0] < bi and prev[1] != s['preds']['request_method']:
                    ks.append('stmt:override-spells-request_method-differently')
                seen_keys[dk] = (bi, s['preds']['request_method'])
    if any(r.get('accept') for r in case['requests']):
        ks.append('req:Accept-header')
    if any(r['method'] == 'HEAD' for r in case['requests']):
        ks.append('req:HEAD')
    for s in case['stmts']:
        if s.get('accept'):
            ks.append('stmt:accept=')
        if s.get('xnone'):
            ks.append('stmt:explicit-permission-None' + ('-static' if s['k'] == 'static' else ''))
        if s.get('perm') == 'NPRC':
            ks.append('stmt:marker-value-not-the-constant')
        if s['k'] in ('notfound', 'forbidden', 'excview', 'static'):
            ks.append('stmt:' + s['k'])
        if s['k'] == 'view':
            if s['ctx'] in W.EXC_CTX_NAMES:
                ks.append('stmt:view-on-exception-context')
            if s.get('perm') in ('ZERO', 'EMPTY'):
                ks.append('stmt:falsy-permission')
            if s.get('wrapper'):
                ks.append('stmt:wrapper')
            if s.get('csrf'):
                ks.append('stmt:require_csrf')
            if s.get('vd'):
                ks.append('stmt:view_defaults-' + s['vd']['where'])
    for r in case['requests']:
        if r.get('op') == 'render':
            ks.append('req:render-' + ('secure' if r['secure'] else 'permissive'))
    if isinstance(obs, list) and obs and isinstance(obs[0], list):
        seen = set()
        for o in obs:
            try:
                seen.update(_req_kinds(o))
            except Exception:
                seen.add('req:unparsed')
        ks += sorted(seen)
    else:
        ks.append('obs:config-error')
    return sorted(set(ks))


def nontrivial(case, obs):
    if not (isinstance(obs, list) and obs and isinstance(obs[0], list)):
        return False
    if not any(s['k'] == 'policy' for s in case['stmts']):
        return False
    try:
        g = any('req:granted-then-body' in _req_kinds(o) for o in obs)
        r = any('req:refused' in _req_kinds(o) for o in obs)
    except Exception:
        return False
    return g and r


def describe(case):
    return case


def explain(item):
    try:
        m = masks_of(item['case'], item['impl'], item['spec'])
    except Exception:
        m = None
    return {'judge_masks_per_request': m,
            'mask_bits': {1: 'mediation: decorator/body of a protected view without an earlier Permits p ctx true',
                          2: 'refusal not followed by 403 handling', 4: 'refusal while rendering an exception view: HTTPForbidden left the app',
                          8: 'granted check not on behalf of the view that ran next', 16: 'HTTPForbidden without a refusal or an application raise',
                          32: 'policy asked about a permission that protects no view for that context', 64: 'observation outside the vocabulary',
                          128: 'the callable of a statement that a later commit overrides (same slot, same predicates) ran',
                          256: 'the view that ran first is not a most specific qualifying one (C03 spec_winners): e.g. a stale lookup'}}
