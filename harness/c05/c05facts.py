"""C05 facts: data-like pieces of the source the model is stated over (fail-closed ast matchers)."""
import ast
import os
from harness.common import facts as F


class Bad(Exception):
    pass


DEFAULTS = {
    'no_permission_required': '__no_permission_required__',
    'order_policy': -10, 'order_defperm': -20, 'order_view': 0, 'order_route': -10,
    'forced_forbidden': (True, '__no_permission_required__'),
    'forced_notfound': (True, '__no_permission_required__'),
    'forced_excview': (True, '__no_permission_required__'),
    'ctor_policy_is_none_test': False, 'ctor_defperm_is_none_test': False,
    'static_none_default': '__no_permission_required__',
    'slash_inner_permission': None,
    'permissive_checks_predicates': True,
    'forced_require_csrf_kept': False,
    'preserved_attrs': ['__permitted__', '__call_permissive__', '__permission__', '__predicated__', '__predicates__',
                        '__accept__', '__order__', '__text__'],
    'secured_wrappers': ['_secured_view', '_authdebug_view'],
}


def u(node):
    try:
        return ast.unparse(node)
    except Exception:
        return '<%s>' % type(node).__name__


def _kw(call):
    return {k.arg: k.value for k in call.keywords}


def _name(n, want=None):
    if not isinstance(n, ast.Name) or (want is not None and n.id != want):
        raise Bad('expected name %s, got %s' % (want, ast.dump(n)[:80]))
    return n.id


def _action_calls(fn):
    return [n for n in ast.walk(fn) if isinstance(n, ast.Call) and isinstance(n.func, ast.Attribute)
            and n.func.attr == 'action' and isinstance(n.func.value, ast.Name) and n.func.value.id == 'self']


def extract(src):
    vals = dict(DEFAULTS)
    problems = []

    def guard(label, f):
        try:
            f()
        except (Bad, KeyError, OSError, SyntaxError, AttributeError, IndexError, TypeError, ValueError) as e:
            problems.append('%s: unrecognised shape (%s: %s)' % (label, type(e).__name__, e))

    env = {}

    def consts():
        s = F.Module(src, 'pyramid/security.py')
        npr = s.const('NO_PERMISSION_REQUIRED')
        if not isinstance(npr, str):
            raise Bad('NO_PERMISSION_REQUIRED is not a str literal')
        vals['no_permission_required'] = npr
        env['NO_PERMISSION_REQUIRED'] = npr
        i = F.Module(src, 'pyramid/interfaces.py')
        for n in ('PHASE0_CONFIG', 'PHASE1_CONFIG', 'PHASE2_CONFIG', 'PHASE3_CONFIG'):
            v = i.const(n)
            if not isinstance(v, int):
                raise Bad('%s is not an int literal' % n)
            env[n] = v
        # the imports the other matchers rely on
        for rel in ('pyramid/config/views.py', 'pyramid/viewderivers.py'):
            m = F.Module(src, rel)
            ok = any(isinstance(st, ast.ImportFrom) and st.module == 'pyramid.security'
                     and any(a.name == 'NO_PERMISSION_REQUIRED' and a.asname is None for a in st.names)
                     for st in m.tree.body)
            if not ok:
                raise Bad('%s does not import NO_PERMISSION_REQUIRED from pyramid.security' % rel)
    guard('security.py / interfaces.py constants', consts)

    def orders():
        a = F.Module(src, 'pyramid/config/actions.py')
        fn = a.find('ActionConfiguratorMixin.action')
        names = [x.arg for x in fn.args.args]
        defaults = dict(zip(names[len(names) - len(fn.args.defaults):], fn.args.defaults))
        d = defaults['order']
        if not (isinstance(d, ast.Constant) and isinstance(d.value, int)):
            raise Bad('default of action(order=)')
        default_order = d.value

        def order_of(rel, qual, which=0, count=1):
            fn = F.Module(src, rel).find(qual)
            calls = _action_calls(fn)
            if len(calls) != count:
                raise Bad('%s: %d self.action calls' % (qual, len(calls)))
            kw = _kw(calls[which])
            if 'order' not in kw:
                return default_order
            return env[_name(kw['order'])]
        vals['order_policy'] = order_of('pyramid/config/security.py', 'SecurityConfiguratorMixin.set_security_policy')
        vals['order_defperm'] = order_of('pyramid/config/security.py', 'SecurityConfiguratorMixin.set_default_permission')
        vals['order_view'] = order_of('pyramid/config/views.py', 'ViewsConfiguratorMixin.add_view')
        # the legacy pair set_authentication_policy / set_authorization_policy: the model treats it as a policy statement
        # (the authentication action registers LegacySecurityPolicy as ISecurityPolicy) -- same phase as set_security_policy,
        # the authorization policy before it
        oa = order_of('pyramid/config/security.py', 'SecurityConfiguratorMixin.set_authentication_policy')
        oz = order_of('pyramid/config/security.py', 'SecurityConfiguratorMixin.set_authorization_policy', which=0, count=2)
        if oa != vals['order_policy'] or not oz < oa:
            raise Bad('phases of the legacy policy directives (%s, %s) differ from set_security_policy (%s)' % (oa, oz, vals['order_policy']))
    guard('action orders', orders)

    def classes():
        # class-level facts the model relies on (the coverage tool lists functions only)
        m = F.Module(src, 'pyramid/security.py')
        for cname, want in (('Denied', 0), ('Allowed', 1)):
            c = m.find(cname)
            if not (isinstance(c, ast.ClassDef) and [_name(b) for b in c.bases] == ['PermitsResult']):
                raise Bad('%s is not a PermitsResult' % cname)
            bv = [st.value.value for st in c.body if isinstance(st, ast.Assign) and _name(st.targets[0]) == 'boolval'
                  and isinstance(st.value, ast.Constant)]
            if bv != [want]:
                raise Bad('%s.boolval is %r (truthiness of the policy answer)' % (cname, bv))
        pr = m.find('PermitsResult')
        if [_name(b) for b in pr.bases] != ['int']:
            raise Bad('PermitsResult is not an int subclass')
        e = F.Module(src, 'pyramid/exceptions.py')
        for cname, base in (('PredicateMismatch', 'HTTPNotFound'), ('BadCSRFToken', 'HTTPBadRequest'), ('BadCSRFOrigin', 'HTTPBadRequest')):
            c = e.find(cname)
            if not (isinstance(c, ast.ClassDef) and [_name(b) for b in c.bases] == [base]):
                raise Bad('%s does not derive from %s alone (exception classes of the table)' % (cname, base))
    guard('class-level facts (PermitsResult truthiness, exception hierarchy)', classes)

    def forced():
        m = F.Module(src, 'pyramid/config/views.py')
        for key, qual in (('forced_forbidden', 'add_forbidden_view'), ('forced_notfound', 'add_notfound_view'),
                          ('forced_excview', 'add_exception_view')):
            fn = m.find('ViewsConfiguratorMixin.' + qual)
            # the rejected argument names
            rejected = None
            for st in fn.body:
                if isinstance(st, ast.For) and isinstance(st.iter, ast.Tuple):
                    rejected = [e.value for e in st.iter.elts]
                    t = st.body[0]
                    if not (isinstance(t, ast.If) and isinstance(t.test, ast.Compare) and isinstance(t.test.ops[0], ast.In)
                            and _name(t.test.comparators[0]) == 'view_options' and isinstance(t.body[0], ast.Raise)):
                        raise Bad('%s: rejected-argument loop' % qual)
            if rejected is None or 'permission' not in rejected or 'exception_only' not in rejected:
                raise Bad('%s does not reject permission= / exception_only=' % qual)
            dicts = [n for n in ast.walk(fn) if isinstance(n, ast.Call) and isinstance(n.func, ast.Name)
                     and n.func.id == 'dict' and any(k.arg == 'exception_only' for k in n.keywords)]
            if len(dicts) != 1:
                raise Bad('%s: settings dict' % qual)
            kw = _kw(dicts[0])
            eo = kw['exception_only']
            if not (isinstance(eo, ast.Constant) and isinstance(eo.value, bool)):
                raise Bad('%s: exception_only value' % qual)
            if 'permission' in kw:
                perm = env[_name(kw['permission'])]
            else:
                perm = None
            vals[key] = (eo.value, perm)
            rc = kw.get('require_csrf')
            if not (isinstance(rc, ast.Constant) and rc.value is False and 'require_csrf' in rejected):
                raise Bad('%s does not force require_csrf=False' % qual)
            # the last statement hands the settings to add_view
            last = fn.body[-1]
            if not (isinstance(last, ast.Return) and isinstance(last.value, ast.Call)
                    and last.value.func.attr == 'add_view'):
                raise Bad('%s does not end in self.add_view(**settings)' % qual)
    guard('forced settings of add_forbidden_view/add_notfound_view/add_exception_view', forced)

    def slash():
        # add_notfound_view(append_slash=...): view = self._derive_view(view, attr=attr, renderer=renderer[, permission=X])
        m = F.Module(src, 'pyramid/config/views.py')
        fn = m.find('ViewsConfiguratorMixin.add_notfound_view')
        calls = [n for n in ast.walk(fn) if isinstance(n, ast.Call) and isinstance(n.func, ast.Attribute)
                 and n.func.attr == '_derive_view']
        if len(calls) != 1:
            raise Bad('add_notfound_view: %d _derive_view calls' % len(calls))
        kw = _kw(calls[0])
        if set(kw) - {'attr', 'renderer', 'permission', 'require_csrf'} or len(calls[0].args) != 1:
            raise Bad('add_notfound_view: _derive_view arguments %s' % sorted(kw))
        # /repo 901900e (finding C14-appendslash-notfound-checks-csrf): the inner view is derived with require_csrf=False; the
        # model's Slash body has no CSRF check, so the only acceptable explicit value is the literal False
        if 'require_csrf' in kw and not (isinstance(kw['require_csrf'], ast.Constant) and kw['require_csrf'].value is False):
            raise Bad('add_notfound_view: _derive_view(require_csrf=%s) -- the model derives the inner view without a CSRF check'
                      % u(kw['require_csrf']))
        vals['slash_inner_permission'] = env[_name(kw['permission'])] if 'permission' in kw else None
    guard('add_notfound_view append_slash derivation', slash)

    def ctor():
        m = F.Module(src, 'pyramid/config/__init__.py')
        fn = m.find('Configurator.setup_registry')
        found = {}
        for st in fn.body:
            if not isinstance(st, ast.If) or st.orelse or len(st.body) != 1:
                continue
            b = st.body[0]
            if not (isinstance(b, ast.Expr) and isinstance(b.value, ast.Call) and isinstance(b.value.func, ast.Attribute)):
                continue
            meth = b.value.func.attr
            if meth not in ('set_security_policy', 'set_default_permission'):
                continue
            arg = _name(b.value.args[0])
            t = st.test
            if isinstance(t, ast.Name) and t.id == arg:
                found[meth] = False
            elif (isinstance(t, ast.Compare) and isinstance(t.left, ast.Name) and t.left.id == arg and len(t.ops) == 1
                  and isinstance(t.ops[0], ast.IsNot) and isinstance(t.comparators[0], ast.Constant)
                  and t.comparators[0].value is None):
                found[meth] = True
            else:
                raise Bad('test guarding %s in setup_registry' % meth)
        vals['ctor_policy_is_none_test'] = found['set_security_policy']
        vals['ctor_defperm_is_none_test'] = found['set_default_permission']
    guard('Configurator.setup_registry', ctor)

    def static():
        m = F.Module(src, 'pyramid/config/views.py')
        fn = m.find('StaticURLInfo.add')
        hit = None
        for n in ast.walk(fn):
            if isinstance(n, ast.If) and isinstance(n.test, ast.Compare) and isinstance(n.test.left, ast.Name) \
                    and n.test.left.id == 'permission':
                if not (isinstance(n.test.ops[0], ast.Is) and isinstance(n.test.comparators[0], ast.Constant)
                        and n.test.comparators[0].value is None and len(n.body) == 1 and not n.orelse
                        and isinstance(n.body[0], ast.Assign) and _name(n.body[0].targets[0]) == 'permission'):
                    raise Bad('StaticURLInfo.add: permission default')
                hit = env[_name(n.body[0].value)]
        if hit is None:
            raise Bad('StaticURLInfo.add: no "if permission is None" default')
        vals['static_none_default'] = hit
    guard('StaticURLInfo.add', static)

    def callview():
        # _call_view, inside `if not secure:` -- does the code evaluate __predicated__ before using __call_permissive__ ?
        m = F.Module(src, 'pyramid/view.py')
        fn = m.find('_call_view')
        blocks = [n for n in ast.walk(fn) if isinstance(n, ast.If) and isinstance(n.test, ast.UnaryOp)
                  and isinstance(n.test.op, ast.Not) and isinstance(n.test.operand, ast.Name) and n.test.operand.id == 'secure']
        if len(blocks) != 1:
            raise Bad('_call_view: `if not secure:` block')
        consts = [n.value for n in ast.walk(blocks[0]) if isinstance(n, ast.Constant) and isinstance(n.value, str)]
        if '__call_permissive__' not in consts:
            raise Bad('_call_view: __call_permissive__ not used under `if not secure:`')
        raises = [n for n in ast.walk(blocks[0]) if isinstance(n, ast.Raise)]
        if '__predicated__' in consts:
            if len(raises) != 1 or not (isinstance(raises[0].exc, ast.Call) and _name(raises[0].exc.func) == 'PredicateMismatch'):
                raise Bad('_call_view: predicate test under `if not secure:` does not raise PredicateMismatch')
            vals['permissive_checks_predicates'] = True
        else:
            if raises:
                raise Bad('_call_view: unexpected raise under `if not secure:`')
            vals['permissive_checks_predicates'] = False
    guard('_call_view secure=False branch', callview)

    def state():
        # STRUCTURAL facts: where the state the model treats as per-application / per-call lives
        # (1) the view lookup cache is an INSTANCE attribute of the registry, bound to a fresh dict by __init__ and REBOUND to a
        #     fresh dict by _clear_view_lookup_cache; no class-level attribute of that name (assumption A1 of the translator and
        #     the independence of two applications in one process rest on it)
        r = F.Module(src, 'pyramid/registry.py')
        cls = r.find('Registry')
        for st in cls.body:
            if isinstance(st, (ast.Assign, ast.AnnAssign)):
                for tg in (st.targets if isinstance(st, ast.Assign) else [st.target]):
                    if any(isinstance(n, ast.Name) and n.id in ('_view_lookup_cache', '_lock') for n in ast.walk(tg)):
                        raise Bad('Registry has a class-level %s' % u(tg))

        def fresh_dict_assign(fn, n_expected):
            hits = [st for st in ast.walk(fn) if isinstance(st, ast.Assign) and len(st.targets) == 1
                    and u(st.targets[0]) == 'self._view_lookup_cache']
            if len(hits) != n_expected or not all(isinstance(h.value, ast.Dict) and not h.value.keys for h in hits):
                raise Bad('%s does not bind self._view_lookup_cache to a fresh {}' % fn.name)
        init = r.find('Registry.__init__')
        if not any(isinstance(n, ast.Call) and u(n.func) == 'self._clear_view_lookup_cache' and not n.args for n in ast.walk(init)):
            fresh_dict_assign(init, 1)         # __init__ gives every registry its own cache: by the call or by the assignment
        clr = F.strip_doc(r.find('Registry._clear_view_lookup_cache'))
        fn = [n for n in ast.walk(clr) if isinstance(n, ast.FunctionDef)][0]
        if len(fn.body) != 1:
            raise Bad('Registry._clear_view_lookup_cache is not the single rebinding statement')
        fresh_dict_assign(fn, 1)
        # (2) no mutable class-level attribute and no mutable default argument in the files the model follows: state shared
        #     between instances / kept across calls would make behaviour depend on history
        MUT = (ast.List, ast.Dict, ast.Set, ast.ListComp, ast.DictComp, ast.SetComp)
        MUTCALLS = {'list', 'dict', 'set', 'defaultdict', 'OrderedDict', 'deque', 'WeakKeyDictionary', 'WeakValueDictionary', 'bytearray'}

        def mutable(v):
            return isinstance(v, MUT) or (isinstance(v, ast.Call) and isinstance(v.func, (ast.Name, ast.Attribute))
                                          and (v.func.id if isinstance(v.func, ast.Name) else v.func.attr) in MUTCALLS)
        for rel in ('pyramid/viewderivers.py', 'pyramid/config/views.py', 'pyramid/config/security.py', 'pyramid/security.py',
                    'pyramid/view.py', 'pyramid/router.py', 'pyramid/tweens.py', 'pyramid/registry.py', 'pyramid/request.py',
                    'pyramid/threadlocal.py'):
            m = F.Module(src, rel)
            for n in ast.walk(m.tree):
                if isinstance(n, ast.ClassDef):
                    for st in n.body:
                        if isinstance(st, (ast.Assign, ast.AnnAssign)) and st.value is not None and mutable(st.value):
                            raise Bad('%s: class %s has a mutable class-level attribute: %s' % (rel, n.name, u(st)[:80]))
                elif isinstance(n, (ast.FunctionDef, ast.Lambda)):
                    for d in list(n.args.defaults) + [d for d in n.args.kw_defaults if d is not None]:
                        if mutable(d):
                            raise Bad('%s: %s has a mutable default argument: %s' % (rel, getattr(n, 'name', '<lambda>'), u(d)[:60]))
        vals['state_facts'] = 'per-registry lookup cache; no mutable class attribute / default argument in 10 files'
    guard('structural facts (where state lives)', state)

    def deriv():
        m = F.Module(src, 'pyramid/viewderivers.py')
        fn = m.find('preserve_view_attrs')
        fors = [n for n in ast.walk(fn) if isinstance(n, ast.For) and isinstance(n.iter, ast.Tuple)]
        if len(fors) != 1:
            raise Bad('preserve_view_attrs loop')
        vals['preserved_attrs'] = [e.value for e in fors[0].iter.elts]
        sv = m.find('secured_view')
        fors = [n for n in sv.body if isinstance(n, ast.For)]
        if len(fors) != 1 or not isinstance(fors[0].iter, ast.Tuple):
            raise Bad('secured_view loop')
        vals['secured_wrappers'] = [_name(e) for e in fors[0].iter.elts]
    guard('viewderivers.py', deriv)
    return vals, problems


def _opt(v):
    return 'None' if v is None else '(Some %s)' % F.coq_text(v)


def emit(vals):
    out = [F.HEADER]
    out.append('Definition no_permission_required : text := %s.\n' % F.coq_text(vals['no_permission_required']))
    for k in ('order_policy', 'order_defperm', 'order_view'):
        out.append('Definition %s : Z := (%d)%%Z.\n' % (k, vals[k]))
    for k in ('forced_forbidden', 'forced_notfound', 'forced_excview'):
        out.append('Definition %s : bool * option text := (%s, %s).\n' % (k, F.coq_bool(vals[k][0]), _opt(vals[k][1])))
    out.append('Definition forced_require_csrf : bool := %s.   (* the exception-view directives keep a require_csrf=True ? *)\n' % F.coq_bool(vals['forced_require_csrf_kept']))
    for k in ('ctor_policy_is_none_test', 'ctor_defperm_is_none_test', 'permissive_checks_predicates'):
        out.append('Definition %s : bool := %s.\n' % (k, F.coq_bool(vals[k])))
    out.append('Definition static_none_default : text := %s.\n' % F.coq_text(vals['static_none_default']))
    out.append('Definition slash_inner_permission : option text := %s.\n' % _opt(vals['slash_inner_permission']))
    out.append('Definition preserved_attrs : list text := %s.\n' % F.coq_texts(vals['preserved_attrs']))
    out.append('Definition secured_wrappers : list text := %s.\n' % F.coq_texts(vals['secured_wrappers']))
    return ''.join(out)


def stale_imported_facts(src, problems):
    """The model imports Model/C03.v and Model/C18.v, which are stated over Gen/Facts_C03.v and Gen/Facts_C18.v.
    Those files are regenerated by the C03 / C18 checks; verify here that they describe THIS tree."""
    from harness.common import build
    from harness.c03 import c03facts
    from harness.c18 import facts18
    try:
        pr = []
        want = c03facts.emit(c03facts.extract(src, pr))
        with open(os.path.join(build.COQ, 'Gen', 'Facts_C03.v')) as f:
            have = f.read()
        if pr or want != have:
            problems.append('Gen/Facts_C03.v (imported through Model/C03.v) does not describe this tree: %s'
                            % (pr[:2] or 'regenerated text differs'))
    except Exception as e:
        problems.append('Gen/Facts_C03.v could not be compared with this tree: %r' % e)
    try:
        v18, pr = facts18.extract(src)
        want = facts18.emit(v18)
        with open(os.path.join(build.COQ, 'Gen', 'Facts_C18.v')) as f:
            have = f.read()
        if pr or want != have:
            problems.append('Gen/Facts_C18.v (imported through Model/C18.v) does not describe this tree: %s'
                            % (pr[:2] or 'regenerated text differs'))
    except Exception as e:
        problems.append('Gen/Facts_C18.v could not be compared with this tree: %r' % e)
