"""C05 generators: structured Configurator programs, decision tables and requests; validity; shrinking; targeted cases."""
import copy
import json

from .world import (CTX_NAMES, EXC_CTX_NAMES, PERM_TOKENS, WRAPPERS, ROUTES, KINDS, RES_PATHS, EXC_KINDS, OFFERS, ACCEPT_HEADERS)

NAMES = ['', 'v', 'w1', 'w2']
VNAMES = ['', 'v', 'w1', 'w2', 'zz']
METHODS = ['GET', 'POST', 'HEAD']
# one predicate set has several spellings: order of the tuple, and GET implies HEAD (RequestMethodPredicate adds it)
METHOD_VALS = ['GET', 'POST', ['GET', 'POST'], ['POST', 'GET'], ['GET', 'HEAD', 'POST'], ['GET', 'HEAD'], 'HEAD',
               ['HEAD', 'POST'], ['POST', 'HEAD', 'GET']]


def method_set(v):
    """the set of methods a request_method= value stands for (what the predicate matches)"""
    ms = set(v if isinstance(v, list) else [v])
    if 'GET' in ms:
        ms.add('HEAD')
    return sorted(ms)


def respell(rng, v):
    """another spelling of the same request_method predicate (None when there is only one)"""
    alts = [x for x in METHOD_VALS if method_set(x) == method_set(v) and x != v]
    return rng.choice(alts) if alts else None
BEHAVES = ['ret', 'boom', 'forbid', 'notfound']
GRANT_PERMS = ['view', 'edit', 'ZERO', 'EMPTY', 'NPR']
RES_OF_CTX = {None: [0, 1, 2, 3], 'Root': [0], 'A': [1, 2], 'B': [2], 'I': [2]}
NRES = 4                 # resource 3 (/t) is an instance of Boom: the normal half of an exception-context view serves it


def gen_perm(rng, p_none=0.34):
    r = rng.random()
    if r < p_none:
        return None
    return rng.choice(['view', 'view', 'view', 'edit', 'edit', 'edit', 'NPR', 'NPR', 'NPRC', 'ZERO', 'ZERO', 'ZERO', 'EMPTY'])


def gen_preds(rng):
    if rng.random() < 0.6:
        return {}
    p = {}
    for n in rng.sample(['request_method', 'xhr', 'custom'], rng.choice([1, 1, 2])):
        if n == 'request_method':
            p[n] = copy.deepcopy(rng.choice(METHOD_VALS))
        elif n == 'xhr':
            p[n] = rng.random() < 0.5
        else:
            p[n] = [[rng.randrange(4), rng.random() < 0.25] for _ in range(rng.choice([1, 1, 2]))]
    return p


def base_view(tag, k='view'):
    return {'k': k, 'tag': tag, 'ctx': None, 'name': '', 'route': None, 'preds': {}, 'perm': None, 'wrapper': None,
            'deco': False, 'behave': 'ret', 'kind': 'fn', 'exc_only': False, 'append_slash': False}


def gen_viewlike(rng, tag, routes, has_static):
    r = rng.random()
    v = base_view(tag)
    v['kind'] = rng.choice(KINDS)
    v['deco'] = rng.random() < 0.25
    v['behave'] = 'ret' if rng.random() < 0.8 else rng.choice(BEHAVES[1:])
    v['preds'] = gen_preds(rng)
    v['route'] = rng.choice(routes) if routes and rng.random() < 0.3 else None
    if r < 0.62:                                   # plain view
        v['ctx'] = rng.choice(CTX_NAMES)
        v['name'] = rng.choice(['', '', '', 'v', 'v', 'w1', 'w2'])
        v['perm'] = gen_perm(rng)
        if rng.random() < 0.15:
            v['accept'] = rng.choice(OFFERS)          # content negotiation: the view lives in media_views of its MultiView
        if v['perm'] is None and rng.random() < 0.2:
            v['xnone'] = True                         # permission=None passed explicitly
        if v['kind'] in ('cls', 'cls2', 'attr') and rng.random() < 0.35:
            v.pop('xnone', None)                      # (an explicit None would override the class default: defaults.update(kw))
            # the permission comes (also) from @view_defaults on the class or on a base class
            v['vd'] = {'perm': rng.choice(['view', 'edit', 'edit', 'ZERO', 'NPR']), 'where': rng.choice(['own', 'base', 'base'])}
            if rng.random() < 0.7:
                v['perm'] = None
        if rng.random() < 0.12:
            v['csrf'] = True                          # require_csrf=True: csrf_view enabled next to the permission check
        if v['name'] not in WRAPPERS and rng.random() < 0.25:
            v['wrapper'] = 'w1'
        elif v['name'] == 'w1' and rng.random() < 0.25:
            v['wrapper'] = 'w2'
    elif r < 0.74:                                 # add_view on an exception context (both variants unless exception_only)
        v['ctx'] = rng.choice(EXC_CTX_NAMES)
        v['perm'] = gen_perm(rng, 0.45)
        if v['perm'] is None and rng.random() < 0.2:
            v['xnone'] = True
        v['exc_only'] = rng.random() < 0.4
        v['wrapper'] = 'w1' if rng.random() < 0.15 else None
    elif r < 0.82:
        v['k'] = 'notfound'
        v['append_slash'] = rng.random() < 0.45
        v['wrapper'] = 'w1' if rng.random() < 0.15 else None
    elif r < 0.90:
        v['k'] = 'forbidden'
        v['wrapper'] = 'w1' if rng.random() < 0.15 else None
    elif r < 0.96 or has_static:
        v['k'] = 'excview'
        v['ctx'] = rng.choice(EXC_CTX_NAMES)
    else:
        st = {'k': 'static', 'tag': tag, 'perm': gen_perm(rng, 0.5)}
        if st['perm'] is None and rng.random() < 0.5:
            st['xnone'] = True                        # add_static_view(..., permission=None)
        return st
    if v['k'] != 'view':
        v['kind'] = rng.choice(['fn', 'fn1', 'cls', 'attr', 'json']) if not v['append_slash'] else rng.choice(['fn', 'fn1', 'cls'])
    return v


def disc_key(s):
    """what makes two statements of one commit conflict"""
    if s['k'] == 'policy':
        return ('policy',)
    if s['k'] == 'defperm':
        return ('defperm',)
    if s['k'] == 'route':
        return ('route', s['name'])
    if s['k'] == 'static':
        return ('static',)
    ctx = {'notfound': 'HTTPNotFound', 'forbidden': 'HTTPForbidden'}.get(s['k'], s['ctx'])
    p = s.get('preds', {})
    pk = []
    for n in sorted(p):
        v = p[n]
        if n == 'request_method':
            v = method_set(v)
        elif n == 'custom':
            v = [list(x) for x in v]
        pk.append([n, v])
    return ('view', ctx, s['name'] if s['k'] == 'view' else '', s.get('route'), json.dumps(pk), s.get('accept'))


def gen_requests(rng, case, n):
    views = [s for s in case['stmts'] if s['k'] in ('view', 'static')]
    routes = [s['name'] for s in case['stmts'] if s['k'] == 'route']
    out = []
    for _ in range(n):
        r = {'route': None, 'res': 0, 'vname': '', 'method': rng.choice(['GET', 'GET', 'GET', 'POST', 'POST', 'POST', 'HEAD']),
             'xhr': rng.random() < 0.4,
             'truth': sorted(rng.sample(range(4), rng.choice([0, 1, 2, 3, 4])))}
        if rng.random() < 0.35:
            r['csrf'] = True                          # the request carries a valid CSRF token (cookie + header)
        if any(s.get('accept') for s in case['stmts']) and rng.random() < 0.75:
            r['accept'] = rng.choice(ACCEPT_HEADERS)
        t = rng.choice(views) if views and rng.random() < 0.8 else None
        if rng.random() < 0.15:                       # render_view_to_response called directly, secure or not
            r['op'], r['secure'] = 'render', rng.random() < 0.4
            if t is not None and t['k'] == 'static':
                t = None
        if t is not None and t['k'] == 'static':
            r['static'] = True
            if r['method'] == 'HEAD':
                r['method'] = 'GET'                   # the static view's body is recognised by the file content
            out.append(r)
            continue
        if t is not None and t['ctx'] not in EXC_CTX_NAMES:
            r['vname'] = t['name']
            r['res'] = rng.choice(RES_OF_CTX[t['ctx']])
            r['route'] = t['route'] if rng.random() < 0.9 else (rng.choice(routes) if routes and rng.random() < 0.5 else None)
            if r.get('op') == 'render':
                r['route'] = None
            m = t['preds'].get('request_method')
            if m is not None and rng.random() < 0.8:
                r['method'] = rng.choice(m) if isinstance(m, list) else m
            if 'xhr' in t['preds'] and rng.random() < 0.8:
                r['xhr'] = t['preds']['xhr']
            if 'custom' in t['preds'] and rng.random() < 0.7:
                r['truth'] = sorted({i for i, nt in t['preds']['custom'] if not nt} |
                                    ({x for x in r['truth']} - {i for i, nt in t['preds']['custom'] if nt}))
        elif t is not None and t['k'] == 'view' and t['ctx'] in ('Boom', 'Exception') and not t.get('exc_only') and rng.random() < 0.6:
            # the NORMAL half of add_view(context=<exception class>): traversal to a resource that is an exception instance
            r['vname'], r['res'] = '', 3
            r['route'] = t['route'] if rng.random() < 0.9 else None
            if r.get('op') == 'render':
                r['route'] = None
        else:
            r['vname'] = rng.choice(VNAMES)
            r['res'] = rng.randrange(NRES)
            r['route'] = rng.choice(routes) if routes and rng.random() < 0.3 and r.get('op') != 'render' else None
        out.append(r)
    return out


def gen_case(rng):
    stmts = []
    pol = None
    if rng.random() < 0.88:
        pol = {'k': 'policy', 'falsy': rng.random() < 0.3, 'ctor': rng.random() < 0.25}
        if not pol['falsy'] and not pol['ctor'] and rng.random() < 0.25:
            pol['legacy'] = True          # set_authorization_policy + set_authentication_policy (LegacySecurityPolicy)
        elif rng.random() < 0.2:
            pol['swap'] = True            # the object's `permits` attribute resolves to another callable while configuring
        stmts.append(pol)
    if rng.random() < 0.55:
        stmts.append({'k': 'defperm', 'perm': rng.choice(['view', 'view', 'view', 'edit', 'edit', 'ZERO', 'ZERO', 'ZERO', 'EMPTY',
                                                          'EMPTY', 'NPR', 'NPRC']),
                      'ctor': rng.random() < 0.25})
    routes = [r for r in ROUTES if rng.random() < 0.45]
    for r in routes:
        stmts.append({'k': 'route', 'name': r})
    nv = rng.choice([2, 3, 3, 4, 5, 6, 7, 9])
    tag = 1
    views = []
    has_static = False
    for _ in range(nv):
        v = gen_viewlike(rng, tag, routes, has_static)
        has_static = has_static or v['k'] == 'static'
        views.append(v)
        tag += 1
    # make the wrapper targets exist most of the time
    for wn, nxt in (('w1', 'w2'), ('w2', None)):
        if any(v.get('wrapper') == wn for v in views) and rng.random() < 0.85 and \
                not any(v['k'] == 'view' and v['name'] == wn and v['ctx'] is None for v in views):
            w = base_view(tag)
            tag += 1
            w.update(name=wn, perm=gen_perm(rng, 0.3), kind=rng.choice(KINDS), deco=rng.random() < 0.2,
                     behave='ret' if rng.random() < 0.9 else 'boom')
            if nxt and rng.random() < 0.25:
                w['wrapper'] = nxt
            views.append(w)
    two = rng.random() < 0.3
    first, second = [], []
    for v in views:
        (second if two and rng.random() < 0.4 else first).append(v)
    if two:
        # overrides of first-commit views: same discriminator, other permission
        for v in list(first):
            if v['k'] == 'view' and rng.random() < 0.3:
                o = copy.deepcopy(v)
                o['tag'] = tag
                tag += 1
                o['perm'] = gen_perm(rng, 0.1) if v['perm'] in (None, 'NPR', 'NPRC') else rng.choice([None, 'NPR', 'edit'])
                o['behave'] = 'ret'
                if o['perm'] is not None:
                    o.pop('xnone', None)
                # the overriding statement may SPELL the same predicates differently (tuple order, the implied HEAD)
                m = o['preds'].get('request_method')
                alt = respell(rng, m) if m is not None and rng.random() < 0.6 else None
                if alt is not None:
                    o['preds']['request_method'] = copy.deepcopy(alt)
                second.append(o)
        # a later commit adds a view for a MORE SPECIFIC context under the same name / route / predicates, with another
        # permission (a new slot: nothing is replaced)
        for v in list(first):
            more = {None: ['Root', 'A', 'B'], 'A': ['B']}.get(v['ctx']) if v['k'] == 'view' else None
            if more and rng.random() < 0.35:
                o = copy.deepcopy(v)
                o['tag'] = tag
                tag += 1
                o['ctx'] = rng.choice(more)
                o['perm'] = gen_perm(rng, 0.1) if v['perm'] in (None, 'NPR', 'NPRC') else rng.choice([None, 'NPR', 'edit'])
                o['behave'] = 'ret'
                if o['perm'] is not None:
                    o.pop('xnone', None)
                o.pop('vd', None)
                second.append(o)
    batch1 = stmts + first
    rng.shuffle(batch1)
    if pol is not None and not pol['ctor'] and rng.random() < 0.3:
        batch1.remove(pol)
        batch1.append(pol)                       # the policy statement written after every view of its commit
    rng.shuffle(second)

    def dedupe(b):
        seen, out = set(), []
        for s in b:
            k = disc_key(s)
            if k in seen:
                continue
            seen.add(k)
            out.append(s)
        return out
    batch1, second = dedupe(batch1), dedupe(second)
    # a route-bound view needs its route in the same or an earlier commit: routes are all in batch1
    case = {'stmts': batch1 + second, 'cut': (len(batch1) - 1) if two and second else None, 'grants': [],
            'flavour': rng.randrange(20), 'requests': []}
    p = rng.choice([0.3, 0.5, 0.5, 0.7, 0.9])
    for perm in GRANT_PERMS:
        for c in [[0, i] for i in range(NRES)] + [[1, i] for i in range(len(EXC_KINDS))]:
            if rng.random() < p:
                case['grants'].append([perm, c])
    case['requests'] = gen_requests(rng, case, rng.choice([8, 10, 12]))
    if rng.random() < 0.4:
        case['sibling'] = True        # a second, open application is alive in the same process and serves each request first
    if case['cut'] is not None and rng.random() < 0.7:
        # the application serves traffic between the two commits (the same kind of requests)
        case['warm'] = [copy.deepcopy(r) for r in case['requests'] if r.get('op') != 'render' and rng.random() < 0.7][:8]
        if not case['warm']:
            del case['warm']
    return case


def generate(rng, tier, n):
    for c in targeted_cases():
        yield c
    for _ in range(n):
        yield gen_case(rng)


# ------------------------------------------------------------------ validity
def _is_bool(x):
    return isinstance(x, bool)


def valid(case):
    try:
        if not isinstance(case, dict) or set(case) - {'warm', 'sibling'} != {'stmts', 'cut', 'grants', 'flavour', 'requests'} \
                or ('sibling' in case and case['sibling'] is not True):
            return False
        st = case['stmts']
        cut = case['cut']
        if not st or not case['requests'] or not isinstance(case['flavour'], int) or isinstance(case['flavour'], bool) \
                or case['flavour'] < 0:
            return False
        if cut is not None and not (isinstance(cut, int) and not isinstance(cut, bool) and 0 <= cut < len(st) - 1):
            return False
        batches = [st] if cut is None else [st[:cut + 1], st[cut + 1:]]
        tags = set()
        routes = []
        for bi, b in enumerate(batches):
            keys = set()
            for s in b:
                k = s['k']
                dk = disc_key(s)
                if dk in keys:
                    return False
                keys.add(dk)
                if k == 'policy':
                    if bi or set(s) - {'legacy', 'swap'} != {'k', 'falsy', 'ctor'} or not _is_bool(s['falsy']) or not _is_bool(s['ctor']):
                        return False
                    if 'legacy' in s and (s['legacy'] is not True or s['falsy'] or s['ctor']):
                        return False
                    if 'swap' in s and (s['swap'] is not True or 'legacy' in s):
                        return False
                elif k == 'defperm':
                    if bi or set(s) != {'k', 'perm', 'ctor'} or s['perm'] not in PERM_TOKENS or not _is_bool(s['ctor']):
                        return False
                elif k == 'route':
                    if bi or s['name'] not in ROUTES:
                        return False
                    routes.append(s['name'])
                elif k == 'static':
                    if set(s) - {'xnone'} != {'k', 'tag', 'perm'} or not (s['perm'] is None or s['perm'] in PERM_TOKENS):
                        return False
                    if 'xnone' in s and (s['xnone'] is not True or s['perm'] is not None):
                        return False
                elif k in ('view', 'notfound', 'forbidden', 'excview'):
                    if 'accept' in s and not (k == 'view' and s['accept'] in OFFERS and s['ctx'] in CTX_NAMES):
                        return False
                    if set(s) - {'csrf', 'vd', 'xnone', 'accept'} != set(base_view(0)) or ('csrf' in s and (s['csrf'] is not True or k != 'view')):
                        return False
                    if 'xnone' in s and (s['xnone'] is not True or k != 'view' or s['perm'] is not None or 'vd' in s):
                        return False
                    if 'vd' in s and not (k == 'view' and s['kind'] in ('cls', 'cls2', 'attr') and isinstance(s['vd'], dict)
                                          and set(s['vd']) == {'perm', 'where'} and s['vd']['perm'] in PERM_TOKENS
                                          and s['vd']['where'] in ('own', 'base')):
                        return False
                    if s['kind'] not in KINDS or s['behave'] not in BEHAVES or not _is_bool(s['deco']) \
                            or not _is_bool(s['exc_only']) or not _is_bool(s['append_slash']):
                        return False
                    if not (s['route'] is None or s['route'] in ROUTES):
                        return False
                    if not (s['wrapper'] is None or s['wrapper'] in WRAPPERS) or not (s['perm'] is None or s['perm'] in PERM_TOKENS):
                        return False
                    for n, v in s['preds'].items():
                        if n == 'request_method':
                            if not ((isinstance(v, str) and v in METHODS) or
                                    (isinstance(v, list) and v and all(isinstance(x, str) and x in METHODS for x in v)
                                     and len(set(v)) == len(v))):
                                return False
                        elif n == 'xhr':
                            if not _is_bool(v):
                                return False
                        elif n == 'custom':
                            if not (isinstance(v, list) and v and all(isinstance(x, list) and len(x) == 2 and x[0] in range(4)
                                                                        and _is_bool(x[1]) for x in v)):
                                return False
                        else:
                            return False
                    if k == 'view':
                        if s['ctx'] in EXC_CTX_NAMES:
                            if s['name'] != '':
                                return False
                        elif s['ctx'] in CTX_NAMES:
                            if s['exc_only'] or s['name'] not in NAMES:
                                return False
                        else:
                            return False
                        if s['append_slash']:
                            return False
                        if s['name'] == 'w2' and s['wrapper']:
                            return False
                        if s['name'] == 'w1' and s['wrapper'] == 'w1':
                            return False
                    else:
                        if s['name'] != '' or s['exc_only'] or s['perm'] is not None:
                            return False
                        if k == 'excview' and s['ctx'] not in EXC_CTX_NAMES:
                            return False
                        if k != 'excview' and s['ctx'] is not None:
                            return False
                        if s['append_slash'] and (k != 'notfound' or s['kind'] in ('json', 'attr', 'cls2')):
                            return False
                        if s['kind'] == 'cls2':
                            return False
                else:
                    return False
                if 'tag' in s:
                    if not (isinstance(s['tag'], int) and not isinstance(s['tag'], bool) and 0 < s['tag'] < 2000) or s['tag'] in tags:
                        return False
                    tags.add(s['tag'])
        for s in st:
            if s.get('route') and s['route'] not in routes:
                return False
        if sum(1 for s in st if s['k'] == 'static') > 1:
            return False
        for g in case['grants']:
            if not (isinstance(g, list) and len(g) == 2 and g[0] in PERM_TOKENS and isinstance(g[1], list) and len(g[1]) == 2
                    and ((g[1][0] == 0 and g[1][1] in range(NRES)) or (g[1][0] == 1 and g[1][1] in range(len(EXC_KINDS))))):
                return False
        has_static = any(s['k'] == 'static' for s in st)
        if 'warm' in case and (cut is None or not isinstance(case['warm'], list) or not case['warm']
                               or any(not isinstance(r, dict) or r.get('op') for r in case['warm'])):
            return False
        for r in case['requests'] + case.get('warm', []):
            if set(r) - {'static', 'op', 'secure', 'csrf', 'accept'} != {'route', 'res', 'vname', 'method', 'xhr', 'truth'}:
                return False
            if 'accept' in r and r['accept'] not in ACCEPT_HEADERS:
                return False
            if 'csrf' in r and r['csrf'] is not True:
                return False
            if ('op' in r) != ('secure' in r):
                return False
            if 'op' in r and (r['op'] != 'render' or not _is_bool(r['secure']) or r['route'] is not None or r.get('static')):
                return False
            if r.get('static') and not has_static:
                return False
            if 'static' in r and r['static'] is not True:
                return False
            if not (r['route'] is None or r['route'] in routes) or r['res'] not in range(NRES) or r['vname'] not in VNAMES:
                return False
            if r['method'] not in METHODS or not _is_bool(r['xhr']):
                return False
            if not (isinstance(r['truth'], list) and all(x in range(4) for x in r['truth']) and r['truth'] == sorted(set(r['truth']))):
                return False
        return True
    except Exception:
        return False


# ------------------------------------------------------------------ shrinking
def shrinks(case):
    rq = case['requests']
    if len(rq) > 1:
        for i in range(len(rq)):
            yield dict(case, requests=rq[:i] + rq[i + 1:])
    st = case['stmts']
    cut = case['cut']
    for i in range(len(st)):
        ncut = cut
        if cut is not None:
            if i <= cut:
                ncut = cut - 1
            if ncut < 0 or ncut >= len(st) - 2:
                ncut = None
        yield dict(case, stmts=st[:i] + st[i + 1:], cut=ncut)
    if cut is not None:
        c2 = dict(case, cut=None)
        c2.pop('warm', None)
        yield c2
    if case.get('sibling'):
        c2 = dict(case)
        del c2['sibling']
        yield c2
    for i, r in enumerate(rq):
        if r.get('accept'):
            r2 = dict(r)
            del r2['accept']
            yield dict(case, requests=rq[:i] + [r2] + rq[i + 1:])
    for i, s in enumerate(st):
        if s.get('accept'):
            s2 = dict(s)
            del s2['accept']
            yield dict(case, stmts=st[:i] + [s2] + st[i + 1:])
        if s.get('xnone') or s.get('swap'):
            s2 = dict(s)
            s2.pop('xnone', None)
            s2.pop('swap', None)
            yield dict(case, stmts=st[:i] + [s2] + st[i + 1:])
        if s.get('perm') == 'NPRC':
            yield dict(case, stmts=st[:i] + [dict(s, perm='NPR')] + st[i + 1:])
    if case.get('warm'):
        c2 = dict(case)
        del c2['warm']
        yield c2
        if len(case['warm']) > 1:
            for i in range(len(case['warm'])):
                yield dict(case, warm=case['warm'][:i] + case['warm'][i + 1:])
    for i, s in enumerate(st):
        simple = {'preds': {}, 'wrapper': None, 'deco': False, 'behave': 'ret', 'kind': 'fn', 'route': None, 'exc_only': False,
                  'append_slash': False, 'ctor': False}
        for k, v in simple.items():
            if k in s and s[k] != v:
                yield dict(case, stmts=st[:i] + [dict(s, **{k: v})] + st[i + 1:])
        if s.get('k') == 'view' and s.get('ctx') in CTX_NAMES and s['ctx'] is not None:
            yield dict(case, stmts=st[:i] + [dict(s, ctx=None)] + st[i + 1:])
    g = case['grants']
    if g:
        yield dict(case, grants=[])
        for i in range(len(g)):
            yield dict(case, grants=g[:i] + g[i + 1:])
    if case['flavour']:
        yield dict(case, flavour=0)
    for i, r in enumerate(rq):
        for k, v in (('route', None), ('res', 0), ('method', 'GET'), ('xhr', False), ('truth', [])):
            if r[k] != v:
                yield dict(case, requests=rq[:i] + [dict(r, **{k: v})] + rq[i + 1:])


# ------------------------------------------------------------------ targeted cases (also run first in every generation)
def _rq(**kw):
    r = {'route': None, 'res': 0, 'vname': '', 'method': 'GET', 'xhr': False, 'truth': []}
    r.update(kw)
    return r


def _v(tag, **kw):
    v = base_view(tag)
    v.update(kw)
    return v


def _case(stmts, grants, requests, cut=None, flavour=0):
    return {'stmts': stmts, 'cut': cut, 'grants': grants, 'flavour': flavour, 'requests': requests}


def targeted_cases():
    out = []
    pol = {'k': 'policy', 'falsy': False, 'ctor': False}
    fpol = {'k': 'policy', 'falsy': True, 'ctor': False}
    all_res = [[p, [0, i]] for p in ('view', 'edit', 'ZERO', 'EMPTY') for i in range(3)]
    # constructor arguments that are falsy objects; append_slash written after the policy is in force
    out.append(_case([{'k': 'policy', 'falsy': True, 'ctor': True}, _v(1, perm='view')], [], [_rq()]))
    out.append(_case([dict(pol), {'k': 'defperm', 'perm': 'view', 'ctor': False}, _v(3, k='notfound', append_slash=True)],
                     [], [_rq(vname='zz')], cut=1))
    out.append(_case([dict(pol), {'k': 'defperm', 'perm': 'ZERO', 'ctor': True}, _v(1)], [], [_rq()]))
    for flavour in range(5):
        for P in (pol, fpol):
            # the policy written after the views of its commit; explicit, default, falsy and marker permissions
            for dp in (None, 'view', 'ZERO', 'EMPTY', 'NPR'):
                st = [_v(1, perm='view'), _v(2, name='v'), _v(3, name='w1', perm='ZERO'), _v(4, name='w2', perm='NPR'),
                      _v(5, ctx='A', perm='EMPTY', deco=True)]
                if dp:
                    st.insert(1, {'k': 'defperm', 'perm': dp, 'ctor': False})
                st.append(dict(P))
                rqs = [_rq(), _rq(vname='v'), _rq(vname='w1'), _rq(vname='w2'), _rq(res=1), _rq(vname='zz')]
                out.append(_case(st, [], rqs, flavour=flavour))
                out.append(_case(copy.deepcopy(st), [['view', [0, 0]], ['ZERO', [0, 0]], ['EMPTY', [0, 1]]], copy.deepcopy(rqs), flavour=flavour))
            # wrapper refused while the inner view is granted, and the other way round
            st = [dict(P), _v(1, perm='view', wrapper='w1'), _v(2, name='w1', perm='edit'), _v(3, name='v', wrapper='w1'),
                  _v(6, name='w2', perm='edit')]
            out.append(_case(st, [['view', [0, 0]]], [_rq(), _rq(vname='v'), _rq(vname='w1')], flavour=flavour))
            out.append(_case(copy.deepcopy(st), [['edit', [0, 0]]], [_rq(), _rq(vname='v'), _rq(vname='w1')], flavour=flavour))
            out.append(_case(copy.deepcopy(st), all_res, [_rq(), _rq(vname='v'), _rq(vname='w1')], flavour=flavour))
            # multiview: two views of one slot, one protected
            st = [dict(P), {'k': 'defperm', 'perm': 'view', 'ctor': False},
                  _v(1, preds={'request_method': 'POST'}, perm='edit'), _v(2), _v(3, preds={'xhr': True}, perm='NPR')]
            rqs = [_rq(), _rq(method='POST'), _rq(xhr=True), _rq(method='POST', xhr=True)]
            out.append(_case(st, [], rqs, flavour=flavour))
            out.append(_case(copy.deepcopy(st), [['edit', [0, 0]]], copy.deepcopy(rqs), flavour=flavour))
            # exception views and the default permission; secured exception view; route-bound views; static
            st = [{'k': 'defperm', 'perm': 'view', 'ctor': False}, {'k': 'route', 'name': 'r1'}, dict(P),
                  _v(1, behave='boom', perm='NPR'), _v(2, ctx='Boom'), _v(3, k='notfound'), _v(4, k='forbidden'),
                  _v(5, route='r1'), _v(6, name='v', behave='forbid', perm='NPR'), {'k': 'static', 'tag': 7, 'perm': None}]
            rqs = [_rq(), _rq(vname='zz'), _rq(route='r1'), _rq(vname='v'), _rq(static=True)]
            out.append(_case(st, [], rqs, flavour=flavour))
            out.append(_case(copy.deepcopy(st), [['view', [0, 0]]], copy.deepcopy(rqs), flavour=flavour))
            st = [dict(P), _v(1, behave='boom'), _v(2, ctx='Boom', perm='edit'), {'k': 'static', 'tag': 7, 'perm': 'ZERO'}]
            out.append(_case(st, [['edit', [1, 4]]], [_rq(), _rq(static=True)], flavour=flavour))
            out.append(_case(copy.deepcopy(st), [], [_rq(), _rq(static=True)], flavour=flavour))
    # render_view_to_response called directly, secure and permissive: single secured view with predicates, multiview
    st = [dict(pol), _v(1, name='v', perm='edit', preds={'request_method': 'POST'}, deco=True), _v(2, name='v', perm='view'),
          _v(3, name='w1', perm='edit', wrapper='w2'), _v(4, name='w2', perm='view'), _v(5, perm='view', preds={'xhr': True})]
    for g in ([], [['view', [0, 0]]], [['edit', [0, 0]]]):
        rqs = []
        for sec in (True, False):
            for vn in ('v', 'w1', '', 'zz'):
                for m in ('GET', 'POST'):
                    rqs.append(dict(_rq(vname=vn, method=m), op='render', secure=sec))
        out.append(_case(copy.deepcopy(st), g, rqs))
    # csrf_view enabled next to a permission: the permission is checked first, then the token
    st = [dict(pol), _v(1, perm='view', csrf=True), _v(2, name='v', csrf=True, deco=True), dict(_v(3, k='forbidden'))]
    rqs = [_rq(method='POST'), dict(_rq(method='POST'), csrf=True), _rq(), _rq(vname='v', method='POST'),
           dict(_rq(vname='v', method='POST'), csrf=True)]
    out.append(_case(copy.deepcopy(st), [], copy.deepcopy(rqs)))
    out.append(_case(copy.deepcopy(st), [['view', [0, 0]]], copy.deepcopy(rqs)))
    # the permission of a class view comes from @view_defaults on the class or on a base class
    for where in ('own', 'base'):
        for kind in ('cls', 'attr', 'cls2'):
            st = [dict(pol), _v(1, kind=kind, vd={'perm': 'edit', 'where': where}),
                  _v(2, name='v', kind=kind, perm='view', vd={'perm': 'edit', 'where': where}),
                  _v(3, name='w1', kind=kind, vd={'perm': 'NPR', 'where': where}), {'k': 'defperm', 'perm': 'view', 'ctor': False}]
            rqs = [_rq(), _rq(vname='v'), _rq(vname='w1')]
            out.append(_case(copy.deepcopy(st), [], copy.deepcopy(rqs)))
            out.append(_case(copy.deepcopy(st), [['edit', [0, 0]], ['view', [0, 0]]], copy.deepcopy(rqs)))
    # a live application: requests are served, then a later commit adds a protected view for a more specific context
    for ctx1, ctx2, res in ((None, 'A', 1), ('A', 'B', 2), (None, 'Root', 0)):
        for route in (None, 'r1'):
            st = [dict(pol)] + ([{'k': 'route', 'name': 'r1'}] if route else []) + \
                 [_v(1, ctx=ctx1, name='v', route=route), _v(2, ctx=ctx2, name='v', route=route, perm='edit')]
            rq = _rq(vname='v', res=res, route=route)
            c = _case(st, [], [copy.deepcopy(rq)], cut=len(st) - 2)
            c['warm'] = [copy.deepcopy(rq)]
            out.append(c)
            c = _case(copy.deepcopy(st), [['edit', [0, res]]], [copy.deepcopy(rq)], cut=len(st) - 2)
            c['warm'] = [copy.deepcopy(rq)]
            out.append(c)
    # two applications in one process: an open sibling serves the same request first
    for st in ([dict(pol), _v(1, perm='view'), _v(2, name='v', ctx='A', perm='edit')],
               [{'k': 'defperm', 'perm': 'edit', 'ctor': False}, _v(1), _v(2, name='v', kind='cls'), dict(pol)]):
        for g in ([], [['view', [0, 0]]]):
            c = _case(copy.deepcopy(st), g, [_rq(), _rq(vname='v', res=1), _rq()])
            c['sibling'] = True
            out.append(c)
    # the deprecated policy pair
    lpol = {'k': 'policy', 'falsy': False, 'ctor': False, 'legacy': True}
    st = [_v(1, perm='view'), _v(2, name='v'), {'k': 'defperm', 'perm': 'edit', 'ctor': False}, dict(lpol)]
    out.append(_case(copy.deepcopy(st), [], [_rq(), _rq(vname='v')]))
    out.append(_case(copy.deepcopy(st), [['view', [0, 0]], ['edit', [0, 0]]], [_rq(), _rq(vname='v')]))
    # constructor arguments
    for falsy in (False, True):
        for dp in ('view', 'ZERO'):
            st = [{'k': 'policy', 'falsy': falsy, 'ctor': True}, {'k': 'defperm', 'perm': dp, 'ctor': True}, _v(1), _v(2, name='v', perm='edit')]
            out.append(_case(st, [], [_rq(), _rq(vname='v')]))
    # the marker VALUE as an equal, non-identical str (explicit and as the default permission)
    dpv = {'k': 'defperm', 'perm': 'view', 'ctor': False}
    st = [dict(pol), dict(dpv), _v(1, perm='NPRC'), _v(2, name='v', perm='NPR'), _v(3, name='w1'),
          {'k': 'static', 'tag': 4, 'perm': 'NPRC'}]
    rqs = [_rq(), _rq(vname='v'), _rq(vname='w1'), _rq(static=True)]
    out.append(_case(copy.deepcopy(st), [], copy.deepcopy(rqs)))
    out.append(_case(copy.deepcopy(st), [['view', [0, 0]]], copy.deepcopy(rqs)))
    st = [dict(pol), {'k': 'defperm', 'perm': 'NPRC', 'ctor': False}, _v(1), _v(2, name='v', perm='edit')]
    out.append(_case(copy.deepcopy(st), [], [_rq(), _rq(vname='v')]))
    st = [dict(pol), {'k': 'defperm', 'perm': 'NPRC', 'ctor': True}, _v(1), _v(2, k='notfound', append_slash=True)]
    out.append(_case(copy.deepcopy(st), [], [_rq(), _rq(vname='zz')]))
    # "not specified" spelled out: permission=None passed explicitly (static view, plain view, exception-context view)
    for dp in ('view', 'ZERO'):
        st = [dict(pol), {'k': 'defperm', 'perm': dp, 'ctor': False}, {'k': 'static', 'tag': 1, 'perm': None, 'xnone': True},
              _v(2, xnone=True), _v(3, ctx='Boom', xnone=True), _v(4, name='v', behave='boom', perm='NPR')]
        rqs = [_rq(static=True), _rq(), _rq(vname='v')]
        out.append(_case(copy.deepcopy(st), [], copy.deepcopy(rqs)))
        out.append(_case(copy.deepcopy(st), [[dp, [0, 0]]], copy.deepcopy(rqs)))
    # a policy object whose `permits` attribute resolves to something else while the application is configured
    for P in ({'k': 'policy', 'falsy': False, 'ctor': False, 'swap': True}, {'k': 'policy', 'falsy': True, 'ctor': True, 'swap': True}):
        st = [dict(P), dict(dpv), _v(1, perm='edit'), _v(2, name='v'), _v(3, name='w1', perm='NPR', wrapper='w2'), _v(4, name='w2', perm='edit')]
        rqs = [_rq(), _rq(vname='v'), _rq(vname='w1')]
        out.append(_case(copy.deepcopy(st), [], copy.deepcopy(rqs)))
        out.append(_case(copy.deepcopy(st), [['view', [0, 0]]], copy.deepcopy(rqs)))
        c = _case(copy.deepcopy(st) + [_v(5, ctx='A', name='v', perm='edit')], [], [_rq(vname='v', res=1), _rq(vname='v')], cut=len(st) - 1)
        c['warm'] = [_rq(vname='v', res=1)]
        out.append(c)
    # one predicate set, two spellings: the later commit overrides an open view with a protected one and writes the
    # request_method tuple in another order / with the implied HEAD spelled out (first registration of the slot AND second)
    for m1, m2 in ((['GET', 'POST'], ['GET', 'HEAD', 'POST']), (['GET', 'HEAD', 'POST'], ['POST', 'GET']), ('GET', ['GET', 'HEAD']),
                   (['POST', 'GET'], ['GET', 'POST']), (['HEAD', 'POST'], ['POST', 'HEAD'])):
        for first in (True, False):
            a, b = _v(1, name='v', preds={'request_method': copy.deepcopy(m1)}), _v(2, name='v', preds={'xhr': True})
            st = [dict(pol)] + ([a, b] if first else [b, a]) + [_v(3, name='v', preds={'request_method': copy.deepcopy(m2)}, perm='edit')]
            rqs = [_rq(vname='v', method=x) for x in ('GET', 'POST', 'HEAD')]
            out.append(_case(copy.deepcopy(st), [], copy.deepcopy(rqs), cut=2))
            out.append(_case(copy.deepcopy(st), [['edit', [0, 0]]], copy.deepcopy(rqs), cut=2))
    # add_view(context=<exception class>) registers a normal half too: a resource that is an instance of the class reaches it,
    # and there the default permission applies (the exception half is exempt)
    for dp in ('view', 'ZERO'):
        st = [dict(pol), {'k': 'defperm', 'perm': dp, 'ctor': False}, _v(1, ctx='Boom'), _v(2, ctx='Exception', perm='edit'),
              _v(3, behave='boom', perm='NPR'), _v(4, ctx='Boom', name='', exc_only=True, route=None, preds={'xhr': True})]
        rqs = [_rq(res=3), _rq(), _rq(res=3, xhr=True)]
        for g in ([], [[dp, [0, 3]]], [[dp, [1, 4]]]):
            out.append(_case(copy.deepcopy(st), g, copy.deepcopy(rqs)))
    # content negotiation: a slot with accept= views served under some Accept header, then a later commit overrides one
    # constituent (same predicates, same accept) with a protected view; the same and other spellings of the header follow
    for other in ({'accept': 'text/html'}, {'preds': {'xhr': True}}):
        st = [dict(pol), _v(1, name='v', accept='application/json'), _v(2, name='v', **other),
              _v(3, name='v', accept='application/json', perm='edit')]
        rqs = [dict(_rq(vname='v'), accept=h) for h in ('application/json', 'application/json;q=0.9', 'text/html', '*/*')] + [_rq(vname='v')]
        for g in ([], [['edit', [0, 0]]]):
            c = _case(copy.deepcopy(st), g, copy.deepcopy(rqs), cut=2)
            c['warm'] = [dict(_rq(vname='v'), accept='application/json'), _rq(vname='v')]
            out.append(c)
        out.append(_case(copy.deepcopy(st[:3]), [], copy.deepcopy(rqs)))
    # two commits: override under the other interface; append_slash written after the policy is in force
    st = [dict(pol), _v(1), _v(2, perm='edit')]
    out.append(_case(st, [], [_rq()], cut=1))
    st = [dict(pol), _v(1, perm='edit'), _v(2)]
    out.append(_case(st, [], [_rq()], cut=1))
    st = [dict(pol), {'k': 'defperm', 'perm': 'view', 'ctor': False}, _v(3, k='notfound', append_slash=True)]
    out.append(_case(st, [], [_rq(vname='zz')], cut=1))
    out.append(_case(copy.deepcopy(st), [['view', [1, 1]]], [_rq(vname='zz')], cut=1))
    return out


def targeted(broken, disagreements, rng):
    out = list(targeted_cases())
    # neighbourhood of the disagreeing cases: every permission token on every view, policy moved to the end
    for d in disagreements[:5]:
        c = d['case']
        for tok in (None, 'view', 'ZERO', 'EMPTY', 'NPR', 'NPRC'):
            c2 = copy.deepcopy(c)
            for s in c2['stmts']:
                if s['k'] == 'view':
                    s['perm'] = tok
                    if tok is not None:
                        s.pop('xnone', None)
            out.append(c2)
        c3 = copy.deepcopy(c)
        for s in list(c3['stmts']):
            if s['k'] == 'policy' and not s['ctor']:
                end = c3['cut'] if c3['cut'] is not None else len(c3['stmts']) - 1
                c3['stmts'].remove(s)
                c3['stmts'].insert(end, s)
        out.append(c3)
    return [c for c in out if valid(c)]
