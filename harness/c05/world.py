"""C05 -- the real Configurator/app of one case, its instrumentation, and the oracle data the model needs.

Everything goes through public seams: a security policy object that logs permits(), view callables that log
their execution, a decorator= that logs, a tween under the exception-view tween that logs the exception the
main handler raised, and a root factory."""
import enum
import os
import tempfile
import warnings

EXC_KINDS = ['forbidden', 'notfound', 'pme', 'valueerror', 'boom', 'csrf']       # CExc index
RES_PATHS = [[], ['a'], ['a', 'b'], ['t']]                               # CRes index; /t is a resource that IS an exception instance
CTX_NAMES = [None, 'Root', 'A', 'B', 'I']
EXC_CTX_NAMES = ['Boom', 'Exception', 'HTTPForbidden', 'HTTPNotFound', 'ValueError']
PERM_TOKENS = ['view', 'edit', 'NPR', 'ZERO', 'EMPTY', 'NPRC']   # NPRC: a str EQUAL to the marker but not the constant object
WRAPPERS = ['w1', 'w2']
OFFERS = ['text/html', 'application/json']                # accept= of a view (content negotiation inside a MultiView)
ACCEPT_HEADERS = ['application/json', 'text/html', 'application/json;q=0.9', 'text/html, application/json;q=0.5', '*/*',
                  'text/plain', 'application/json, text/html;q=0.1']
ROUTES = ['r1', 'r2']
KINDS = ['fn', 'fn1', 'cls', 'cls2', 'attr', 'json']
BUILTIN_TAG = 4500            # the default exception-response view registered by Configurator.__init__

_P = {}


class Perm(enum.IntEnum):
    ZERO = 0
    ONE = 1


def setup():
    if _P:
        return
    warnings.simplefilter('ignore')
    from zope.interface import Interface, implementedBy, providedBy, alsoProvides
    from pyramid.config import Configurator, not_
    from pyramid.interfaces import IRequest, IRouteRequest, IExceptionResponse
    from pyramid.response import Response, FileResponse
    from pyramid.request import Request
    from pyramid.exceptions import PredicateMismatch, BadCSRFToken, BadCSRFOrigin
    from pyramid.csrf import CookieCSRFStoragePolicy
    from pyramid.httpexceptions import HTTPForbidden, HTTPNotFound, HTTPException, WSGIHTTPException
    from pyramid.security import NO_PERMISSION_REQUIRED, Allowed, Denied
    from pyramid.tweens import EXCVIEW

    class I(Interface):
        pass

    class Node:
        def __init__(self, name, parent):
            self.__name__, self.__parent__, self.kids = name, parent, {}
            if parent is not None:
                parent.kids[name] = self

        def __getitem__(self, k):
            return self.kids[k]

    class Root(Node):
        pass

    class A(Node):
        pass

    class B(A):
        pass

    class Boom(Exception):
        pass

    class Tomb(Node, Boom):
        """a resource of the tree that is also raisable (a 'gone' marker): traversal to it reaches the NORMAL half of a view
        registered with add_view(context=<exception class>)"""
        def __init__(self, name, parent):
            Boom.__init__(self, 'gone')
            Node.__init__(self, name, parent)

    for cls in (Root, A, B, Boom, Tomb):
        cls.__module__ = 'c05'
    root = Root('', None)
    a = A('a', root)
    b = B('b', a)
    alsoProvides(b, I)
    tomb = Tomb('t', root)
    resources = [root, a, b, tomb]
    classes = {'Root': Root, 'A': A, 'B': B, 'I': I, 'Boom': Boom, 'Exception': Exception,
               'HTTPForbidden': HTTPForbidden, 'HTTPNotFound': HTTPNotFound, 'ValueError': ValueError}
    # NPRC: the marker VALUE as a view table parsed from JSON / ini / ZCML would carry it -- an equal, non-identical str
    npr_copy = ''.join(list(NO_PERMISSION_REQUIRED))
    assert npr_copy == NO_PERMISSION_REQUIRED and npr_copy is not NO_PERMISSION_REQUIRED
    perm_obj = {'view': 'view', 'edit': 'edit', 'NPR': NO_PERMISSION_REQUIRED, 'ZERO': Perm.ZERO, 'EMPTY': '',
                'NPRC': npr_copy}
    static_dir = os.path.join(tempfile.gettempdir(), 'C05_static')      # one fixed scratch directory, one 6-byte file
    os.makedirs(static_dir, exist_ok=True)
    fn = os.path.join(static_dir, 'f.txt')
    if not os.path.exists(fn):
        tmp = '%s.%d' % (fn, os.getpid())
        with open(tmp, 'w') as f:
            f.write('STATIC')
        os.replace(tmp, fn)

    class Custom:
        def __init__(self, i):
            self.i = i

        def __hash__(self):
            return self.i

        def __eq__(self, o):
            return isinstance(o, Custom) and o.i == self.i

        def __call__(self, context, request):
            return self.i in request.environ['c05.truth']

    _P.update(locals())


def perm_token(obj):
    if isinstance(obj, Perm):
        return 'ZERO' if obj == 0 else 'ONE'
    if obj == _P['NO_PERMISSION_REQUIRED']:
        return 'NPR'
    if obj == '':
        return 'EMPTY'
    return obj


def perm_text(tok):
    """the text the model sees for a permission token"""
    if tok in ('NPR', 'NPRC'):
        return _P['NO_PERMISSION_REQUIRED']
    if tok == 'EMPTY':
        return ''
    if tok == 'ZERO':
        return '\x00ZERO'
    return tok


def perm_from_text(t):
    for tok in PERM_TOKENS:
        if perm_text(tok) == t:
            return tok
    return t


def perm_truthy(tok):
    return bool(_P['perm_obj'][tok])


def ctx_id(obj):
    P = _P
    for i, r in enumerate(P['resources']):
        if obj is r:
            return [0, i]
    if isinstance(obj, (P['BadCSRFToken'], P['BadCSRFOrigin'])):
        return [1, 5]
    if isinstance(obj, P['HTTPForbidden']):
        return [1, 0]
    if isinstance(obj, P['PredicateMismatch']):
        return [1, 2]
    if isinstance(obj, P['HTTPNotFound']):
        return [1, 1]
    if isinstance(obj, P['Boom']):
        return [1, 4]
    if isinstance(obj, ValueError):
        return [1, 3]
    return [2, type(obj).__name__]


def exc_kind(e):
    c = ctx_id(e)
    return EXC_KINDS[c[1]] if c[0] == 1 else 'other:' + type(e).__name__


# ---------------------------------------------------------------- instrumentation
def _policy_classes():
    if 'TruthyPolicy' in _P:
        return
    P = _P

    class PolicyMixin:
        def identity(self, request):
            return None

        def authenticated_userid(self, request):
            return None

        def remember(self, request, userid, **kw):
            return []

        def forget(self, request, **kw):
            return []

        def permits(self, request, context, permission):
            w = request.environ['c05.world']
            tok = perm_token(permission)
            c = ctx_id(context)
            ok = [tok, c] in w.case['grants']
            request.environ['c05.log'].append(['permits', tok, c, ok])
            fl = w.case.get('flavour', 0)
            if ok:
                return [True, P['Allowed']('granted'), 1, 'yes'][fl % 4]
            return [False, P['Denied']('refused'), 0, None, ''][fl % 5]

    class TruthyPolicy(PolicyMixin):
        pass

    def stale_permits(request, context, permission):
        """what the attribute `permits` of a `swap` policy resolves to WHILE THE APPLICATION IS CONFIGURED (a lazily built
        / hot-swapped backend): says yes to everything and logs nothing.  Once the application is built the attribute
        resolves to the real method; code that asks `policy.permits(...)` per request never reaches this one."""
        return True
    P['stale_permits'] = stale_permits

    class FalsyPolicy(PolicyMixin, dict):
        """a policy object that happens to be an (empty, hence falsy) mapping"""
        __hash__ = object.__hash__

    class LegacyAuthz:
        """authorization policy of the deprecated pair; permits(context, principals, permission) has no request: the log of
        the request being served is found through _CUR"""
        def permits(self, context, principals, permission):
            env = _CUR['env']
            return PolicyMixin.permits(self, P['Request'](env), context, permission)

        def principals_allowed_by_permission(self, context, permission):
            return []

    class LegacyAuthn:
        def authenticated_userid(self, request):
            return None

        def unauthenticated_userid(self, request):
            return None

        def effective_principals(self, request):
            return []

        def remember(self, request, userid, **kw):
            return []

        def forget(self, request):
            return []

    P['TruthyPolicy'], P['FalsyPolicy'] = TruthyPolicy, FalsyPolicy
    P['LegacyAuthz'], P['LegacyAuthn'] = LegacyAuthz, LegacyAuthn


_CUR = {}


def raise_logger(handler, registry):
    """tween placed under the exception-view tween: sees what the main handler raised / returned"""
    def tween(request):
        try:
            response = handler(request)
        except Exception as e:
            request.environ['c05.log'].append(['raised', exc_kind(e)])
            raise
        if isinstance(response, _P['FileResponse']):
            w = request.environ['c05.world']
            request.environ['c05.log'].append(['body', w.static_tag, ctx_id(request.context)])
        return response
    return tween


def _run_body(request, context, tag, behave):
    P = _P
    if context is None:
        exc = getattr(request, 'exception', None)
        context = exc if exc is not None else request.context
    request.environ['c05.log'].append(['body', tag, ctx_id(context)])
    if behave == 'boom':
        raise P['Boom']('boom')
    if behave == 'forbid':
        raise P['HTTPForbidden']('app says no')
    if behave == 'notfound':
        raise P['HTTPNotFound']('app says missing')


def _with_defaults(cls, vd):
    """@view_defaults(permission=..) on the class itself ('own') or on a base class the view class inherits from ('base')"""
    if not vd:
        return cls
    from pyramid.view import view_defaults
    perm = _P['perm_obj'][vd['perm']]
    if vd['where'] == 'own':
        return view_defaults(permission=perm)(cls)
    base = view_defaults(permission=perm)(type('Base', (), {}))
    return type(cls.__name__, (cls, base), {})


def make_view(tag, kind, behave, vd=None):
    """-> (view, attr, renderer)"""
    P = _P

    def resp():
        r = P['Response']('ok')
        r.headers['X-Tag'] = 'v%d' % tag
        return r
    if kind == 'fn':
        def view(context, request):
            _run_body(request, context, tag, behave)
            return resp()
        return view, None, None
    if kind == 'fn1':
        def view(request):
            _run_body(request, None, tag, behave)
            return resp()
        return view, None, None
    if kind == 'json':
        def view(context, request):
            _run_body(request, context, tag, behave)
            request.response.headers['X-Tag'] = 'v%d' % tag
            return {'tag': tag}
        return view, None, 'json'
    if kind == 'cls2':
        class View:
            def __init__(self, context, request):
                self.context, self.request = context, request

            def __call__(self):
                _run_body(self.request, self.context, tag, behave)
                return resp()
        return _with_defaults(View, vd), None, None

    class View1:
        def __init__(self, request):
            self.request = request

        def __call__(self):
            _run_body(self.request, None, tag, behave)
            return resp()

        def go(self):
            _run_body(self.request, None, tag, behave)
            return resp()
    return _with_defaults(View1, vd), ('go' if kind == 'attr' else None), None


def make_deco(tag):
    def deco(view):
        def wrapped(context, request):
            request.environ['c05.log'].append(['deco', tag, ctx_id(context)])
            return view(context, request)
        return wrapped
    return deco


SIBLING_TAG = 1000


def sibling_case(case):
    """the configuration of the second application of a two-application history"""
    import copy
    st = []
    cut, ncut = case.get('cut'), None
    for i, s0 in enumerate(case['stmts']):
        if cut is not None and i == cut + 1 and st:
            ncut = len(st) - 1                 # the same commits as the first application
        if s0['k'] in ('policy', 'defperm'):
            continue
        s1 = copy.deepcopy(s0)
        if 'tag' in s1:
            s1['tag'] += SIBLING_TAG
        if 'perm' in s1:
            s1['perm'] = None
        s1.pop('vd', None)
        s1.pop('csrf', None)
        st.append(s1)
    return {'stmts': st, 'cut': ncut, 'grants': [], 'flavour': 0, 'requests': []}


class World:
    def __init__(self, case):
        setup()
        _policy_classes()
        self.case = case
        self.error = None
        self.static_tag = None
        self.ids = {}
        self.sibling = None
        try:
            self._build()
            if case.get('sibling'):
                # a SECOND application in the same process, fully configured before any request is served: the same
                # statements without policy / default permission / view permissions (every view open), other body tags
                self.sibling = World(sibling_case(case))
                if self.sibling.error:
                    raise RuntimeError('sibling application: %r' % (self.sibling.error,))
        except Exception as e:       # configuration-time failure: reported as an observation
            self.error = ['CONFIG-ERROR', type(e).__name__]

    # ---- ids of interfaces / class specifications (oracle side)
    def iid(self, spec):
        return self.ids.setdefault(spec, len(self.ids))

    def ctx_spec(self, name):
        P = _P
        if name is None:
            return P['Interface']
        c = P['classes'][name]
        return c if name == 'I' else P['implementedBy'](c)

    def _build(self):
        P, case = _P, self.case
        stmts = case['stmts']
        ctor = {}
        for s in stmts:
            if s['k'] == 'policy':
                self.policy = (P['FalsyPolicy'] if s['falsy'] else P['TruthyPolicy'])()
                if s.get('swap'):
                    self.policy.permits = P['stale_permits']       # instance attribute, removed when the app is built
                if s['ctor']:
                    ctor['security_policy'] = self.policy
            if s['k'] == 'defperm' and s['ctor']:
                ctor['default_permission'] = P['perm_obj'][s['perm']]
        cfg = P['Configurator'](root_factory=lambda request: P['root'], **ctor)
        cfg.add_tween('harness.c05.world.raise_logger', under=P['EXCVIEW'])
        cfg.set_csrf_storage_policy(P['CookieCSRFStoragePolicy']())      # require_csrf=True views need no session
        self.cfg = cfg
        self.iid(P['Interface'])
        self.iid(P['IRequest'])
        self.eager = {}               # tag -> (policy present, default permission token|None) when the statement was written
        cut = case.get('cut')
        for i, s in enumerate(stmts):
            self._stmt(s)
            if cut is not None and i == cut:
                cfg.commit()
                if case.get('warm'):
                    # the application is live between the commits: it serves requests (and fills the view-lookup cache)
                    self.app = cfg.make_wsgi_app()
                    self._go_live()
                    self.warm_obs = [self.run(r) for r in case['warm']]
        self.app = cfg.make_wsgi_app()
        self._go_live()
        self.route_iface = {}
        for r in ROUTES:
            ri = cfg.registry.queryUtility(P['IRouteRequest'], name=r)
            if ri is not None:
                self.route_iface[r] = ri
                self.iid(ri)
        rq = self.app.request_factory({'REQUEST_METHOD': 'GET', 'PATH_INFO': '/', 'SERVER_NAME': 'x', 'SERVER_PORT': '80',
                                       'wsgi.url_scheme': 'http'})
        self.wrap_sro = [self.iid(i) for i in P['providedBy'](rq).__sro__]

    def _go_live(self):
        """the application has been built: from now on the policy object's `permits` is the real one"""
        pol = getattr(self, 'policy', None)
        if pol is not None:
            pol.__dict__.pop('permits', None)

    def _stmt(self, s):
        P, cfg = _P, self.cfg
        k = s['k']
        if k == 'policy':
            if s.get('legacy'):          # the deprecated pair: LegacySecurityPolicy becomes the ISecurityPolicy
                cfg.set_authorization_policy(P['LegacyAuthz']())
                cfg.set_authentication_policy(P['LegacyAuthn']())
            elif not s['ctor']:
                cfg.set_security_policy(self.policy)
            return
        if k == 'defperm':
            if not s['ctor']:
                cfg.set_default_permission(P['perm_obj'][s['perm']])
            return
        if k == 'route':
            cfg.add_route(s['name'], '/%s/*traverse' % s['name'], use_global_views=(s['name'] == 'r2'))
            return
        tag = s['tag']
        from pyramid.interfaces import ISecurityPolicy, IDefaultPermission
        dp = cfg.registry.queryUtility(IDefaultPermission)
        self.eager[tag] = (cfg.registry.queryUtility(ISecurityPolicy) is not None,
                           None if dp is None else perm_token(dp))
        if k == 'static':
            self.static_tag = tag
            kw = {}
            if s['perm'] is not None:
                kw['permission'] = P['perm_obj'][s['perm']]
            elif s.get('xnone'):
                kw['permission'] = None          # "not specified", spelled out (forwarded from an optional setting)
            cfg.add_static_view('static', P['static_dir'], **kw)
            return
        view, attr, renderer = make_view(tag, s['kind'], s['behave'], s.get('vd') if k == 'view' else None)
        kw = {'attr': attr, 'renderer': renderer}
        if s.get('wrapper'):
            kw['wrapper'] = s['wrapper']
        if s.get('deco'):
            kw['decorator'] = make_deco(tag)
        if s.get('route'):
            kw['route_name'] = s['route']
        for n, val in sorted(s.get('preds', {}).items()):
            if n == 'custom':
                kw['custom_predicates'] = tuple(P['not_'](P['Custom'](i)) if nt else P['Custom'](i) for i, nt in val)
            elif n == 'request_method':
                kw[n] = tuple(val) if isinstance(val, list) else val
            else:
                kw[n] = val
        if k == 'view':
            if s.get('accept'):
                kw['accept'] = s['accept']
            if s['perm'] is not None:
                kw['permission'] = P['perm_obj'][s['perm']]
            elif s.get('xnone'):
                kw['permission'] = None          # "not specified", spelled out
            if s['ctx'] is not None:
                kw['context'] = P['classes'][s['ctx']]
            if s.get('exc_only'):
                kw['exception_only'] = True
            if s.get('csrf'):
                kw['require_csrf'] = True
            cfg.add_view(view, name=s['name'], **kw)
        elif k == 'notfound':
            cfg.add_notfound_view(view, append_slash=bool(s.get('append_slash')), **kw)
        elif k == 'forbidden':
            cfg.add_forbidden_view(view, **kw)
        elif k == 'excview':
            cfg.add_exception_view(view, context=P['classes'][s['ctx']], **kw)
        else:
            raise ValueError(k)

    # ---- requests
    def url(self, r):
        if r.get('static'):
            return '/static/f.txt'
        segs = ([r['route']] if r['route'] else []) + list(RES_PATHS[r['res']]) + ([r['vname']] if r['vname'] else [])
        # route-bound URLs end in '/': path + '/' must never match a route (AppendSlashNotFoundViewFactory)
        return '/' + '/'.join(segs) + ('/' if r['route'] else '')

    def run(self, r):
        P = _P
        if self.sibling is not None and not r.get('static'):
            self.sibling.run(r)              # the other application serves the same request first (its log is dropped)
        log = []
        rq = P['Request'].blank(self.url(r))
        rq.method = r['method']
        if r['xhr']:
            rq.headers['X-Requested-With'] = 'XMLHttpRequest'
        if r.get('csrf'):
            rq.headers['Cookie'] = 'csrf_token=tok'
            rq.headers['X-CSRF-Token'] = 'tok'
        if r.get('accept'):
            rq.headers['Accept'] = r['accept']
        env = rq.environ
        env['c05.log'], env['c05.truth'], env['c05.world'] = log, list(r['truth']), self
        got = {}
        _CUR['env'] = env

        def start_response(status, headers, exc_info=None):
            got['status'], got['headers'] = status, dict(headers)
        try:
            body = b''.join(self.app(env, start_response))
            tag = got['headers'].get('X-Tag')
            if tag is not None:
                out = ['ret', int(tag[1:])]
            elif body == b'STATIC':
                out = ['ret', self.static_tag]
            else:
                out = ['ret', BUILTIN_TAG, got['status'][:3]]
        except Exception as e:
            out = ['exc', exc_kind(e)]
        return [log, out]

    def run_render(self, r):
        """pyramid.view.render_view_to_response(context, request, name, secure) called directly (no router)"""
        P = _P
        from pyramid.view import render_view_to_response
        log = []
        rq = P['Request'].blank('/')
        rq.method = r['method']
        if r['xhr']:
            rq.headers['X-Requested-With'] = 'XMLHttpRequest'
        if r.get('csrf'):
            rq.headers['Cookie'] = 'csrf_token=tok'
            rq.headers['X-CSRF-Token'] = 'tok'
        if r.get('accept'):
            rq.headers['Accept'] = r['accept']
        rq.environ['c05.log'], rq.environ['c05.truth'], rq.environ['c05.world'] = log, list(r['truth']), self
        rq.registry = self.cfg.registry
        _CUR['env'] = rq.environ
        context = P['resources'][r['res']]
        rq.context = context
        try:
            resp = render_view_to_response(context, rq, r['vname'], secure=bool(r['secure']))
            if resp is None:
                out = ['none']
            else:
                out = ['ret', int(resp.headers['X-Tag'][1:])]
        except Exception as e:
            out = ['exc', exc_kind(e)]
        return [log, out]

    # ---- oracle data for one request
    def oracle(self, r):
        P = _P
        if r.get('static'):
            riface = self.route_iface.get('__static/')
            if riface is None:
                riface = self.cfg.registry.queryUtility(P['IRouteRequest'], name='__static/')
                if riface is not None:
                    self.route_iface['__static/'] = riface
            res, vname = 0, ''
        else:
            riface = self.route_iface.get(r['route']) if r['route'] else None
            res, vname = r['res'], r['vname']
        if riface is None:
            riface = P['IRequest']
        context = P['resources'][res]
        excs = {'forbidden': P['HTTPForbidden'](), 'notfound': P['HTTPNotFound'](), 'pme': P['PredicateMismatch'](''),
                'valueerror': ValueError(), 'boom': P['Boom'](), 'csrf': P['BadCSRFToken']()}
        rq = P['Request'].blank('/')
        if r.get('accept'):
            rq.headers['Accept'] = r['accept']
        accq = []
        for o in OFFERS:                       # (oracle, WebOb) quality of each offer under this request's Accept header
            got = rq.accept.acceptable_offers([o])
            if got:
                accq.append([o, int(round(got[0][1] * 1000))])
        return {'accq': accq, 'req_sro': [self.iid(i) for i in riface.__sro__],
                'comb_sro': [self.iid(i) for i in riface.combined.__sro__],
                'wrap_sro': list(self.wrap_sro),
                'ctx_sro': [self.iid(i) for i in P['providedBy'](context).__sro__],
                'exc_sro': [[self.iid(i) for i in P['providedBy'](excs[k]).__sro__] for k in EXC_KINDS],
                'res': res, 'vname': vname}
