"""C05 translator: Python ast of the view-execution core -> Gallina definitions gen_* emitted into
coq/Gen/Facts_C05.v on every run (prop.facts).  Fail-closed: a statement outside the SUBSET, an expression outside the
PRIMITIVE TABLE, a typing surprise -> Problem; the caller records a broken tie and emits the stored fallback text
(harness/c05/gen_fallback.json = the translation of the text the hand-written model was written against) so that the Coq
development still type-checks and the equality theorems of Proofs/C05_gen.v decide.

Translated (function -> generated definition):
  viewderivers._secured_view (derive-time part)      gen_secured_permission      : option text
  viewderivers._secured_view.secured_view (closure,  gen_secured_call            : comp
      with the closure `permitted` inlined)
  viewderivers.secured_view                          gen_secured_view_deriver    : V
  viewderivers._authdebug_view (derive-time part)    gen_authdebug_view          : V
  view._find_views                                   gen_find_views              : list component
  view._call_view                                    gen_call_view               : comp
  tweens.excview_tween_factory.excview_tween         gen_excview_tween           : comp
  tweens._error_handler                              gen_error_handler           : comp
  view.ViewMethodsMixin.invoke_exception_view        gen_invoke_exception_view   : comp
  router.Router.invoke_request                       gen_invoke_request          : comp
  router.Router.handle_request (from `response = _call_view(...)` on)   gen_handle_request_view : comp
  httpexceptions.default_exceptionresponse_view      gen_default_exceptionresponse_view : V
  config/views.MultiView.__call__                    gen_mv_call                 : comp

=== CONTROL FLOW (mechanical, continuation passing; the names of locals never reach the output except as binder hints) ===
  s1; s2; ...           the translation of s1 receives the translation of the rest as its continuation
  v = e                 substitution (no let); v = <computation> becomes  m_bind c (fun v => rest)  (m_bindb for permits)
  if c: A else: B; rest decision tree over the ATOMS of c (`and`/`or` split, `not` swaps, elif = nested if); each branch gets
                        its own copy of rest; an `if` whose branches are the same term disappears; a test on an option-typed
                        variable (`x is None`) becomes a match that narrows x; a test that only involves ERASED values must
                        not matter (both branches equal) -- except the idiom `if <erased>: raise <unmodelled class>` which is
                        dropped (assumption A3)
  for T in E: B; rest   (fix loopN (l : list elem) (carried..) {struct l} := match l with [] => rest | x :: t => B end) E v..
                        carried = variables assigned (or .append-ed) in B that are bound at loop entry; continue / end of B =
                        recursive call with the current values; break = rest; return = result
  for T in (f, g): B    a loop over a tuple literal is unrolled
  try: B except K as n: H [finally: F]
                        T1: B never falls through (every path returns or raises):  m_try B' (fun e => if exc_isa K e then
                            H';rest else m_raise e); variables assigned in B before a statement that may raise are unbound in H
                        T2: B is the single statement `x = <computation>` and no handler returns:
                            m_bind (m_try c (fun e => .. H' yielding x ..)) (fun x => rest)
                        F must consist of ERASED statements (then `finally` does not change the log or the outcome)
  with <erased>: B      B
  return e / raise K(..) / raise v / bare raise / reraise(*exc_info)     m_ret, m_raise (exc_new K), m_raise v, ...
  def f(..): ..         a closure; a call of a closure whose body is one `return e` is inlined; attribute assignments on a
                        closure object are recorded and checked (__call_permissive__ must be the wrapped view)

=== PRIMITIVE TABLE (trusted: each line is a claim about Python/Pyramid semantics) =======================================
  see SPECS below: per function the typed parameters (by position), the call table and the erased names.
  common:  x is None / is not None   on option values: match / o_is_none; on responses: res_is_none
           permission == NO_PERMISSION_REQUIRED      opt_text_eqb permission no_permission_required (regenerated constant)
           policy.permits(request, context, permission)   m_permits tb p c   (logged; answer = truthiness, decision table)
           view(context, request) / view_callable(context, request)     the parameter computation `inner` / `call v`
           getattr(v, '__call_permissive__', None), getattr(v, '__predicated__', None)    permissive_of v, predicated_of v
           predicated(context, request)              run_pred p
           _find_views(registry, request_iface, context_iface, view_name, view_types=.., view_classifier=..)   find i
           registered((cls, req, ctx), view_type, name=view_name)     R (mkSlot cls req ctx name) view_type
           itertools.product(a.__sro__, b.__sro__)   list_prod a b ;  views.append(x)   views := views ++ [x]
           (IView, ISecuredView, IMultiView)         [IView; ISecuredView; IMultiView] ; IViewClassifier  view_classifier
           sys.exc_info()                            the exception being handled ; exc_info[1] its value
           reraise(*exc_info) / reraise_(*exc_info)  m_raise <that exception>
           HTTPForbidden(..), HTTPNotFound(..), PredicateMismatch(..)    exc_new C..
           except Exception / HTTPNotFound / PredicateMismatch           exc_isa C.. e
  ASSUMPTIONS built into the table (also in prop.ASSUMPTIONS):
    A1 the view-lookup cache misses (cache.get(..) is None; storing into it is not observable) -- its transparency is C15's
    A2 no response callbacks, no finished callbacks, no event subscribers (request.response_callbacks falsy,
       registry.has_listeners falsy, finish_request / manager.push / manager.pop / hide_attrs do not touch the log)
    A3 guards of the form `if <unmodelled state>: raise <unmodelled class>` do not fire (a registry exists)
    A4 sys.exc_info() inside _error_handler is the exception the tween caught
"""
import ast
import json
import os
import re

# every source function whose control flow is regenerated on every run (tools/coverage_map.py reads this list).
# Router.handle_request and excview_tween_factory are translated in part; the rest of their text is pinned in pins_masked.json.
TRANSLATED = [
    'pyramid/viewderivers.py:secured_view',
    'pyramid/viewderivers.py:_secured_view',
    'pyramid/viewderivers.py:_secured_view.permitted',
    'pyramid/viewderivers.py:_secured_view.secured_view',
    'pyramid/viewderivers.py:_authdebug_view',              # derive-time part; the nested authdebug_view closure is PINNED
    'pyramid/view.py:_find_views',
    'pyramid/view.py:_call_view',
    'pyramid/view.py:ViewMethodsMixin.invoke_exception_view',
    'pyramid/tweens.py:_error_handler',
    'pyramid/tweens.py:excview_tween_factory',
    'pyramid/tweens.py:excview_tween_factory.excview_tween',
    'pyramid/router.py:Router.invoke_request',
    'pyramid/router.py:Router.handle_request',
    'pyramid/httpexceptions.py:default_exceptionresponse_view',
    'pyramid/config/views.py:MultiView.__call__',
]

HERE = os.path.dirname(os.path.abspath(__file__))
FALLBACK = os.path.join(HERE, 'gen_fallback.json')
_NC = object()

OPT = {'otext': 'text', 'oN': 'N', 'oview': 'view', 'opcall': 'pcall', 'opred': 'pred', 'oexc': 'exc', 'ovtypes': 'vtypes'}
COQTY = {'comp': 'comp', 'res': 'res', 'bool': 'bool', 'otext': 'option text', 'text': 'text', 'exc': 'exc', 'oexc': 'option exc',
         'N': 'N', 'oN': 'option N', 'views': 'list component', 'view': 'component', 'oview': 'option component',
         'pcall': 'PC', 'opcall': 'option PC', 'pred': 'PR', 'opred': 'option PR', 'vtypes': 'list vtype',
         'ovtypes': 'option (list vtype)', 'vtype': 'vtype', 'pairNN': '(N * N)%type', 'listpair': 'list (N * N)', 'listN': 'list N',
         'V': 'V', 'ctx': 'ctx', 'bcomp': '(trace * bool)%type', 'entries': 'list entry', 'entry3': 'entry'}
ELEM = {'views': 'view', 'vtypes': 'vtype', 'listpair': 'pairNN', 'listN': 'N', 'entries': 'entry3'}


class Problem(Exception):
    pass


def u(node):
    try:
        return ast.unparse(node)
    except Exception:
        return '<%s>' % type(node).__name__


class Val:
    def __init__(self, coq, ty, const=_NC, **kw):
        self.coq, self.ty, self.const = coq, ty, const
        self.__dict__.update(kw)


ERASED = Val('tt', 'erased')
NONE = Val('None', 'none', const=None)


def is_erased(v):
    return v.ty in ('erased', 'str')


class Fn:
    """translation of one function body"""

    def __init__(self, spec, label):
        self.spec, self.label = spec, label
        self.n = 0
        self.attrs = {}
        self.assumed = []
        self.made = set()

    def fresh(self, hint):
        self.n += 1
        nm = '%s_%d' % (''.join(ch if ch.isalnum() or ch == '_' else '_' for ch in hint).strip('_') or 'x', self.n)
        self.made.add(nm)
        return nm

    def same(self, a, b):
        """equality of two terms up to the numbering of generated binders"""
        def canon(t):
            m = {}
            def r(mo):
                w = mo.group(0)
                if w in self.made:
                    return m.setdefault(w, 'b%d' % len(m))
                return w
            return re.sub(r'[A-Za-z_][A-Za-z0-9_]*', r, t)
        return a == b or canon(a) == canon(b)

    def bad(self, node, why):
        raise Problem('%s line %s: %s: %s' % (self.label, getattr(node, 'lineno', '?'), why, u(node)[:90]))

    # ------------------------------------------------------------ expressions
    def ev(self, node, env):
        if isinstance(node, ast.Constant):
            if node.value is None:
                return NONE
            if isinstance(node.value, bool):
                return Val('true' if node.value else 'false', 'bool', const=node.value)
            if isinstance(node.value, str):
                return Val('tt', 'str', text=node.value)
            self.bad(node, 'constant outside the table')
        if isinstance(node, ast.Name):
            if node.id in env:
                return env[node.id]
            g = self.spec.get('globals', {})
            if node.id in g:
                return g[node.id]
            self.bad(node, 'name is not bound in the translated fragment')
        if isinstance(node, ast.Attribute):
            key = self.path(node, env)
            t = self.spec.get('attrs', {})
            if key in t:
                return t[key]
            base = self.ev(node.value, env)
            if is_erased(base):
                return ERASED
            self.bad(node, 'attribute outside the table (%s)' % key)
        if isinstance(node, ast.Subscript):
            base = self.ev(node.value, env)
            if base.ty == 'excinfo' and isinstance(node.slice, ast.Constant) and node.slice.value == 1:
                return Val(base.coq, 'exc')
            if is_erased(base):
                return ERASED
            self.bad(node, 'subscript outside the table')
        if isinstance(node, ast.Tuple):
            vals = [self.ev(e, env) for e in node.elts]
            return Val(None, 'tuple', elts=vals)
        if isinstance(node, ast.List) and not node.elts:
            return Val('[]', 'views')
        if isinstance(node, ast.Dict):
            for e in list(node.keys) + list(node.values):
                self.ev(e, env)
            return ERASED
        if isinstance(node, ast.BinOp) and isinstance(node.op, ast.Mod):
            self.ev(node.left, env), self.ev(node.right, env)
            return Val('tt', 'str')
        if isinstance(node, ast.BoolOp) and isinstance(node.op, ast.Or) and len(node.values) == 2:
            a, b = self.ev(node.values[0], env), self.ev(node.values[1], env)
            if a.ty == 'V' and b.ty == 'V':
                return Val('(py_or %s %s)' % (a.coq, b.coq), 'V')
            if is_erased(a) and is_erased(b):
                return ERASED
            self.bad(node, '`or` outside the table')
        if isinstance(node, ast.Starred):
            return self.ev(node.value, env)
        if isinstance(node, ast.Call):
            return self.call(node, env)
        self.bad(node, 'expression form outside the subset')

    def path(self, node, env):
        """dotted path with the root variable replaced by its TYPE (so renaming a local does not matter)"""
        parts = []
        while isinstance(node, ast.Attribute):
            parts.append(node.attr)
            node = node.value
        if isinstance(node, ast.Name):
            if node.id in env and not is_erased(env[node.id]):
                root = '<%s>' % env[node.id].ty
            else:
                root = node.id
        else:
            root = '<expr>'
        return '.'.join([root] + parts[::-1])

    def call(self, node, env):
        f = node.func
        args = [self.ev(a, env) for a in node.args]
        kws = {k.arg: self.ev(k.value, env) for k in node.keywords}
        if isinstance(f, ast.Name) and f.id in env:
            v = env[f.id]
            if v.ty == 'closure':
                return self.inline(v, node, args, kws)
            rule = self.spec.get('apply', {}).get(v.ty)
            if rule is not None:
                return rule(self, v, args, kws, node)
            if is_erased(v):
                return ERASED
            self.bad(node, 'call of a %s value outside the table' % v.ty)
        if isinstance(f, ast.Call):                     # wraps_view(wrapper)(view, info)
            inner = self.ev(f, env)
            rule = self.spec.get('apply', {}).get(inner.ty)
            if rule is not None:
                return rule(self, inner, args, kws, node)
            self.bad(node, 'call of a call result outside the table')
        key = self.path(f, env) if isinstance(f, ast.Attribute) else (f.id if isinstance(f, ast.Name) else '<expr>')
        lits = tuple(a.text for a in args if a.ty == 'str' and hasattr(a, 'text'))
        t = self.spec.get('calls', {})
        for k in ((key, lits), key):
            if k in t:
                return t[k](self, args, kws, node, env)
        # a call on / of erased things with erased arguments is erased
        root_erased = (isinstance(f, ast.Attribute) and is_erased(self.ev(f.value, env))) or \
                      (isinstance(f, ast.Name) and f.id in self.spec.get('erased_calls', ()))
        if root_erased:
            return ERASED
        self.bad(node, 'call outside the table (%s)' % key)

    def inline(self, clo, node, args, kws):
        fd = clo.node
        if len(fd.body) != 1 or not isinstance(fd.body[0], ast.Return) or kws:
            self.bad(node, 'only a closure of the form `return e` can be inlined')
        names = [a.arg for a in fd.args.args]
        if len(names) != len(args):
            self.bad(node, 'closure arity')
        env2 = dict(clo.env)
        env2.update(zip(names, args))
        return self.ev(fd.body[0].value, env2)

    # ------------------------------------------------------------ conditions
    def ite(self, c, t, f):
        if self.same(t, f):
            return t
        return '(if %s then %s else %s)' % (c, t, f)

    def cond(self, test, env, kt, kf):
        if isinstance(test, ast.BoolOp):
            vs = test.values
            rest = vs[1] if len(vs) == 2 else ast.BoolOp(op=test.op, values=vs[1:])
            if isinstance(test.op, ast.And):
                return self.cond(vs[0], env, lambda e: self.cond(rest, e, kt, kf), kf)
            return self.cond(vs[0], env, kt, lambda e: self.cond(rest, e, kt, kf))
        if isinstance(test, ast.UnaryOp) and isinstance(test.op, ast.Not):
            return self.cond(test.operand, env, kf, kt)
        if isinstance(test, ast.Compare) and len(test.ops) == 1:
            op, l, r = test.ops[0], test.left, test.comparators[0]
            if isinstance(op, (ast.Is, ast.IsNot)) and isinstance(r, ast.Constant) and r.value is None:
                a, b = (kt, kf) if isinstance(op, ast.Is) else (kf, kt)
                return self.none_test(l, env, a, b)
            if isinstance(op, (ast.Eq, ast.NotEq)):
                a, b = (kt, kf) if isinstance(op, ast.Eq) else (kf, kt)
                lv, rv = self.ev(l, env), self.ev(r, env)
                if rv.ty == 'otext' or (rv.ty == 'text' and lv.ty != 'otext' and lv.ty == 'text' and False):
                    lv, rv = rv, lv
                if lv.const is None:
                    return b(env)
                if lv.ty == 'otext' and rv.ty == 'text':
                    return self.ite('(opt_text_eqb %s %s)' % (lv.coq, rv.coq), a(env), b(env))
                if lv.ty == 'text' and rv.ty == 'text':
                    return self.ite('(text_eqb %s %s)' % (lv.coq, rv.coq), a(env), b(env))
                self.bad(test, 'comparison outside the table')
            self.bad(test, 'comparison outside the table')
        if isinstance(test, ast.Call) and isinstance(test.func, ast.Name) and test.func.id == 'isinstance':
            rule = self.spec.get('isinstance')
            if rule is None:
                self.bad(test, 'isinstance outside the table')
            return self.ite(rule(self, test, env), kt(env), kf(env))
        v = self.ev(test, env)
        if v.const is True:
            return kt(env)
        if v.const is False or v.const is None:
            return kf(env)
        if v.ty == 'bool':
            return self.ite(v.coq, kt(env), kf(env))
        if v.ty == 'views':
            return self.ite('(nonempty_views %s)' % v.coq, kt(env), kf(env))
        if v.ty == 'res':
            self.bad(test, 'truthiness of a response is not in the table')
        if is_erased(v):
            return self.erased_test(test, env, kt, kf)
        self.bad(test, 'test outside the table (%s)' % v.ty)

    def erased_test(self, test, env, kt, kf):
        t, f = kt(env), kf(env)
        if not self.same(t, f):
            self.bad(test, 'control flow depends on an unmodelled value')
        return t

    def none_test(self, l, env, k_none, k_some):
        v = self.ev(l, env)
        if v.const is None:
            return k_none(env)
        if v.ty in OPT:
            if isinstance(l, ast.Name):
                b = self.fresh(l.id)
                e2 = dict(env)
                e2[l.id] = Val(b, OPT[v.ty])
                tn, ts = k_none(env), k_some(e2)
                if self.same(tn, ts):
                    return tn
                return '(match %s with None => %s | Some %s => %s end)' % (v.coq, tn, b, ts)
            return self.ite('(o_is_none %s)' % v.coq, k_none(env), k_some(env))
        if v.ty == 'res':
            return self.ite('(res_is_none %s)' % v.coq, k_none(env), k_some(env))
        if v.ty == 'presence':
            return self.ite('(negb %s)' % v.coq, k_none(env), k_some(env))
        if is_erased(v):
            return self.erased_test(l, env, k_none, k_some)
        if v.ty in ('text', 'N', 'view', 'exc', 'V', 'views', 'vtypes', 'excinfo'):
            return k_some(env)                     # a value of a non-optional model type is not None
        self.bad(l, '`is None` on a %s' % v.ty)

    # ------------------------------------------------------------ statements
    def coerce(self, v, ty, node):
        if v.ty == ty:
            return v.coq
        if ty in OPT and v.ty == OPT[ty]:
            return '(Some %s)' % v.coq
        if ty in OPT and v.const is None:
            return 'None'
        if ty == 'res' and v.const is None:
            return 'NoView'
        self.bad(node, 'a %s where a %s is expected' % (v.ty, ty))

    def ret(self, v, node):
        rt = self.spec['ret']
        if rt == 'comp':
            if v.ty == 'comp':
                return v.coq
            return '(m_ret %s)' % self.coerce(v, 'res', node)
        return self.coerce(v, rt, node)

    def assigned(self, stmts):
        out = []
        for st in stmts:
            for n in ast.walk(st):
                if isinstance(n, ast.Assign):
                    for t in n.targets:
                        if isinstance(t, ast.Name) and t.id not in out:
                            out.append(t.id)
                elif isinstance(n, ast.ExceptHandler) and n.name and n.name not in out:
                    pass
                elif isinstance(n, ast.Call) and isinstance(n.func, ast.Attribute) and n.func.attr == 'append' \
                        and isinstance(n.func.value, ast.Name) and n.func.value.id not in out:
                    out.append(n.func.value.id)
        return out

    def may_raise(self, st, env):
        return any(isinstance(n, (ast.Call, ast.Raise)) for n in ast.walk(st))

    def block(self, stmts, i, env, kend, loop=None):
        if i >= len(stmts):
            return kend(env)
        st = stmts[i]
        nxt = lambda e: self.block(stmts, i + 1, e, kend, loop)
        if isinstance(st, ast.Expr):
            v = st.value
            if isinstance(v, ast.Constant):
                return nxt(env)
            if isinstance(v, ast.BoolOp):                       # `a and f(..)` used as a statement
                first = self.ev(v.values[0], env)
                if first.const is False or all(is_erased(self.ev(x, env)) for x in v.values):
                    return nxt(env)
                self.bad(st, 'expression statement outside the table')
            if isinstance(v, ast.Call) and isinstance(v.func, ast.Attribute) and v.func.attr == 'append' \
                    and isinstance(v.func.value, ast.Name) and v.func.value.id in env and env[v.func.value.id].ty == 'views':
                x = self.ev(v.args[0], env)
                e2 = dict(env)
                e2[v.func.value.id] = Val('(%s ++ [%s])' % (env[v.func.value.id].coq, self.coerce(x, 'view', st)), 'views')
                return nxt(e2)
            r = self.ev(v, env)
            if r.ty == 'comp':
                return '(m_bind %s (fun _ => %s))' % (r.coq, nxt(env))
            if is_erased(r) or r.ty == 'raise':
                if r.ty == 'raise':
                    return r.coq
                return nxt(env)
            self.bad(st, 'expression statement outside the table')
        if isinstance(st, ast.Assign):
            if len(st.targets) != 1:
                self.bad(st, 'multiple targets')
            t = st.targets[0]
            if isinstance(t, ast.Subscript) and self.ev(t.value, env).ty == 'cache':      # A1: the store into the lookup cache
                self.cache_keys = getattr(self, 'cache_keys', []) + [('set', _cache_key(self, t.slice, env, st))]
                if self.ev(st.value, env).ty != 'views':
                    self.bad(st, 'the value stored in the view-lookup cache is not the list of views')
                return nxt(env)
            if isinstance(t, ast.Subscript):
                if is_erased(self.ev(t.value, env)):
                    self.ev(st.value, env)
                    return nxt(env)
                self.bad(st, 'item assignment outside the table')
            if isinstance(t, ast.Attribute):
                if isinstance(t.value, ast.Name) and t.value.id in env and env[t.value.id].ty == 'closure':
                    self.attrs[(t.value.id, t.attr)] = st.value
                    self.ev(st.value, env)
                    return nxt(env)
                if is_erased(self.ev(t.value, env)):
                    self.ev(st.value, env)
                    return nxt(env)
                self.bad(st, 'attribute assignment outside the table')
            if not isinstance(t, ast.Name):
                self.bad(st, 'assignment target')
            v = self.ev(st.value, env)
            if v.ty in ('comp', 'bcomp'):
                b = self.fresh(t.id)
                e2 = dict(env)
                e2[t.id] = Val(b, 'res' if v.ty == 'comp' else 'bool')
                return '(%s %s (fun %s => %s))' % ('m_bind' if v.ty == 'comp' else 'm_bindb', v.coq, b, nxt(e2))
            if v.ty == 'raise':
                return v.coq
            e2 = dict(env)
            e2[t.id] = v
            return nxt(e2)
        if isinstance(st, ast.If):
            # A3: `if <erased>: raise <unmodelled class>` is dropped
            if not st.orelse and len(st.body) == 1 and isinstance(st.body[0], ast.Raise) and self.unmodelled_raise(st.body[0], env) \
                    and self.only_erased(st.test, env):
                self.assumed.append('A3 line %s' % st.lineno)
                return nxt(env)
            return self.cond(st.test, env,
                             lambda e: self.block(st.body, 0, e, nxt, loop),
                             lambda e: self.block(st.orelse, 0, e, nxt, loop))
        if isinstance(st, ast.Return):
            v = self.ev(st.value, env) if st.value is not None else NONE
            if v.ty == 'closure':
                if self.spec.get('closure_ret') == 'permission':       # the secured closure: it closes over `permission`
                    pv = [val for (c, a), val in self.attrs.items() if a == '__permission__' and c == st.value.id]
                    if len(pv) != 1 or not isinstance(pv[0], ast.Name) or pv[0].id not in env:
                        self.bad(st, 'the returned closure does not record its permission')
                    v = env[pv[0].id]
                elif 'closure_as' in self.spec:
                    v = self.spec['closure_as']
            if v.ty == 'V0':                                            # the view handed in, unchanged
                v = NONE
            return self.ret(v, st)
        if isinstance(st, ast.Raise):
            return self.raise_(st, env)
        if isinstance(st, ast.FunctionDef):
            e2 = dict(env)
            e2[st.name] = Val(None, 'closure', node=st, env=e2)
            return nxt(e2)
        if isinstance(st, ast.With):
            for it in st.items:
                if not is_erased(self.ev(it.context_expr, env)):
                    self.bad(st, 'context manager outside the table')
            return self.block(st.body, 0, env, nxt, loop)
        if isinstance(st, ast.For):
            return self.loop(st, env, nxt, loop)
        if isinstance(st, ast.Continue):
            if loop is None:
                self.bad(st, 'continue outside a loop')
            return loop['cont'](env)
        if isinstance(st, ast.Break):
            if loop is None:
                self.bad(st, 'break outside a loop')
            return loop['brk'](env)
        if isinstance(st, ast.Try):
            return self.try_(st, env, nxt, loop)
        if isinstance(st, ast.Pass):
            return nxt(env)
        self.bad(st, 'statement outside the subset')

    def only_erased(self, test, env):
        try:
            for n in ast.walk(test):
                if isinstance(n, ast.Name) and not (n.id in env and is_erased(env[n.id])) \
                        and not (n.id in self.spec.get('globals', {}) and is_erased(self.spec['globals'][n.id])):
                    return False
            return True
        except Problem:
            return False

    def exc_class(self, node):
        name = node.id if isinstance(node, ast.Name) else None
        return {'Exception': 'CException', 'HTTPNotFound': 'CHTTPNotFound', 'PredicateMismatch': 'CPredicateMismatch',
                'HTTPForbidden': 'CHTTPForbidden'}.get(name)

    def unmodelled_raise(self, st, env):
        e = st.exc
        return isinstance(e, ast.Call) and isinstance(e.func, ast.Name) and self.exc_class(e.func) is None \
            and e.func.id in ('RuntimeError', 'TypeError', 'ConfigurationError')

    def raise_(self, st, env):
        if self.spec['ret'] != 'comp':
            self.bad(st, 'raise in a pure fragment')
        e = st.exc
        if e is None:
            if '$exc' not in env:
                self.bad(st, 'bare raise outside a handler')
            return '(m_raise %s)' % env['$exc'].coq
        k = self.exc_class(e.func if isinstance(e, ast.Call) else e)
        if k is not None and k != 'CException':
            if isinstance(e, ast.Call):
                for a in e.args:
                    self.ev(a, env)
                for kw in e.keywords:
                    self.ev(kw.value, env)
            return '(m_raise (exc_new %s))' % k
        v = self.ev(e, env)
        if v.ty == 'exc':
            return '(m_raise %s)' % v.coq
        if v.ty == 'raise':
            return v.coq
        self.bad(st, 'raise outside the table')

    def handlers(self, st, env_h, body_of):
        """fun e => if exc_isa K1 e then H1 else ... else m_raise e"""
        e = self.fresh('exc')
        term = '(m_raise %s)' % e
        for h in reversed(st.handlers):
            k = self.exc_class(h.type) if h.type is not None else 'CException'
            if k is None:
                self.bad(h, 'exception class outside the table')
            eh = dict(env_h)
            eh['$exc'] = Val(e, 'exc')
            if h.name:
                eh[h.name] = Val(e, 'exc')
            term = self.ite('(exc_isa %s %s)' % (k, e), body_of(h, eh), term)
        return '(fun %s => %s)' % (e, term)

    def try_(self, st, env, nxt, loop):
        if st.orelse:
            self.bad(st, 'try/else')
        for f in st.finalbody:                              # must be erased
            self.block([f], 0, env, lambda e: 'ERASED-OK', None)
        if st.finalbody:
            chk = self.block(st.finalbody, 0, env, lambda e: '$end', None)
            if chk != '$end':
                self.bad(st, 'finally clause is not erased')
        if not st.handlers:
            return self.block(st.body, 0, env, nxt, loop)
        # T2: body is `x = <computation>`
        if len(st.body) == 1 and isinstance(st.body[0], ast.Assign) and isinstance(st.body[0].targets[0], ast.Name):
            x = st.body[0].targets[0].id
            v = self.ev(st.body[0].value, env)
            if v.ty == 'comp':
                for h in st.handlers:
                    if any(isinstance(n, ast.Return) for n in ast.walk(h)):
                        self.bad(h, 'return inside a handler of an assignment-try')

                def body_of(h, eh):
                    def yield_x(e):
                        if x not in e or e[x].ty != 'res':
                            self.bad(h, 'handler falls through without assigning %s' % x)
                        return '(m_ret %s)' % e[x].coq
                    eh = dict(eh)
                    eh.pop(x, None)
                    return self.block(h.body, 0, eh, yield_x, None)
                hs = self.handlers(st, env, body_of)
                b = self.fresh(x)
                e2 = dict(env)
                e2[x] = Val(b, 'res')
                return '(m_bind (m_try %s %s) (fun %s => %s))' % (v.coq, hs, b, nxt(e2))
        # T1: the body never falls through
        def fell(e):
            self.bad(st, 'try body may fall through (only T1/T2 shapes are supported)')
        body = self.block(st.body, 0, env, fell, loop)
        tainted = set()
        for j, s in enumerate(st.body):
            later = st.body[j + 1:]
            if any(self.may_raise(x, env) for x in later) or isinstance(s, (ast.If, ast.Try, ast.For, ast.With)):
                tainted.update(self.assigned([s]))
        env_h = {k: v for k, v in env.items() if k not in tainted}
        hs = self.handlers(st, env_h, lambda h, eh: self.block(h.body, 0, eh, nxt, loop))
        return '(m_try %s %s)' % (body, hs)

    def loop(self, st, env, nxt, outer):
        if st.orelse:
            self.bad(st, 'for/else')
        if isinstance(st.iter, ast.Tuple):                        # unrolled
            elts = st.iter.elts
            if not isinstance(st.target, ast.Name):
                self.bad(st, 'loop target')

            def unroll(k, e):
                if k == len(elts):
                    return nxt(e)
                e2 = dict(e)
                e2[st.target.id] = self.ev(elts[k], e)
                return self.block(st.body, 0, e2, lambda e3: unroll(k + 1, e3),
                                  {'cont': lambda e3: unroll(k + 1, e3), 'brk': nxt})
            return unroll(0, env)
        it = self.ev(st.iter, env)
        if it.ty not in ELEM:
            self.bad(st, 'loop over a %s' % it.ty)
        env = dict(env)
        hnames = {h.name for n in ast.walk(st) if isinstance(n, ast.Try) for h in n.handlers if h.name}
        for n in self.assigned(st.body):             # a variable initialised to None: its type comes from the loop body
            if n in env and env[n].const is None:
                vals = [a.value for a in ast.walk(st) if isinstance(a, ast.Assign) and isinstance(a.targets[0], ast.Name)
                        and a.targets[0].id == n]
                if vals and all(isinstance(v, ast.Name) and v.id in hnames for v in vals):
                    env[n] = Val('None', 'oexc')
                elif vals and all(isinstance(v, ast.Call) for v in vals):
                    env[n] = Val('NoView', 'res')
        carried = [n for n in self.assigned(st.body) if n in env and env[n].ty in COQTY]
        ln, xn, tn = self.fresh('loop'), self.fresh('x'), self.fresh('t')
        ln_l = self.fresh('l')
        params = [(n, self.fresh(n)) for n in carried]
        ein = dict(env)
        for n, p in params:
            ein[n] = Val(p, env[n].ty)
        rest_nil = nxt(ein)
        eb = dict(ein)
        ety = ELEM[it.ty]
        if isinstance(st.target, ast.Name):
            eb[st.target.id] = Val(xn, ety)
        elif isinstance(st.target, ast.Tuple) and ety == 'pairNN' and len(st.target.elts) == 2 \
                and all(isinstance(e, ast.Name) for e in st.target.elts):
            eb[st.target.elts[0].id] = Val('(fst %s)' % xn, 'N')
            eb[st.target.elts[1].id] = Val('(snd %s)' % xn, 'N')
        elif isinstance(st.target, ast.Tuple) and ety == 'entry3' and len(st.target.elts) == 3 \
                and all(isinstance(e, ast.Name) for e in st.target.elts):
            # an entry of MultiView.views / media_views: (order, view, phash); only the view is used by the translated code
            eb[st.target.elts[0].id] = ERASED
            eb[st.target.elts[1].id] = Val('(entry_view %s)' % xn, 'view')
            eb[st.target.elts[2].id] = ERASED
        else:
            self.bad(st, 'loop target')

        def again(e):
            return '(%s %s%s)' % (ln, tn, ''.join(' ' + self.coerce(e[n], env[n].ty, st) for n, _ in params))
        body = self.block(st.body, 0, eb, again, {'cont': again, 'brk': nxt})
        rty = COQTY[self.spec['ret']]
        sig = ''.join(' (%s : %s)' % (p, COQTY[env[n].ty]) for n, p in params)
        return '((fix %s (%s : list %s)%s {struct %s} : %s := match %s with [] => %s | %s :: %s => %s end) %s%s)' % (
            ln, ln_l, COQTY[ety], sig, ln_l, rty, ln_l, rest_nil, xn, tn, body, it.coq,
            ''.join(' ' + env[n].coq for n, _ in params))


# ====================================================================== the table, per function
def _k(coq, ty, **kw):
    return Val(coq, ty, **kw)


def _req_args(names):
    """the call must pass exactly these of the caller's own values (by table type), in this order"""
    def check(fn, args, node, want):
        got = [a.ty if not is_erased(a) else 'erased' for a in args]
        if got != want:
            fn.bad(node, 'arguments %s where %s are expected' % (got, want))
    return check


def c_getattr(fn, args, kws, node, env):
    if len(args) == 3 and args[1].ty == 'str':
        a = args[1].text
        if args[0].ty == 'view' and a == '__call_permissive__' and args[2].const is None:
            return Val('(permissive_of %s)' % args[0].coq, 'opcall')
        if args[0].ty == 'view' and a == '__predicated__' and args[2].const is None:
            return Val('(predicated_of %s)' % args[0].coq, 'opred')
        if (is_erased(args[0]) or args[0].ty == 'request') and a == 'request_iface' and args[2].ty == 'N':
            return Val('request_attr_iface', 'N')
        if is_erased(args[0]) or args[0].ty in ('V', 'inner', 'request'):
            return ERASED
    fn.bad(node, 'getattr outside the table')


FIND_VIEWS_INPUTS = ('ifaceR', 'ifaceC', 'text', 'N', 'vtypes')      # request_iface, context_iface, view_name, classifier, types


def _cache_key(fn, key, env, node):
    """A1 (a cache miss is assumed; transparency is C15's) is only reasonable if the key DETERMINES the cached list: it must be
    a tuple of variables holding every input the loops read (both interfaces, the name, the classifier and the view types)"""
    if not isinstance(key, ast.Tuple) or not all(isinstance(x, ast.Name) for x in key.elts):
        fn.bad(node, 'view-lookup cache key is not a tuple of variables')
    tys = sorted(env[x.id].ty if x.id in env else '?' for x in key.elts)
    if tys != sorted(FIND_VIEWS_INPUTS):
        fn.bad(node, 'view-lookup cache key does not consist of exactly the inputs of the lookup (types %s)' % tys)
    return ast.dump(key)


def c_cache_get(fn, args, kws, node, env):
    if len(node.args) != 1 or kws:
        fn.bad(node, 'cache.get arguments')
    fn.cache_keys = getattr(fn, 'cache_keys', []) + [('get', _cache_key(fn, node.args[0], env, node))]
    return Val('None', 'oviews', const=None)


def c_find_views(fn, args, kws, node, env):
    got = [a.ty if not is_erased(a) else 'erased' for a in args]
    if got != ['erased', 'N', 'erased', 'erased'] or set(kws) != {'view_types', 'view_classifier'} \
            or not all(is_erased(v) for v in kws.values()):
        fn.bad(node, '_find_views is not called with (registry, request_iface, context_iface, view_name, view_types=, view_classifier=)')
    for nm, a in zip(('registry', 'context_iface', 'view_name'), (node.args[0], node.args[2], node.args[3])):
        if not (isinstance(a, ast.Name) and env.get(a.id) is fn.spec['_own'][nm]):
            fn.bad(node, '_find_views argument %s is not the caller\'s own parameter' % nm)
    for nm in ('view_types', 'view_classifier'):
        a = [k.value for k in node.keywords if k.arg == nm][0]
        if not (isinstance(a, ast.Name) and env.get(a.id) is fn.spec['_own'][nm]):
            fn.bad(node, '_find_views keyword %s is not the caller\'s own parameter' % nm)
    return Val('(find %s)' % args[1].coq, 'views')


def build_specs(npr_coq):
    S = {}
    # ---------------- _secured_view (derive time)
    S['secured_permission'] = dict(
        rel='pyramid/viewderivers.py', qual='_secured_view', gen='gen_secured_permission', ret='otext',
        sig='(exception_only : bool) (opt_permission default_permission : option text) (policy_present : bool)',
        params=[_k('tt', 'V0'), _k('tt', 'info')],
        attrs={'<info>.exception_only': _k('exception_only', 'bool')},
        calls={('<info>.options.get', ('permission',)): lambda fn, a, k, n, e: _k('opt_permission', 'otext'),
               '<info>.registry.queryUtility': lambda fn, a, k, n, e: (
                   _k('default_permission', 'otext') if u(n.args[0]) == 'IDefaultPermission' else
                   _k('policy_present', 'presence') if u(n.args[0]) == 'ISecurityPolicy' else
                   fn.bad(n, 'queryUtility of another interface'))},
        globals={'NO_PERMISSION_REQUIRED': _k(npr_coq, 'text'), 'IDefaultPermission': ERASED, 'ISecurityPolicy': ERASED},
        post='secured', closure_ret='permission')
    # ---------------- the closure secured_view of _secured_view
    S['secured_call'] = dict(
        rel='pyramid/viewderivers.py', qual='_secured_view', closure='$returned', gen='gen_secured_call', ret='comp',
        sig='(tb : grants) (p : text) (c : ctx) (inner : comp)',
        calls={'<policy>.permits': lambda fn, a, k, n, e: (
                   _k('(m_permits tb p c)', 'bcomp') if [x.ty for x in a] == ['request', 'ctx', 'text'] and not k else
                   fn.bad(n, 'policy.permits is not called with (request, context, permission)')),
               'getattr': c_getattr},
        apply={'inner': lambda fn, v, a, k, n: (
            _k('inner', 'comp') if [x.ty for x in a] == ['ctx', 'request'] else fn.bad(n, 'view is not called with (context, request)'))},
        globals={'HTTPForbidden': ERASED})
    # ---------------- secured_view (the deriver)
    S['secured_view_deriver'] = dict(
        rel='pyramid/viewderivers.py', qual='secured_view', gen='gen_secured_view_deriver', ret='V',
        sig='{V : Type} (f_secured f_authdebug : V -> V) (view : V)',
        params=[_k('view', 'V'), _k('tt', 'info')],
        globals={'_secured_view': _k('f_secured', 'fnVV'), '_authdebug_view': _k('f_authdebug', 'fnVV')},
        calls={'wraps_view': lambda fn, a, k, n, e: (a[0] if len(a) == 1 and a[0].ty == 'fnVV' else fn.bad(n, 'wraps_view argument'))},
        apply={'fnVV': lambda fn, v, a, k, n: (
            _k('(%s %s)' % (v.coq, a[0].coq), 'V') if [x.ty for x in a] == ['V', 'info'] else fn.bad(n, 'deriver is not applied to (view, info)'))})
    # ---------------- _authdebug_view (derive time)
    S['authdebug_view'] = dict(
        rel='pyramid/viewderivers.py', qual='_authdebug_view', gen='gen_authdebug_view', ret='V',
        sig='{V : Type} (settings_present debug_authorization exception_only : bool) (opt_permission default_permission : option text) (view debug_wrapper : V)',
        params=[_k('view', 'V'), _k('tt', 'info')],
        attrs={'<info>.exception_only': _k('exception_only', 'bool'), '<info>.settings': _k('settings_present', 'bool', settings=True)},
        calls={('<bool>.get', ('debug_authorization',)): lambda fn, a, k, n, e: (
                   _k('debug_authorization', 'bool') if len(a) == 2 and a[1].const is False else fn.bad(n, 'settings.get default')),
               ('<info>.options.get', ('permission',)): lambda fn, a, k, n, e: _k('opt_permission', 'otext'),
               '<info>.registry.queryUtility': lambda fn, a, k, n, e: (
                   _k('default_permission', 'otext') if u(n.args[0]) == 'IDefaultPermission' else ERASED)},
        globals={'NO_PERMISSION_REQUIRED': _k(npr_coq, 'text'), 'IDefaultPermission': ERASED, 'ISecurityPolicy': ERASED,
                 'IDebugLogger': ERASED},
        post='authdebug', closure_as=_k('debug_wrapper', 'V'))
    # ---------------- _find_views
    S['find_views'] = dict(
        rel='pyramid/view.py', qual='_find_views', gen='gen_find_views', ret='views',
        sig='(R : registry) (req_sro ctx_sro : list N) (view_name : text) (view_types : option (list vtype)) (view_classifier : option N)',
        params=[_k('tt', 'registryobj'), _k('req_sro', 'ifaceR'), _k('ctx_sro', 'ifaceC'), _k('view_name', 'text'),
                _k('view_types', 'ovtypes'), _k('view_classifier', 'oN')],
        attrs={'<registryobj>.adapters.registered': _k('tt', 'registered'), '<registryobj>._view_lookup_cache': _k('tt', 'cache'),
               '<registryobj>._lock': ERASED, '<ifaceR>.__sro__': _k('req_sro', 'listN'), '<ifaceC>.__sro__': _k('ctx_sro', 'listN')},
        calls={'<cache>.get': lambda fn, a, k, n, e: c_cache_get(fn, a, k, n, e),     # A1
               'itertools.product': lambda fn, a, k, n, e: (
                   _k('(list_prod %s %s)' % (a[0].coq, a[1].coq), 'listpair') if [x.ty for x in a] == ['listN', 'listN'] else
                   fn.bad(n, 'itertools.product arguments'))},
        apply={'registered': lambda fn, v, a, k, n: (
            _k('(R (mkSlot %s %s %s %s) %s)' % (a[0].elts[0].coq, a[0].elts[1].coq, a[0].elts[2].coq, k['name'].coq, a[1].coq), 'oview')
            if len(a) == 2 and a[0].ty == 'tuple' and [x.ty for x in a[0].elts] == ['N', 'N', 'N'] and a[1].ty == 'vtype'
            and set(k) == {'name'} and k['name'].ty == 'text' else fn.bad(n, 'registered(..) arguments'))},
        globals={'IView': _k('IView', 'vtype'), 'ISecuredView': _k('ISecuredView', 'vtype'), 'IMultiView': _k('IMultiView', 'vtype'),
                 'IViewClassifier': _k('view_classifier0', 'N'), 'itertools': ERASED},
        tuple_as={'vtype': 'vtypes'}, cache_store=True)
    # ---------------- _call_view
    own = {n: _k('tt', 'erased') for n in ('registry', 'context_iface', 'view_name', 'view_types', 'view_classifier')}
    S['call_view'] = dict(
        rel='pyramid/view.py', qual='_call_view', gen='gen_call_view', ret='comp',
        sig='{PC PR : Type} (call : component -> comp) (permissive_of : component -> option PC) '
            '(predicated_of : component -> option PR) (run_pred : PR -> bool) (call_p : PC -> comp) '
            '(find : N -> list component) (secure : bool) (request_iface : option N) (request_attr_iface : N)',
        params=[own['registry'], _k('tt', 'request'), _k('tt', 'ctx'), own['context_iface'], own['view_name'], own['view_types'],
                own['view_classifier'], _k('secure', 'bool'), _k('request_iface', 'oN')],
        _own=own,
        calls={'getattr': c_getattr, '_find_views': c_find_views},
        apply={'view': lambda fn, v, a, k, n: (
                   _k('(call %s)' % v.coq, 'comp') if [x.ty for x in a] == ['ctx', 'request'] else fn.bad(n, 'view arguments')),
               'pcall': lambda fn, v, a, k, n: (
                   _k('(call_p %s)' % v.coq, 'comp') if [x.ty for x in a] == ['ctx', 'request'] else fn.bad(n, 'view arguments')),
               'pred': lambda fn, v, a, k, n: (
                   _k('(run_pred %s)' % v.coq, 'bool') if [x.ty for x in a] == ['ctx', 'request'] else fn.bad(n, 'predicate arguments'))},
        globals={'IRequest': _k('irequest0', 'N'), 'PredicateMismatch': ERASED},
        view_or_pcall=True)
    # ---------------- excview_tween
    S['excview_tween'] = dict(
        rel='pyramid/tweens.py', qual='excview_tween_factory.excview_tween', gen='gen_excview_tween', ret='comp',
        sig='(handler : comp) (error_handler : exc -> comp)',
        params=[_k('tt', 'request')],
        free={'handler': _k('handler', 'handler')},
        calls={'_error_handler': lambda fn, a, k, n, e: (
            _k('(error_handler %s)' % a[1].coq, 'comp') if [x.ty for x in a] == ['request', 'exc'] else fn.bad(n, '_error_handler arguments'))},
        apply={'handler': lambda fn, v, a, k, n: (
            _k('handler', 'comp') if [x.ty for x in a] == ['request'] else fn.bad(n, 'handler arguments'))})
    # ---------------- _error_handler
    S['error_handler'] = dict(
        rel='pyramid/tweens.py', qual='_error_handler', gen='gen_error_handler', ret='comp',
        sig='(invoke : exc -> comp) (exc : exc)',
        params=[_k('tt', 'request'), _k('exc', 'exc')],
        calls={'sys.exc_info': lambda fn, a, k, n, e: _k('exc', 'excinfo'),                      # A4
               '<request>.invoke_exception_view': lambda fn, a, k, n, e: (
                   _k('(invoke %s)' % a[0].coq, 'comp') if [x.ty for x in a] == ['excinfo'] and not k else
                   fn.bad(n, 'invoke_exception_view is not called with (exc_info) alone')),
               'reraise': lambda fn, a, k, n, e: (
                   _k('(m_raise %s)' % a[0].coq, 'raise') if [x.ty for x in a] == ['excinfo'] else fn.bad(n, 'reraise arguments'))},
        globals={'sys': ERASED, 'HTTPNotFound': ERASED})
    # ---------------- invoke_exception_view
    S['invoke_exception_view'] = dict(
        rel='pyramid/view.py', qual='ViewMethodsMixin.invoke_exception_view', gen='gen_invoke_exception_view', ret='comp',
        sig='(call_view : exc -> bool -> comp) (exc_info : exc) (secure reraise : bool)',
        params=[_k('tt', 'erased'), _k('exc_info', 'excinfo'), _k('tt', 'erased'), _k('secure', 'bool'), _k('reraise', 'bool')],
        calls={'_call_view': lambda fn, a, k, n, e: c_excview_call(fn, a, k, n, e),
               'reraise_': lambda fn, a, k, n, e: (
                   _k('(m_raise %s)' % a[0].coq, 'raise') if [x.ty for x in a] == ['excinfo'] else fn.bad(n, 'reraise_ arguments')),
               'hide_attrs': lambda fn, a, k, n, e: ERASED},
        erased_calls=('getattr', 'get_current_registry', 'providedBy'),
        globals={'sys': ERASED, 'manager': ERASED, 'IRequest': ERASED, 'IExceptionViewClassifier': _k('tt', 'excclassifier'),
                 'HTTPNotFound': ERASED, 'RuntimeError': ERASED})
    # ---------------- Router.invoke_request
    S['invoke_request'] = dict(
        rel='pyramid/router.py', qual='Router.invoke_request', gen='gen_invoke_request', ret='comp',
        sig='(handle : comp)',
        params=[_k('tt', 'router'), _k('tt', 'request'), _k('tt', 'erased')],
        attrs={'<router>.registry': ERASED, '<router>.handle_request': _k('handle', 'handler'),
               '<router>.orig_handle_request': _k('handle', 'handler'), '<request>.response_callbacks': _k('false', 'bool', const=False),  # A2
               '<router>.finish_request': ERASED, '<request>._process_response_callbacks': ERASED},
        calls={'<router>.finish_request': lambda fn, a, k, n, e: ERASED,
               '<request>._process_response_callbacks': lambda fn, a, k, n, e: ERASED},
        apply={'handler': lambda fn, v, a, k, n: (
            _k('handle', 'comp') if [x.ty for x in a] == ['request'] else fn.bad(n, 'handle_request arguments'))},
        erased_calls=('NewResponse',),
        globals={'NewResponse': ERASED})
    # ---------------- Router.handle_request, from the view lookup on
    S['handle_request_view'] = dict(
        rel='pyramid/router.py', qual='Router.handle_request', gen='gen_handle_request_view', ret='comp',
        sig='(call_view : comp)', fragment='_call_view',
        calls={'_call_view': lambda fn, a, k, n, e: (
            _k('call_view', 'comp') if [u(x) for x in n.args] == ['registry', 'request', 'context', 'context_iface', 'view_name'] and not k
            else fn.bad(n, '_call_view is not called with (registry, request, context, context_iface, view_name)'))},
        globals={'HTTPNotFound': ERASED},
        frag_env=('registry', 'request', 'context', 'context_iface', 'view_name', 'self', 'logger', 'subpath', 'traversed', 'root',
                  'vroot', 'vroot_path'))
    # ---------------- default_exceptionresponse_view
    S['default_exceptionresponse_view'] = dict(
        rel='pyramid/httpexceptions.py', qual='default_exceptionresponse_view', gen='gen_default_exceptionresponse_view', ret='V',
        sig='{V : Type} (py_or : V -> V -> V) (context_is_exception : bool) (context request_exception : V)',
        params=[_k('context', 'V', ctxparam=True), _k('tt', 'request')],
        attrs={'<request>.exception': _k('request_exception', 'V')},
        isinstance=lambda fn, t, e: (
            'context_is_exception' if len(t.args) == 2 and getattr(fn.ev(t.args[0], e), 'ctxparam', False) and u(t.args[1]) == 'Exception'
            else fn.bad(t, 'isinstance outside the table')))
    # ---------------- MultiView.__call__
    S['mv_call'] = dict(
        rel='pyramid/config/views.py', qual='MultiView.__call__', gen='gen_mv_call', ret='comp',
        sig='(call : component -> comp) (views : list entry)',
        params=[_k('tt', 'mv'), _k('tt', 'ctx'), _k('tt', 'request')],
        attrs={'<mv>.name': ERASED},
        calls={'<mv>.get_views': lambda fn, a, k, n, e: (
            _k('views', 'entries') if [x.ty for x in a] == ['request'] and not k else fn.bad(n, 'get_views is not called with (request)'))},
        apply={'view': lambda fn, v, a, k, n: (
            _k('(call %s)' % v.coq, 'comp') if [x.ty for x in a] == ['ctx', 'request'] and not k else fn.bad(n, 'view arguments'))},
        globals={'PredicateMismatch': ERASED})
    return S


def c_excview_call(fn, a, k, n, e):
    """_call_view(registry, request, exc, context_iface, '', view_types=None, view_classifier=IExceptionViewClassifier,
                  secure=secure, request_iface=request_iface.combined)"""
    if len(a) != 5 or a[2].ty != 'exc' or a[4].ty != 'str' or a[4].text != '':
        fn.bad(n, 'exception-view lookup: positional arguments')
    if set(k) != {'view_types', 'view_classifier', 'secure', 'request_iface'}:
        fn.bad(n, 'exception-view lookup: keyword arguments')
    if k['view_types'].const is not None or k['view_classifier'].ty != 'excclassifier' or k['secure'].ty != 'bool':
        fn.bad(n, 'exception-view lookup: view_types / view_classifier / secure')
    ri = [x.value for x in n.keywords if x.arg == 'request_iface'][0]
    if not (isinstance(ri, ast.Attribute) and ri.attr == 'combined'):
        fn.bad(n, 'exception-view lookup: request_iface is not <iface>.combined')
    ci = n.args[3]
    return Val('(call_view %s %s)' % (a[2].coq, k['secure'].coq), 'comp')


# ====================================================================== driver
def find_def(tree, qual):
    node = tree
    for part in qual.split('.'):
        nxt = None
        for ch in ast.walk(node):
            if ch is not node and isinstance(ch, (ast.FunctionDef, ast.ClassDef)) and ch.name == part:
                nxt = ch
                break
        if nxt is None:
            raise Problem('%s: definition not found' % qual)
        node = nxt
    return node


def strip_doc(body):
    if body and isinstance(body[0], ast.Expr) and isinstance(body[0].value, ast.Constant) and isinstance(body[0].value.value, str):
        return body[1:]
    return body


def translate_one(src, name, spec):
    with open(os.path.join(src, spec['rel'])) as f:
        tree = ast.parse(f.read())
    fd = find_def(tree, spec['qual'])
    fn = Fn(spec, spec['qual'])
    body = strip_doc(fd.body)
    env = {}
    if 'params' in spec:
        names = [a.arg for a in fd.args.args]
        if len(names) != len(spec['params']) or fd.args.vararg or fd.args.kwarg or fd.args.kwonlyargs:
            raise Problem('%s: signature %s' % (spec['qual'], names))
        env.update(zip(names, spec['params']))
    env.update(spec.get('free', {}))
    if spec.get('fragment'):
        idx = [i for i, st in enumerate(body) if isinstance(st, ast.Assign) and isinstance(st.value, ast.Call)
               and isinstance(st.value.func, ast.Name) and st.value.func.id == spec['fragment']]
        if len(idx) != 1:
            raise Problem('%s: fragment start `.. = %s(...)`' % (spec['qual'], spec['fragment']))
        body = body[idx[0]:]
        for n in spec['frag_env']:
            env[n] = ERASED
    if spec.get('closure'):
        # translate the closure the function returns, with the environment at its definition; its free variables
        # `view`, `policy`, `permission` are the parameters of the generated definition
        ret = [st for st in body if isinstance(st, ast.Return)]
        if not ret or not isinstance(ret[-1].value, ast.Name):
            raise Problem('%s: does not end in `return <closure>`' % spec['qual'])
        cname = ret[-1].value.id
        defs = {st.name: st for st in body if isinstance(st, ast.FunctionDef)}
        if cname not in defs:
            raise Problem('%s: returned name is not a nested def' % spec['qual'])
        cfd = defs[cname]
        pn = [a.arg for a in cfd.args.args]
        if len(pn) != 2:
            raise Problem('%s: closure signature' % spec['qual'])
        outer = [a.arg for a in fd.args.args]
        env = {outer[0]: Val('inner', 'inner'), 'policy': Val('tt', 'policy'), 'permission': Val('p', 'text'),
               pn[0]: Val('c', 'ctx'), pn[1]: Val('tt', 'request')}
        # the names bound by queryUtility(ISecurityPolicy) / the permission variable in the enclosing function
        for st in body:
            if isinstance(st, ast.Assign) and isinstance(st.targets[0], ast.Name) and 'ISecurityPolicy' in u(st.value):
                env[st.targets[0].id] = Val('tt', 'policy')
        pv = [st.value for st in body if isinstance(st, ast.Assign) and isinstance(st.targets[0], ast.Attribute)
              and st.targets[0].attr == '__permission__']
        if len(pv) != 1 or not isinstance(pv[0], ast.Name):
            raise Problem('%s: __permission__ is not set to the permission variable' % spec['qual'])
        env[pv[0].id] = Val('p', 'text')
        for st in body:
            if isinstance(st, ast.FunctionDef) and st.name != cname:
                env[st.name] = Val(None, 'closure', node=st, env=env)
        body = strip_doc(cfd.body)

    def end(e):
        if spec['ret'] == 'comp':
            return '(m_ret NoView)'
        raise Problem('%s: falls off the end' % spec['qual'])
    # tuple literals of view types
    if spec.get('tuple_as'):
        orig_ev = fn.ev

        def ev2(node, env_):
            v = orig_ev(node, env_)
            if v.ty == 'tuple' and v.elts and all(x.ty == 'vtype' for x in v.elts):
                return Val('[%s]' % '; '.join(x.coq for x in v.elts), 'vtypes')
            return v
        fn.ev = ev2
    if spec.get('view_or_pcall'):
        pass
    term = fn.block(body, 0, env, end)
    if spec.get('cache_store'):
        ck = getattr(fn, 'cache_keys', [])
        if {k for k, _ in ck} != {'get', 'set'} or len({d for _, d in ck}) != 1:
            raise Problem('%s: the view-lookup cache is not read and written exactly once under one and the same key' % spec['qual'])
    post = spec.get('post')
    if post == 'secured':
        want = {'__call_permissive__': fd.args.args[0].arg}
        for (c, a), v in fn.attrs.items():
            if a in want and u(v) != want[a]:
                raise Problem('%s: %s is %s, not the wrapped view' % (spec['qual'], a, u(v)))
        if not any(a == '__call_permissive__' for (_, a) in fn.attrs):
            raise Problem('%s: __call_permissive__ is not set on the secured view' % spec['qual'])
    return 'Definition %s %s : %s :=\n  %s.' % (spec['gen'], spec['sig'], COQTY.get(spec['ret'], spec['ret']), term), fn.assumed


ORDER = ['secured_permission', 'secured_call', 'secured_view_deriver', 'authdebug_view', 'find_views', 'call_view', 'excview_tween',
         'error_handler', 'invoke_exception_view', 'invoke_request', 'handle_request_view', 'default_exceptionresponse_view',
         'mv_call']
PRELUDE = '''Definition opt_text_eqb (o : option text) (t : text) : bool := match o with Some x => text_eqb x t | None => false end.
Definition nonempty_views (l : list component) : bool := match l with [] => false | _ => true end.
Definition view_classifier0 : N := view_classifier.      (* IViewClassifier *)
Definition entry_view (e : entry) : component := CView (e_view e).   (* the view of an (order, view, phash) entry of a MultiView *)
'''


def translate_tree(src, npr_coq='no_permission_required'):
    specs = build_specs(npr_coq)
    try:
        with open(FALLBACK) as f:
            fallback = json.load(f)
    except Exception:
        fallback = {}
    out, problems, summary = {}, [], {}
    for name in ORDER:
        try:
            text, assumed = translate_one(src, name, specs[name])
            out[name] = text
            summary['translated:' + specs[name]['qual'] + ('/' + name if name in ('secured_call', 'handle_request_view') else '')] = \
                'ok' + (' (assumed: %s)' % ', '.join(assumed) if assumed else '')
        except Problem as e:
            problems.append('translator: %s' % e)
            out[name] = fallback.get(name, '(* no fallback for %s *)' % name)
            summary['translated:' + specs[name]['qual']] = 'FAILED'
        except RecursionError:
            problems.append('translator: %s: recursion limit' % name)
            out[name] = fallback.get(name, '')
    try:
        out['$defaults'] = defaults(src)
    except Problem as e:
        problems.append('translator: %s' % e)
        out['$defaults'] = fallback.get('$defaults', '')
    return out, problems, summary


def defaults(src):
    """keyword defaults the call sites rely on: _error_handler calls invoke_exception_view(exc_info) and handle_request calls
    _call_view(registry, request, context, context_iface, view_name) -- secure / reraise come from the signatures"""
    with open(os.path.join(src, 'pyramid/view.py')) as f:
        tree = ast.parse(f.read())

    def dflt(qual, name):
        fd = find_def(tree, qual)
        names = [a.arg for a in fd.args.args]
        ds = dict(zip(names[len(names) - len(fd.args.defaults):], fd.args.defaults))
        d = ds.get(name)
        if not (isinstance(d, ast.Constant) and isinstance(d.value, bool)):
            raise Problem('%s: default of %s is not a bool literal' % (qual, name))
        return 'true' if d.value else 'false'
    return ('Definition gen_default_secure_call_view : bool := %s.\n'
            'Definition gen_default_secure_invoke_exception_view : bool := %s.\n'
            'Definition gen_default_reraise_invoke_exception_view : bool := %s.\n' % (
                dflt('_call_view', 'secure'), dflt('ViewMethodsMixin.invoke_exception_view', 'secure'),
                dflt('ViewMethodsMixin.invoke_exception_view', 'reraise')))


def emit(out):
    return PRELUDE + out.get('$defaults', '') + '\n'.join(out[n] for n in ORDER) + '\n'


if __name__ == '__main__':
    import sys
    src = sys.argv[1]
    out, problems, summary = translate_tree(src)
    if '--write-fallback' in sys.argv:
        if problems:
            print('NOT written:', problems)
        else:
            with open(FALLBACK, 'w') as f:
                json.dump(out, f, indent=1, sort_keys=True)
            print('fallback written')
    else:
        print(emit(out))
        for p in problems:
            print('PROBLEM', p)


# ---- masked pins: functions of which only a fragment is translated keep a pin on the REST of their text
def masked_shapes(src):
    """{file: {qualname: hash}}: Router.handle_request with the statements from `response = _call_view(...)` on removed;
    excview_tween_factory with the nested excview_tween body removed"""
    import hashlib
    from harness.common import facts as F
    out = {}
    m = F.Module(src, 'pyramid/router.py')
    fd = F.strip_doc(m.find('Router.handle_request'))
    fn = [n for n in ast.walk(fd) if isinstance(n, ast.FunctionDef) and n.name == 'handle_request'][0]
    idx = [i for i, st in enumerate(fn.body) if isinstance(st, ast.Assign) and isinstance(st.value, ast.Call)
           and isinstance(st.value.func, ast.Name) and st.value.func.id == '_call_view']
    if len(idx) == 1:
        fn.body = fn.body[:idx[0]]
    out['pyramid/router.py'] = {'Router.handle_request': hashlib.sha1(ast.dump(fd).encode()).hexdigest()[:16]}
    m = F.Module(src, 'pyramid/tweens.py')
    fd = F.strip_doc(m.find('excview_tween_factory'))
    for n in ast.walk(fd):
        if isinstance(n, ast.FunctionDef) and n.name == 'excview_tween':
            n.body = [ast.Pass()]
    out['pyramid/tweens.py'] = {'excview_tween_factory': hashlib.sha1(ast.dump(fd).encode()).hexdigest()[:16]}
    # the class MultiView with the body of __call__ (translated: gen_mv_call) removed
    m = F.Module(src, 'pyramid/config/views.py')
    fd = F.strip_doc(m.find('MultiView'))
    for n in ast.walk(fd):
        if isinstance(n, ast.FunctionDef) and n.name == '__call__':
            n.body = [ast.Pass()]
    out['pyramid/config/views.py'] = {'MultiView': hashlib.sha1(ast.dump(fd).encode()).hexdigest()[:16]}
    return out
