"""C16 translator: Python ast of the core of src/pyramid/static.py -> Gallina definitions

    _contains_invalid_element_char -> gen_contains_invalid      static_view.find_resource_path -> gen_find_resource_path
    _secure_path                   -> gen_secure_path           static_view.get_possible_files -> gen_get_possible_files
    static_view.get_resource_name  -> gen_get_resource_name     static_view.find_best_match    -> gen_find_best_match
                                                                static_view.__call__           -> gen_call

re-run on every check (prop.facts) and emitted into coq/Gen/Facts_C16_gen.v (a second generated file: the
generated program needs the primitives of Model/C16.v, which itself imports the constants of Gen/Facts_C16.v).

Fail-closed: a statement outside the SUBSET, an expression outside the PRIMITIVE TABLE, a typing surprise ->
Problem; the caller records it as a broken tie and emits the stored fallback text (gen_fallback.json, the
translation of the text the hand-written model was written against) so that the Coq files still type-check.

=== CONTROL FLOW (translated mechanically, continuation passing; nothing below is looked up) ==============
  block s1; s2; ..       the translation of s1 receives the translation of the rest as its continuation
  v = e                  substitution (no let is emitted; names of locals occur only in binders)
  v = <effectful e>      ebind <e> (fun v_n => <rest>): effects stay at their statement, in evaluation order
  if c: A else: B; rest  decision tree over the ATOMS of c: `a and b` -> if a then (if b ..) .., `a or b`,
                         `not a` -> branches swapped; each branch is followed by its own copy of <rest>; a test
                         repeated on a path is resolved; an `if` with two equal branches disappears (so elif vs
                         nested else-if, `if a: if b:` vs `if a and b:` give the same term).  An effectful test
                         (isdir(..), resource_isdir(..), request.path_url.endswith(..)) must be the whole test,
                         possibly under `not`: ebind <test> (fun b_n => if b_n ..)
  if v is None / is not None / if v (v an optional str)
                         match v with None => .. | Some v_n => .. end, v standing for v_n (a str) in that branch;
                         truthiness also requires v_n to be non-empty (nonempty_text)
  for T in E: B; rest    (fix loopN (lN : list elem) (c_v.. : carried) {struct lN} : ret :=
                            match lN with [] => <rest> | xN :: tN => <B> end) E v..
                         carried = variables assigned in B that are bound at loop entry (order of first
                         assignment in B); end of B / continue = recursive call on tN with the current values;
                         return inside B returns from the function; T may be a pair pattern (a, b): a := fst xN ..
  return e / raise e     eret e / eraise e in the methods that live in E (pure functions: e itself);
                         falling off the end of a function returns None
  x.append(e)            x := x ++ [e]          x.sort(key=lambda v: getsize(v[0]))  x := result of p_sort_by_size
  self.filemap[k] = v    ebind get_fm (fun fm_n => ebind (set_fm ((k, v) :: fm_n)) ..)
  a, b = e               a := fst e, b := snd e  (e a pair)
  next((E for T in L if C), D)     match find (fun x => C) L with Some x => E | None => D end   (D must be None)

=== PRIMITIVE TABLE (trusted: each line is a claim about Python / Pyramid / library semantics) ============
  parameters (by position)   self, request -> not values: only the attribute accesses listed below are allowed
  string literals            their code points; 'a %s' % x and '{}/{}'.format(a, b) -> concatenation
  x + y (str)                x ++ y                   sep.join(t)  join sep t   (t a tuple of str)
  x.rstrip('c')              rstrip_char c x          x.endswith(lit)   endswith lit x
  c in s  (c a character of _invalid_element_chars, s a str)          memN c s
  any([f(i) for i in t]) / any(f(i) for i in t)                       existsb f t
  _has_insecure_pathelement(t)   has_insecure t   (truth of {..}.intersection(t) over the regenerated set)
  _invalid_element_chars     invalid_element_chars (regenerated; iterating a set: the order is irrelevant for
                             an existence test, stated)
  _secure_path(t) / _contains_invalid_element_char(s)       the generated functions (lru_cache is a transparent memo)
  self.use_subpath           use_subpath : bool (what the mounting passed to the constructor)
  request.subpath            sub : the tuple the router / caller put on the request
  <splitter>(request.path_info)  p_view_tuple pi   (splitter = the name imported from pyramid.traversal; which one it is,
                             is the regenerated fact view_decodes_again inside view_tuple)
  self.package_name (truth)  c_pkg c       self.docroot  c_docroot c      self.norm_docroot  normpath (c_docroot c)
  self.index                 eff_index c   self.reload   c_reload c       (bound in __init__, which stays pinned)
  self.content_encodings.items()   compile_encodings (c_encs c) (c_encmap c)   (_compile_content_encodings pinned)
  normcase(x)  x  (POSIX)    normpath(x)  normpath x      join(a, b)  pjoin a b        (os.path, Lib/C16Posix)
  isdir(p) / exists(p)       p_isdir fs p / p_exists fs p                      (one os.stat each, logged)
  resource_isdir(self.package_name, n) / resource_exists(..)   p_isdir / p_exists fs (pkg_fn (c_modpath c) n)
  resource_filename(self.package_name, n)                      pkg_fn (c_modpath c) n
  request.path_url           p_path_url c pi  (raises UnicodeDecodeError for undecodable PATH_INFO)
  HTTPNotFound('Out of bounds: %s' % request.url)   R404 1 after p_path_url;   HTTPNotFound(request.url)   R404 2
  self.add_slash_redirect(request)   redirect rq u with u <- p_path_url c pi   (add_slash_redirect stays pinned)
  self.filemap.get(k)        fm_get fm k with fm <- get_fm
  self.find_resource_path(n) / self.get_resource_name(request) / self.get_possible_files(n) /
  self.find_best_match(request, files)        the generated functions
  _guess_type(n)             not modelled (Content-Type is not observed); only as `a, b = _guess_type(..)`
  FileResponse(path, request, self.cache_max_age, content_type, content_encoding)   p_file_response fs path enc
  _add_vary(resp, 'Accept-Encoding')   resp := set_vary resp           len(files) > 1   Nat.ltb 1 (length files)
  request.accept_encoding (truth)   r_ae rq
  {x[0] for x in request.accept_encoding.acceptable_offers([e for _, e in files if e is not None])}   acc_offers rq files
  s.add(None)                s := acc_add_none s          e in s   acc_mem e s
  (p, None) / (p, e)         a candidate: (p, None) / (p, Some e) (e a str) / (p, e) (e an optional str)
"""
import ast
import json
import os

HERE = os.path.dirname(os.path.abspath(__file__))
FALLBACK = os.path.join(HERE, 'gen_fallback.json')

TEXT, TEXTS, BOOL, OPT, ENC, CAND, FILES, COMPILED, PAIRCE, EXTS, CHARS, CHAR, RESP, ACC, ERASED, SELF, REQ, NONE, \
    PAIR2, UNIT, ENCMAP, PAIRTT, PAIRPT, VIEW, FMAP = ('text', 'texts', 'bool', 'opt', 'enc', 'cand', 'files', 'compiled', 'pairce', 'exts',
                                   'chars', 'char', 'resp', 'acc', 'erased', 'self', 'request', 'none', 'pair2', 'unit',
                                   'encmap', 'pairtt', 'pairpt', 'view', 'fmap')
COQTY = {TEXT: 'text', TEXTS: 'list text', BOOL: 'bool', OPT: 'option text', ENC: 'option text', CAND: 'cand',
         FILES: 'list cand', COMPILED: 'list (text * list text)', PAIRCE: 'text * list text', EXTS: 'list text',
         CHARS: 'list N', CHAR: 'N', RESP: 'resp', ACC: 'accset', PAIR2: 'option text * option text', UNIT: 'unit',
         ENCMAP: 'list (text * text)', PAIRTT: 'text * text', PAIRPT: 'option text * text', VIEW: 'view_inst',
         FMAP: 'filemap'}
ELEM = {FILES: CAND, COMPILED: PAIRCE, EXTS: TEXT, CHARS: CHAR, TEXTS: TEXT, ENCMAP: PAIRTT}


class Problem(Exception):
    pass


def u(node):
    try:
        return ast.unparse(node)
    except Exception:
        return '<%s>' % type(node).__name__


# ------------------------------------------------------------------ terms
class T:
    pass


class K(T):          # atomic text (variable, constant, literal)
    def __init__(self, s):
        self.s = s

    def key(self):
        return ('K', self.s)


class A(T):          # application
    def __init__(self, fn, *args):
        self.fn, self.args = fn, list(args)

    def key(self):
        return ('A', self.fn) + tuple(a.key() for a in self.args)


class If(T):
    def __init__(self, atom, t, e):
        self.atom, self.t, self.e = atom, t, e

    def key(self):
        return ('If', self.atom.key(), self.t.key(), self.e.key())


class MOpt(T):
    def __init__(self, scrut, none, var, some):
        self.scrut, self.none, self.var, self.some = scrut, none, var, some

    def key(self):
        return ('MOpt', self.scrut.key(), self.none.key(), self.some.key())


class Bind(T):
    def __init__(self, m, var, body):
        self.m, self.var, self.body = m, var, body

    def key(self):
        return ('Bind', self.m.key(), self.body.key())


class Fun(T):
    def __init__(self, var, body):
        self.var, self.body = var, body

    def key(self):
        return ('Fun', self.var, self.body.key())


class Fix(T):
    def __init__(self, n, elem_ty, ret, carried, x, nil, cons, it, init):
        self.n, self.elem_ty, self.ret, self.carried, self.x = n, elem_ty, ret, carried, x
        self.nil, self.cons, self.it, self.init = nil, cons, it, init

    def key(self):
        return ('Fix', self.n, self.nil.key(), self.cons.key(), self.it.key()) + tuple(a.key() for a in self.init)


class Jump(T):
    def __init__(self, n, args):
        self.n, self.args = n, list(args)

    def key(self):
        return ('Jump', self.n) + tuple(a.key() for a in self.args)


def children(t):
    if isinstance(t, A):
        return t.args
    if isinstance(t, If):
        return [t.atom, t.t, t.e]
    if isinstance(t, MOpt):
        return [t.scrut, t.none, t.some]
    if isinstance(t, Bind):
        return [t.m, t.body]
    if isinstance(t, Fun):
        return [t.body]
    if isinstance(t, Fix):
        return [t.nil, t.cons, t.it] + list(t.init)
    if isinstance(t, Jump):
        return t.args
    return []


def occurs(t, name, loop_n, idx):
    """does binder `name` occur in t, other than as the idx-th argument of a jump to loop loop_n?"""
    if isinstance(t, K):
        return t.s == name
    if isinstance(t, Jump) and t.n == loop_n:
        return any(occurs(a, name, loop_n, idx) for i, a in enumerate(t.args) if i != idx)
    return any(occurs(ch, name, loop_n, idx) for ch in children(t))


def fixes(t, out):
    if isinstance(t, Fix):
        out.append(t)
    for ch in children(t):
        fixes(ch, out)
    return out


def prune(t):
    """drop loop-carried variables that are read nowhere: a carried variable is live iff it occurs somewhere other
    than as a whole argument handed on to (a jump to / the initial call of) a loop, or is handed on to a live one"""
    while True:
        fxs = fixes(t, [])
        owner = {}
        for fx in fxs:
            for idx, (nm, b, ty) in enumerate(fx.carried):
                owner[b] = (fx.n, idx)
        live, edges = set(), {}

        def walk(x):
            if isinstance(x, K):
                if x.s in owner:
                    live.add(owner[x.s])
                return
            if isinstance(x, Jump) or isinstance(x, Fix):
                args = x.args if isinstance(x, Jump) else x.init
                for jdx, a in enumerate(args):
                    if isinstance(a, K) and a.s in owner:
                        edges.setdefault(owner[a.s], set()).add((x.n, jdx))
                    else:
                        walk(a)
                if isinstance(x, Fix):
                    walk(x.nil)
                    walk(x.cons)
                    walk(x.it)
                return
            for ch in children(x):
                walk(ch)
        walk(t)
        changed = True
        while changed:
            changed = False
            for p, qs in edges.items():
                if p not in live and qs & live:
                    live.add(p)
                    changed = True
        dead = [p for p in owner.values() if p not in live]
        if not dead:
            return t
        n, idx = max(dead, key=lambda p: p[1])       # highest index first keeps the other indices valid
        for fx in fxs:
            if fx.n == n:
                del fx.carried[idx]
                del fx.init[idx]
        drop_arg(t, n, idx)


def drop_arg(t, loop_n, idx):
    if isinstance(t, Jump) and t.n == loop_n:
        del t.args[idx]
    for ch in children(t):
        drop_arg(ch, loop_n, idx)


def lit(s):
    if not all(ord(ch) < 0x110000 for ch in s):
        raise Problem('literal')
    return K('[' + '; '.join(str(ord(ch)) for ch in s) + ']%N' if s else '(@nil N)')


# ------------------------------------------------------------------ conditions
def implied(b, pol, out):
    k = b[0]
    if k == 'atom':
        out[b[1].key()] = pol
    elif k == 'not':
        implied(b[1], not pol, out)
    elif k == 'and' and pol:
        for x in b[1]:
            implied(x, True, out)
    elif k == 'or' and not pol:
        for x in b[1]:
            implied(x, False, out)
    return out


def mk_if(b, t, e):
    k = b[0]
    if k == 'const':
        return t if b[1] else e
    if k == 'atom':
        return t if t.key() == e.key() else If(b[1], t, e)
    if k == 'not':
        return mk_if(b[1], e, t)
    if k == 'and':
        return t if not b[1] else mk_if(b[1][0], mk_if(('and', b[1][1:]), t, e), e)
    if k == 'or':
        return e if not b[1] else mk_if(b[1][0], t, mk_if(('or', b[1][1:]), t, e))
    raise Problem('internal: condition %r' % (b,))


def b_term(b):
    k = b[0]
    if k == 'const':
        return K('true' if b[1] else 'false')
    if k == 'atom':
        return b[1]
    if k == 'not':
        return A('negb', b_term(b[1]))
    ts = [b_term(x) for x in b[1]]
    out = ts[-1]
    for t in reversed(ts[:-1]):
        out = A('andb' if k == 'and' else 'orb', t, out)
    return out


def simplify(t, known):
    if isinstance(t, If):
        ak = t.atom.key()
        if ak in known:
            return simplify(t.t if known[ak] else t.e, known)
        a = simplify(t.t, dict(known, **{'_': None}) | {ak: True})
        b = simplify(t.e, dict(known) | {ak: False})
        return a if a.key() == b.key() else If(t.atom, a, b)
    if isinstance(t, MOpt):
        return MOpt(t.scrut, simplify(t.none, known), t.var, simplify(t.some, known))
    if isinstance(t, Bind):
        return Bind(t.m, t.var, simplify(t.body, known))
    if isinstance(t, Fix):
        return Fix(t.n, t.elem_ty, t.ret, t.carried, t.x, simplify(t.nil, known), simplify(t.cons, known), t.it, t.init)
    return t


# ------------------------------------------------------------------ rendering
def render(t, ind):
    sp = ' ' * ind
    if isinstance(t, K):
        return t.s
    if isinstance(t, A):
        if t.fn == '++':
            return ' ++ '.join(paren(a, ind) for a in t.args)
        if t.fn == 'pair':
            return '(%s, %s)' % (render(t.args[0], ind), render(t.args[1], ind))
        if t.fn == 'list1':
            return '[%s]' % render(t.args[0], ind)
        if t.fn == '::':
            return '%s :: %s' % (paren(t.args[0], ind), paren(t.args[1], ind))
        return '%s %s' % (t.fn, ' '.join(paren(a, ind) for a in t.args))
    if isinstance(t, Jump):
        return 'loop%d t%d%s' % (t.n, t.n, ''.join(' ' + paren(a, ind) for a in t.args))
    if isinstance(t, If):
        return 'if %s\n%sthen%s\n%selse%s' % (render(t.atom, ind), sp, render_in(t.t, ind + 2), sp, render_in(t.e, ind + 2))
    if isinstance(t, MOpt):
        return 'match %s with\n%s| None =>%s\n%s| Some %s =>%s\n%send' % (
            render(t.scrut, ind), sp, render_in(t.none, ind + 4), sp, t.var, render_in(t.some, ind + 4), sp)
    if isinstance(t, Bind):
        return 'ebind (%s) (fun %s =>%s)' % (render(t.m, ind), t.var, render_in(t.body, ind + 2))
    if isinstance(t, Fun):
        return 'fun %s => %s' % (t.var, render(t.body, ind))
    if isinstance(t, Fix):
        bind = '(l%d : list (%s))' % (t.n, COQTY[t.elem_ty])
        for _, b, ty in t.carried:
            bind += ' (%s : %s)' % (b, COQTY[ty])
        args = [paren(t.it, ind)] + [paren(a, ind) for a in t.init]
        return '(fix loop%d %s {struct l%d} : %s :=\n%s   match l%d with\n%s   | [] =>%s\n%s   | %s :: t%d =>%s\n%s   end) %s' % (
            t.n, bind, t.n, t.ret, sp, t.n, sp, render_in(t.nil, ind + 6), sp, t.x, t.n, render_in(t.cons, ind + 6), sp,
            ' '.join(args))
    raise Problem('internal: cannot render %r' % (t,))


def render_in(t, ind):
    s = render(t, ind)
    if isinstance(t, (If, MOpt, Fix, Bind)):
        return '\n' + ' ' * ind + s
    return ' ' + s


def paren(t, ind):
    s = render(t, ind)
    if isinstance(t, K) and (' ' not in s or s.startswith('[') or s.startswith('(')):
        return s
    if isinstance(t, A) and t.fn in ('pair', 'list1'):
        return s
    return '(' + s + ')'


# ------------------------------------------------------------------ the functions
FUNCS = [
    dict(qual='split_path_info', gen='gen_split_path_info', monadic=False, ret=TEXTS, file='pyramid/traversal.py',
         params=[('path', TEXT)], sig='(path : text) : list text', fall=None, empty_list=('(@nil text)', TEXTS)),
    dict(qual='_contains_invalid_element_char', gen='gen_contains_invalid', monadic=False, ret=BOOL,
         params=[('item', TEXT)], sig='(item : text) : bool', fall='false'),
    dict(qual='_secure_path', gen='gen_secure_path', monadic=False, ret=OPT,
         params=[('path_tuple', TEXTS)], sig='(path_tuple : list text) : option text', fall=None),
    dict(qual='static_view.find_resource_path', gen='gen_find_resource_path', monadic=True, ret=OPT,
         params=[(None, SELF), ('name', TEXT)], sig='(c : config) (fs : fsys) (name : text) : E (option text)',
         fall='None'),
    dict(qual='static_view.add_slash_redirect', gen='gen_add_slash_redirect', monadic=True, ret=RESP,
         params=[(None, SELF), (None, REQ)], sig='(c : config) (rq : request) (pi : text) : E resp', fall=None),
    dict(qual='_compile_content_encodings', gen='gen_compile_content_encodings', monadic=False, ret=COMPILED,
         params=[('encodings', TEXTS)],
         sig='(encmap : list (text * text)) (encodings : list text) : list (text * list text)', fall=None),
    dict(qual='resolve_asset_spec', gen='gen_resolve_asset_spec', monadic=False, ret=PAIRPT, file='pyramid/asset.py',
         params=[('spec', TEXT), ('pname', OPT)], defaults={'pname': "'__main__'"},
         sig='(spec : text) (pname : option text) : option text * text', fall=None),
    dict(qual='Configurator._make_spec', gen='gen_make_spec', monadic=False, ret=TEXT, file='pyramid/config/__init__.py',
         params=[(None, SELF), ('path_or_spec', TEXT)], sig='(cfg_pkg : text) (path_or_spec : text) : text', fall=None,
         self_attrs={'package_name': ('cfg_pkg', TEXT)}),
    # StaticURLInfo.add: only its first statements, which normalise `spec` (the rest stays pinned, those statements dropped)
    dict(qual='StaticURLInfo.add', gen='gen_static_add_spec', monadic=False, ret=TEXT, file='pyramid/config/views.py',
         params=[(None, SELF), (None, ERASED), (None, ERASED), ('spec', TEXT)], allow_kwarg=True, prefix=2, result_var='spec',
         sig='(spec : text) : text', fall=None),
    # __init__: the attribute stores are collected into a record (INIT_FIELDS, each stored exactly once)
    dict(qual='static_view.__init__', gen='gen_init', monadic=False, ret=VIEW, record=True,
         params=[(None, SELF), ('root_dir', TEXT), (None, ERASED), ('package_name', OPT), ('use_subpath', BOOL),
                 ('index', TEXT), ('reload', BOOL), ('content_encodings', TEXTS)],
         defaults={'cache_max_age': '3600', 'package_name': 'None', 'use_subpath': 'False', 'index': None,
                   'reload': 'False', 'content_encodings': '()'},
         sig='(encmap : list (text * text)) (caller : text) (root_dir : text) (package_name : option text) '
             '(use_subpath : bool) (index : text) (reload : bool) (content_encodings : list text) : view_inst',
         fall=None),
    dict(qual='static_view.get_resource_name', gen='gen_get_resource_name', monadic=True, ret=TEXT,
         params=[(None, SELF), (None, REQ)],
         sig='(c : config) (rq : request) (pi : text) (fs : fsys) (use_subpath : bool) (sub : list text) : E text',
         fall=None),
    dict(qual='static_view.get_possible_files', gen='gen_get_possible_files', monadic=True, ret=FILES,
         params=[(None, SELF), ('resource_name', TEXT)], sig='(c : config) (fs : fsys) (resource_name : text) : E (list cand)',
         fall=None),
    dict(qual='static_view.find_best_match', gen='gen_find_best_match', monadic=False, ret=PAIR2,
         params=[(None, SELF), (None, REQ), ('files', FILES)],
         sig='(rq : request) (files : list cand) : option text * option text', fall=None),
    dict(qual='static_view.__call__', gen='gen_call', monadic=True, ret=RESP,
         params=[(None, SELF), (None, ERASED), (None, REQ)],
         sig='(c : config) (rq : request) (pi : text) (fs : fsys) (use_subpath : bool) (sub : list text) : E resp',
         fall=None),
]
SPLITTERS = ('traversal_path_info', 'split_path_info')
# the instance attributes static_view.__init__ must bind, each exactly once, in the order of the fields of view_inst
INIT_FIELDS = [('package_name', OPT), ('docroot', TEXT), ('norm_docroot', TEXT), ('use_subpath', BOOL), ('index', TEXT),
               ('reload', BOOL), ('content_encodings', COMPILED), ('filemap', FMAP)]
INIT_ERASED = ('cache_max_age',)

# every source function whose control flow is regenerated on every run (tools/coverage_map.py reads this)
TRANSLATED = [f.get('file', 'pyramid/static.py') + ':' + f['qual'] for f in FUNCS]


class Val:
    def __init__(self, term, ty):
        self.term, self.ty = term, ty


class Loop:
    def __init__(self, n):
        self.n = n
        self.carried = []      # [(py name, binder, ty)]


class Fn:
    def __init__(self, node, spec, module):
        self.node, self.spec, self.module = node, spec, module
        self.nl = 0
        self.nv = 0
        self.self_name = self.req_name = None

    def fresh(self, base):
        self.nv += 1
        base = ''.join(ch if (ch.isalnum() and ch.isascii()) or ch == '_' else '_' for ch in base) or 'v'
        return '%s_%d' % (base, self.nv)

    # ---------------------------------------------------------------- entry
    def translate(self):
        fn, spec = self.node, self.spec
        if not isinstance(fn, ast.FunctionDef):
            raise Problem('not a def')
        decos = [u(d) for d in fn.decorator_list]
        if decos not in ([], ['lru_cache(1000)']):
            raise Problem('unexpected decorators %r' % decos)
        if decos:
            self.module.check_global('lru_cache', 'functools')     # a transparent memo of a pure function
        a = fn.args
        if a.vararg or (a.kwarg and not spec.get('allow_kwarg')) or a.kwonlyargs or getattr(a, 'posonlyargs', []):
            raise Problem('unexpected parameter list')
        if a.defaults:
            want = spec.get('defaults')
            if want is None:
                raise Problem('unexpected parameter defaults')
            names = [x.arg for x in a.args][len(a.args) - len(a.defaults):]
            got = dict(zip(names, a.defaults))
            if set(got) != set(want):
                raise Problem('parameters with defaults: %r' % sorted(got))
            for nm, w in want.items():
                if w is None:
                    if not (isinstance(got[nm], ast.Constant) and isinstance(got[nm].value, str)):
                        raise Problem('default of %s is not a str constant' % nm)
                elif u(got[nm]) != w:
                    raise Problem('default of %s is %s, expected %s' % (nm, u(got[nm]), w))
        elif spec.get('defaults'):
            raise Problem('parameter defaults missing')
        if len(a.args) != len(spec['params']):
            raise Problem('expected %d parameters, found %d' % (len(spec['params']), len(a.args)))
        env = {}
        for arg, (cn, ty) in zip(a.args, spec['params']):
            if ty == SELF:
                self.self_name = arg.arg
            elif ty == REQ:
                self.req_name = arg.arg
            elif ty != ERASED:
                env[arg.arg] = Val(K(cn), ty)
        body = list(fn.body)
        if body and isinstance(body[0], ast.Expr) and isinstance(getattr(body[0], 'value', None), ast.Constant) \
                and isinstance(body[0].value.value, str):
            body = body[1:]

        if spec.get('prefix'):
            # only the leading statements are translated; they may assign nothing but the result variable and temporaries
            # that die with them (checked: no name bound in the prefix other than the result is read afterwards)
            head, tail = body[:spec['prefix']], body[spec['prefix']:]
            bound = {n.id for st in head for n in ast.walk(st) if isinstance(n, ast.Name) and isinstance(n.ctx, ast.Store)}
            later = {n.id for st in tail for n in ast.walk(st) if isinstance(n, ast.Name) and isinstance(n.ctx, ast.Load)}
            leak = sorted((bound - {spec['result_var']}) & later)
            if leak:
                raise Problem('temporaries of the translated prefix are read later: %s' % ', '.join(leak))
            if not all(isinstance(st, ast.If) for st in head):
                raise Problem('the translated prefix is not made of if statements')
            body = head

        def end(env):
            if spec.get('result_var'):
                v = env.get(spec['result_var'])
                if v is None or v.ty != spec['ret']:
                    raise Problem('%s is not a %s at the end of the translated prefix' % (spec['result_var'], spec['ret']))
                return v.term
            if spec.get('record'):
                args = []
                for attr, ty in INIT_FIELDS:
                    v = env.get('@' + attr)
                    if v is None:
                        raise Problem('self.%s is not bound on some path through __init__' % attr)
                    if v.ty != ty and not (ty == OPT and v.ty in (TEXT, NONE)):
                        raise Problem('self.%s is bound to a %s' % (attr, v.ty))
                    args.append(self.as_opt(v) if ty == OPT else v.term)
                return A('mkView', *args)
            if spec['fall'] is None:
                raise Problem('control can fall off the end of the function')
            return self.ret_term(K(spec['fall']))
        t = prune(simplify(self.block(body, env, end, None), {}))
        return 'Definition %s %s :=\n  %s.\n' % (spec['gen'], spec['sig'], render(t, 2))

    def ret_term(self, t):
        return A('eret', t) if self.spec['monadic'] else t

    # ---------------------------------------------------------------- statements
    def block(self, stmts, env, k, loop):
        if not stmts:
            return k(env)
        s, rest = stmts[0], stmts[1:]

        def cont(env2):
            return self.block(rest, env2, k, loop)
        return self.stmt(s, env, cont, loop)

    def with_binds(self, binds, body):
        for var, m in reversed(binds):
            body = Bind(m, var, body)
        return body

    def stmt(self, s, env, k, loop):
        if isinstance(s, ast.Pass):
            return k(env)
        if isinstance(s, ast.Return):
            if s.value is None:
                raise Problem('bare return')
            binds, t = self.ret_value(s.value, env)
            return self.with_binds(binds, self.ret_term(t))
        if isinstance(s, ast.Raise):
            return self.raise_(s, env)
        if isinstance(s, ast.Continue):
            if loop is None:
                raise Problem('continue outside a loop')
            return self.jump(loop, env)
        if isinstance(s, ast.If):
            return self.if_(s, env, k, loop)
        if isinstance(s, ast.For):
            return self.for_(s, env, k, loop)
        if isinstance(s, ast.Assign):
            return self.assign(s, env, k)
        if isinstance(s, ast.AugAssign) and isinstance(s.op, ast.Add) and isinstance(s.target, ast.Name):
            # x += e  is  x = x + e  (str concatenation; anything else is refused by the + rule)
            return self.assign(ast.Assign(targets=[ast.Name(id=s.target.id, ctx=ast.Store())],
                                          value=ast.BinOp(left=ast.Name(id=s.target.id, ctx=ast.Load()), op=ast.Add(),
                                                          right=s.value)), env, k)
        if isinstance(s, ast.Expr):
            return self.expr_stmt(s, env, k)
        if isinstance(s, ast.Delete):
            # del x[-1] on a list: the last element goes
            ok = len(s.targets) == 1 and isinstance(s.targets[0], ast.Subscript) and isinstance(s.targets[0].value, ast.Name) \
                and s.targets[0].value.id in env and env[s.targets[0].value.id].ty == TEXTS and u(s.targets[0].slice) == '-1'
            if not ok:
                raise Problem('del outside the table: %s' % u(s))
            nm = s.targets[0].value.id
            if not getattr(env[nm], 'nonempty', False):
                raise Problem('del %s[-1] where %s may be empty (IndexError): not guarded by a test of %s' % (nm, nm, nm))
            env2 = dict(env)
            env2[nm] = Val(A('removelast', env[nm].term), TEXTS)
            return k(env2)
        if isinstance(s, ast.Try) and self.spec.get('record'):
            # try: __import__(name)  except ImportError: warnings.warn(..)   -- a deprecation warning, no other effect
            ok = len(s.body) == 1 and isinstance(s.body[0], ast.Expr) and isinstance(s.body[0].value, ast.Call) \
                and isinstance(s.body[0].value.func, ast.Name) and s.body[0].value.func.id == '__import__' \
                and len(s.body[0].value.args) == 1 and isinstance(s.body[0].value.args[0], ast.Name) \
                and not s.orelse and not s.finalbody and len(s.handlers) == 1 \
                and isinstance(s.handlers[0].type, ast.Name) and s.handlers[0].type.id == 'ImportError' \
                and len(s.handlers[0].body) == 1 and isinstance(s.handlers[0].body[0], ast.Expr) \
                and isinstance(s.handlers[0].body[0].value, ast.Call) and u(s.handlers[0].body[0].value.func) == 'warnings.warn'
            if not ok:
                raise Problem('try statement outside the table: %s' % u(s).split('\n')[0])
            self.module.check_plain_import('warnings')
            return k(env)
        raise Problem('statement outside the subset: %s' % u(s).split('\n')[0])

    def jump(self, loop, env):
        args = []
        for name, _, ty in loop.carried:
            v = env.get(name)
            if v is None or v.ty != ty:
                raise Problem('carried variable %s lost its type' % name)
            args.append(v.term)
        return Jump(loop.n, args)

    def ret_value(self, node, env):
        want = self.spec['ret']
        if want == PAIR2:
            if not (isinstance(node, ast.Tuple) and len(node.elts) == 2):
                raise Problem('find_best_match must return a pair: %s' % u(node))
            b1, v1 = self.expr(node.elts[0], env)
            b2, v2 = self.expr(node.elts[1], env)
            return b1 + b2, A('pair', self.as_opt(v1), self.as_opt(v2))
        if want == PAIRPT and isinstance(node, ast.Tuple) and len(node.elts) == 2:
            b1, v1 = self.expr(node.elts[0], env)
            b2, v2 = self.expr(node.elts[1], env)
            if b1 or b2 or v2.ty != TEXT:
                raise Problem('return of (%s, %s)' % (v1.ty, v2.ty))
            return [], A('pair', self.as_opt(v1), v2.term)
        binds, v = self.expr(node, env)
        if want == OPT:
            return binds, self.as_opt(v)
        if want == BOOL and v.ty == BOOL:
            return binds, v.term
        if v.ty != want:
            raise Problem('return value of type %s where %s is expected: %s' % (v.ty, want, u(node)))
        return binds, v.term

    def as_opt(self, v):
        if v.ty == NONE:
            return K('None')
        if v.ty == TEXT:
            return A('Some', v.term)
        if v.ty in (OPT, ENC):
            return v.term
        raise Problem('cannot use a %s as an optional str' % v.ty)

    def raise_(self, s, env):
        if not self.spec['monadic'] or s.exc is None or s.cause is not None:
            raise Problem('raise outside the table: %s' % u(s))
        e = s.exc
        if isinstance(e, ast.Call) and isinstance(e.func, ast.Name) and e.func.id == 'HTTPNotFound' and len(e.args) == 1 \
                and not e.keywords:
            self.global_is(e.func.id, 'pyramid.httpexceptions')
            arg = e.args[0]
            if self.is_req_attr(arg, 'url'):
                kind = 2
            elif isinstance(arg, ast.BinOp) and isinstance(arg.op, ast.Mod) and isinstance(arg.left, ast.Constant) \
                    and isinstance(arg.left.value, str) and arg.left.value.startswith('Out of bounds') \
                    and self.is_req_attr(arg.right, 'url'):
                kind = 1
            else:
                raise Problem('HTTPNotFound argument outside the table: %s' % u(arg))
            return Bind(A('p_path_url', K('c'), K('pi')), self.fresh('url'), A('eraise', A('R404', K(str(kind)))))
        binds, v = self.expr(e, env)
        if v.ty != RESP:
            raise Problem('raise of a %s: %s' % (v.ty, u(e)))
        return self.with_binds(binds, A('eraise', v.term))

    def assign(self, s, env, k):
        if len(s.targets) != 1:
            raise Problem('multiple assignment targets')
        tg = s.targets[0]
        # self.filemap[key] = value
        if isinstance(tg, ast.Subscript) and self.is_self_attr(tg.value, 'filemap'):
            b1, kv = self.expr(tg.slice, env)
            b2, vv = self.expr(s.value, env)
            if kv.ty != TEXT or vv.ty != FILES:
                raise Problem('self.filemap[%s] = %s' % (kv.ty, vv.ty))
            fm = self.fresh('fm')
            body = Bind(K('get_fm'), fm,
                        Bind(A('set_fm', A('::', A('pair', kv.term, vv.term), K(fm))), self.fresh('u'), k(env)))
            return self.with_binds(b1 + b2, body)
        if isinstance(tg, ast.Attribute) and isinstance(tg.value, ast.Name) and tg.value.id == self.self_name \
                and self.spec.get('record'):
            if '@' + tg.attr in env:
                raise Problem('self.%s is bound twice' % tg.attr)
            env2 = dict(env)
            if tg.attr in INIT_ERASED:
                if not isinstance(s.value, ast.Name):
                    raise Problem('self.%s = %s' % (tg.attr, u(s.value)))
                env2['@' + tg.attr] = Val(K('tt'), ERASED)
                return k(env2)
            if tg.attr not in dict(INIT_FIELDS):
                raise Problem('unknown instance attribute self.%s' % tg.attr)
            if tg.attr == 'filemap':
                if not (isinstance(s.value, ast.Dict) and not s.value.keys):
                    raise Problem('self.filemap = %s' % u(s.value))
                env2['@filemap'] = Val(K('(@nil (text * list cand))'), FMAP)
                return k(env2)
            binds, v = self.expr(s.value, env)
            if binds:
                raise Problem('effect in __init__: %s' % u(s))
            env2['@' + tg.attr] = v
            return k(env2)
        if isinstance(tg, ast.Tuple):
            if len(tg.elts) != 2 or not all(isinstance(e, ast.Name) for e in tg.elts):
                raise Problem('tuple target: %s' % u(tg))
            # content_type, _ = _guess_type(name): not modelled
            if isinstance(s.value, ast.Call) and isinstance(s.value.func, ast.Name) and s.value.func.id == '_guess_type':
                self.global_is('_guess_type', 'pyramid.response')
                env2 = dict(env)
                for e in tg.elts:
                    env2[e.id] = Val(K('tt'), ERASED)
                return k(env2)
            if isinstance(s.value, ast.Tuple) and len(s.value.elts) == 2:
                env2 = dict(env)
                for t_, e_ in zip(tg.elts, s.value.elts):
                    b_, v_ = self.expr(e_, env)
                    if b_:
                        raise Problem('effect in a tuple display')
                    env2[t_.id] = v_
                return k(env2)
            sv = s.value
            if isinstance(sv, ast.Call) and isinstance(sv.func, ast.Attribute) and sv.func.attr == 'split' and len(sv.args) == 2 \
                    and isinstance(sv.args[0], ast.Constant) and isinstance(sv.args[0].value, str) and len(sv.args[0].value) == 1 \
                    and isinstance(sv.args[1], ast.Constant) and sv.args[1].value == 1 and isinstance(sv.func.value, ast.Name) \
                    and not sv.keywords:
                nm, ch = sv.func.value.id, ord(sv.args[0].value)
                if nm not in env or env[nm].ty != TEXT:
                    raise Problem('split of %s' % nm)
                if not env.get('?in:%d:%s' % (ch, nm)):
                    raise Problem('a, b = %s.split(%r, 1) where %r may not occur in %s (ValueError)' % (nm, chr(ch), chr(ch), nm))
                env2 = dict(env)
                env2[tg.elts[0].id] = Val(A('fst', A('split1', K(str(ch)), env[nm].term)), TEXT)
                env2[tg.elts[1].id] = Val(A('snd', A('split1', K(str(ch)), env[nm].term)), TEXT)
                return k(env2)
            binds, v = self.expr(s.value, env)
            if v.ty == PAIRPT:
                env2 = dict(env)
                env2[tg.elts[0].id] = Val(A('fst', v.term), OPT)
                env2[tg.elts[1].id] = Val(A('snd', v.term), TEXT)
                return self.with_binds(binds, k(env2))
            if v.ty != PAIR2:
                raise Problem('unpacking a %s' % v.ty)
            env2 = dict(env)
            env2[tg.elts[0].id] = Val(A('fst', v.term), OPT)
            env2[tg.elts[1].id] = Val(A('snd', v.term), ENC)
            return self.with_binds(binds, k(env2))
        if not isinstance(tg, ast.Name):
            raise Problem('assignment target: %s' % u(tg))
        binds, v = self.expr(s.value, env)
        env2 = {k_: v_ for k_, v_ in env.items() if not (k_.startswith('?in:') and k_.endswith(':' + tg.id))}
        env2[tg.id] = v
        return self.with_binds(binds, k(env2))

    def expr_stmt(self, s, env, k):
        c = s.value
        if isinstance(c, ast.Call) and isinstance(c.func, ast.Attribute) and isinstance(c.func.value, ast.Name) \
                and c.func.value.id in env:
            name, meth = c.func.value.id, c.func.attr
            v = env[name]
            env2 = dict(env)
            if meth == 'append' and v.ty == FILES and len(c.args) == 1 and not c.keywords:
                b, item = self.expr(c.args[0], env)
                if item.ty != CAND:
                    raise Problem('append of a %s' % item.ty)
                env2[name] = Val(A('++', v.term, A('list1', item.term)), FILES)
                return self.with_binds(b, k(env2))
            if meth == 'append' and v.ty == TEXTS and len(c.args) == 1 and not c.keywords:
                b, item = self.expr(c.args[0], env)
                if b or item.ty != TEXT:
                    raise Problem('append of a %s' % item.ty)
                env2[name] = Val(A('++', v.term, A('list1', item.term)), TEXTS)
                return k(env2)
            if meth == 'sort' and v.ty == FILES and not c.args and len(c.keywords) == 1 and c.keywords[0].arg == 'key':
                lam = c.keywords[0].value
                ok = isinstance(lam, ast.Lambda) and len(lam.args.args) == 1 and isinstance(lam.body, ast.Call) \
                    and isinstance(lam.body.func, ast.Name) and lam.body.func.id == 'getsize' and len(lam.body.args) == 1 \
                    and u(lam.body.args[0]) == '%s[0]' % lam.args.args[0].arg
                if not ok:
                    raise Problem('sort key outside the table: %s' % u(lam))
                self.global_is('getsize', 'os.path')
                b = self.fresh('sorted')
                env2[name] = Val(K(b), FILES)
                return Bind(A('p_sort_by_size', K('fs'), v.term), b, k(env2))
            if meth == 'add' and v.ty == ACC and len(c.args) == 1 and isinstance(c.args[0], ast.Constant) \
                    and c.args[0].value is None:
                env2[name] = Val(A('acc_add_none', v.term), ACC)
                return k(env2)
        # d.setdefault(k, []).append(v) on the dict encoding -> [extensions] (insertion ordered)
        if isinstance(c, ast.Call) and isinstance(c.func, ast.Attribute) and c.func.attr == 'append' and len(c.args) == 1 \
                and not c.keywords and isinstance(c.func.value, ast.Call) and isinstance(c.func.value.func, ast.Attribute) \
                and c.func.value.func.attr == 'setdefault' and isinstance(c.func.value.func.value, ast.Name) \
                and c.func.value.func.value.id in env and env[c.func.value.func.value.id].ty == COMPILED \
                and len(c.func.value.args) == 2 and not c.func.value.keywords \
                and isinstance(c.func.value.args[1], ast.List) and not c.func.value.args[1].elts:
            name = c.func.value.func.value.id
            bk, kv = self.expr(c.func.value.args[0], env)
            bv, vv = self.expr(c.args[0], env)
            if bk or bv or kv.ty != TEXT or vv.ty != TEXT:
                raise Problem('setdefault(%s, []).append(%s)' % (kv.ty, vv.ty))
            env2 = dict(env)
            env2[name] = Val(A('compile_add', env[name].term, kv.term, vv.term), COMPILED)
            return k(env2)
        if isinstance(c, ast.Call) and isinstance(c.func, ast.Name) and c.func.id == '_add_vary' and len(c.args) == 2 \
                and isinstance(c.args[0], ast.Name) and c.args[0].id in env and env[c.args[0].id].ty == RESP \
                and isinstance(c.args[1], ast.Constant) and c.args[1].value == 'Accept-Encoding':
            self.global_is('_add_vary', None)
            env2 = dict(env)
            env2[c.args[0].id] = Val(A('set_vary', env[c.args[0].id].term), RESP)
            return k(env2)
        raise Problem('expression statement outside the table: %s' % u(s))

    def if_(self, s, env, k, loop):
        def leaves(body):
            return bool(body) and isinstance(body[-1], (ast.Raise, ast.Return, ast.Continue))

        def branch(body, other):
            # `restore` undoes, for the statements AFTER the if, the refinement of an optional variable that the
            # test introduced for this branch -- unless the branch re-assigned the variable, or the other branch
            # never reaches those statements (then the refinement holds for all of them)
            keep = leaves(other)
            return lambda env2, restore=(lambda e: e): self.block(
                body, env2, (lambda e3: k(e3)) if keep else (lambda e3: k(restore(e3))), loop)
        return self.cond(s.test, env, branch(s.body, s.orelse), branch(s.orelse, s.body))

    def cond(self, test, env, kt, kf):
        """translate `if test` with continuations for the true / false branch (each receives an env)"""
        if isinstance(test, ast.UnaryOp) and isinstance(test.op, ast.Not):
            return self.cond(test.operand, env, kf, kt)
        # optional values: is None / is not None / truthiness
        if isinstance(test, ast.Compare) and len(test.ops) == 1 and isinstance(test.ops[0], (ast.Is, ast.IsNot)) \
                and isinstance(test.comparators[0], ast.Constant) and test.comparators[0].value is None \
                and isinstance(test.left, ast.Name) and test.left.id in env and env[test.left.id].ty in (OPT, 'optfiles'):
            name = test.left.id
            v = env[name]
            b = self.fresh(name)
            env_some = dict(env)
            r_some = env_some[name] = Val(K(b), TEXT if v.ty == OPT else FILES)
            env_none = dict(env)
            r_none = env_none[name] = Val(K('None'), NONE)
            rs, rn = self.restorer(name, r_some, v), self.restorer(name, r_none, v)
            if isinstance(test.ops[0], ast.Is):
                return MOpt(v.term, kt(env_none, rn), b, kf(env_some, rs))
            return MOpt(v.term, kf(env_none, rn), b, kt(env_some, rs))
        if isinstance(test, ast.Name) and test.id in env and env[test.id].ty == OPT:
            name = test.id
            v = env[name]
            b = self.fresh(name)
            env_some = dict(env)
            r_some = env_some[name] = Val(K(b), TEXT)
            env_none = dict(env)
            r_none = env_none[name] = Val(K('None'), NONE)
            rs, rn = self.restorer(name, r_some, v), self.restorer(name, r_none, v)
            fa = kf(env_none, rn)
            return MOpt(v.term, fa, b, mk_if(('atom', A('nonempty_text', K(b))), kt(env_some, rs), kf(env_some, rs)))
        if isinstance(test, ast.BoolOp) and isinstance(test.op, ast.And) and len(test.values) == 2 \
                and isinstance(test.values[0], ast.Name) and test.values[0].id in env \
                and env[test.values[0].id].ty in (OPT, TEXT, NONE) and u(test.values[1]) == 'not isinstance(%s, str)' % test.values[0].id:
            # x is a str or None in the model (table): a truthy x IS a str, the test is false, its branch is dead code
            return kf(env)
        if isinstance(test, ast.Compare) and len(test.ops) == 1 and isinstance(test.ops[0], ast.In) \
                and isinstance(test.left, ast.Constant) and isinstance(test.left.value, str) and len(test.left.value) == 1 \
                and isinstance(test.comparators[0], ast.Name) and test.comparators[0].id in env \
                and env[test.comparators[0].id].ty == TEXT:
            nm, ch = test.comparators[0].id, ord(test.left.value)
            env_t = dict(env)
            env_t['?in:%d:%s' % (ch, nm)] = True          # known in the true branch: s.split(c, 1) has two parts
            b = ('atom', A('memN', K(str(ch)), env[nm].term))
            return mk_if(b, simplify(kt(env_t), implied(b, True, {})), simplify(kf(env), implied(b, False, {})))
        if isinstance(test, ast.Name) and test.id in env and env[test.id].ty == TEXTS:
            # truthiness of a list: in the true branch (and in what follows, when the false branch leaves) the list is
            # known to be non-empty until it is modified -- `del x[-1]` is only translated under that knowledge
            v = env[test.id]
            known = Val(v.term, TEXTS)
            known.nonempty = True
            env_t = dict(env)
            env_t[test.id] = known
            b = ('atom', A('nonempty_list', v.term))
            return mk_if(b, simplify(kt(env_t), implied(b, True, {})), simplify(kf(env), implied(b, False, {})))
        binds, b = self.bexpr(test, env)
        if binds and b[0] not in ('atom', 'not'):
            raise Problem('an effectful test must be the whole test: %s' % u(test))
        t = kt(env)
        e = kf(env)
        return self.with_binds(binds, mk_if(b, simplify(t, implied(b, True, {})), simplify(e, implied(b, False, {}))))

    @staticmethod
    def restorer(name, refined, original):
        def restore(env):
            if env.get(name) is refined:
                env = dict(env)
                env[name] = original
            return env
        return restore

    def for_(self, s, env, k, outer):
        if s.orelse:
            raise Problem('for .. else')
        binds, it = self.expr(s.iter, env)
        if binds:
            raise Problem('effectful loop iterable')
        if it.ty not in ELEM:
            raise Problem('cannot iterate over a %s: %s' % (it.ty, u(s.iter)))
        self.nl += 1
        lp = Loop(self.nl)
        x = 'x%d' % lp.n
        elem_ty = ELEM[it.ty]
        env_b = dict(env)
        if isinstance(s.target, ast.Name):
            env_b[s.target.id] = Val(K(x), elem_ty)
        elif isinstance(s.target, ast.Tuple) and len(s.target.elts) == 2 and all(isinstance(e, ast.Name) for e in s.target.elts):
            if elem_ty == CAND:
                tys = (TEXT, ENC)
            elif elem_ty == PAIRCE:
                tys = (TEXT, EXTS)
            elif elem_ty == PAIRTT:
                tys = (TEXT, TEXT)
            else:
                raise Problem('pair pattern over %s' % elem_ty)
            env_b[s.target.elts[0].id] = Val(A('fst', K(x)), tys[0])
            env_b[s.target.elts[1].id] = Val(A('snd', K(x)), tys[1])
        else:
            raise Problem('loop target: %s' % u(s.target))
        # carried variables: assigned in the body and bound at loop entry
        assigned = []
        for n in ast.walk(ast.Module(body=s.body, type_ignores=[])):
            nm = None
            if isinstance(n, ast.Assign) and len(n.targets) == 1 and isinstance(n.targets[0], ast.Name):
                nm = n.targets[0].id
            elif isinstance(n, ast.Expr) and isinstance(n.value, ast.Call) and isinstance(n.value.func, ast.Attribute) \
                    and isinstance(n.value.func.value, ast.Name) and n.value.func.attr in ('append', 'sort', 'add'):
                nm = n.value.func.value.id
            elif isinstance(n, ast.Expr) and isinstance(n.value, ast.Call) and isinstance(n.value.func, ast.Attribute) \
                    and n.value.func.attr == 'append' and isinstance(n.value.func.value, ast.Call) \
                    and isinstance(n.value.func.value.func, ast.Attribute) and n.value.func.value.func.attr == 'setdefault' \
                    and isinstance(n.value.func.value.func.value, ast.Name):
                nm = n.value.func.value.func.value.id
            elif isinstance(n, ast.AugAssign) and isinstance(n.target, ast.Name):
                nm = n.target.id
            elif isinstance(n, ast.Delete) and len(n.targets) == 1 and isinstance(n.targets[0], ast.Subscript) \
                    and isinstance(n.targets[0].value, ast.Name):
                nm = n.targets[0].value.id
            if nm and nm not in assigned:
                assigned.append(nm)
        for nm in assigned:
            if nm in env and env[nm].ty not in (ERASED, NONE):
                b = 'c_%s_%d' % (''.join(ch if ch.isalnum() and ch.isascii() else '_' for ch in nm), lp.n)
                lp.carried.append((nm, b, env[nm].ty))
                env_b[nm] = Val(K(b), env[nm].ty)
        # the rest of the function after the loop, with the carried variables at their exit values
        env_exit = dict(env)
        for nm, b, ty in lp.carried:
            env_exit[nm] = Val(K(b), ty)
        nil = k(env_exit)
        cons = self.block(s.body, env_b, lambda e2: self.jump(lp, e2), lp)
        ret = ('E (%s)' % COQTY[self.spec['ret']]) if self.spec['monadic'] else COQTY[self.spec['ret']]
        init = [env[nm].term for nm, _, _ in lp.carried]
        return Fix(lp.n, elem_ty, ret, list(lp.carried), x, nil, cons, it.term, init)

    # ---------------------------------------------------------------- helpers about names
    def is_self_attr(self, node, attr):
        return isinstance(node, ast.Attribute) and node.attr == attr and isinstance(node.value, ast.Name) \
            and node.value.id == self.self_name and self.self_name is not None

    def is_req_attr(self, node, attr):
        return isinstance(node, ast.Attribute) and node.attr == attr and isinstance(node.value, ast.Name) \
            and node.value.id == self.req_name and self.req_name is not None

    def global_is(self, name, module):
        self.module.check_global(name, module)

    # ---------------------------------------------------------------- boolean expressions
    def bexpr(self, node, env):
        if isinstance(node, ast.BoolOp):
            parts = []
            for v in node.values:
                b, p = self.bexpr(v, env)
                if b:
                    raise Problem('effect inside and/or: %s' % u(v))
                parts.append(p)
            return [], ('and' if isinstance(node.op, ast.And) else 'or', parts)
        if isinstance(node, ast.UnaryOp) and isinstance(node.op, ast.Not):
            b, p = self.bexpr(node.operand, env)
            return b, ('not', p)
        binds, v = self.expr(node, env, want_bool=True)
        if v.ty == TEXT:                   # truth value of a str: it is not empty
            return binds, ('atom', A('nonempty_text', v.term))
        if v.ty == TEXTS:                  # truth value of a list: it is not empty
            return binds, ('atom', A('nonempty_list', v.term))
        if v.ty != BOOL:
            raise Problem('truth value of a %s is not in the table: %s' % (v.ty, u(node)))
        return binds, ('atom', v.term)

    # ---------------------------------------------------------------- expressions (the primitive table)
    def expr(self, node, env, want_bool=False):
        """-> (binds, Val).  binds = [(binder, monadic term)] to be sequenced before the value is used."""
        if isinstance(node, ast.Constant):
            if node.value is None:
                return [], Val(K('None'), NONE)
            if isinstance(node.value, bool):
                return [], Val(K('true' if node.value else 'false'), BOOL)
            if isinstance(node.value, str):
                return [], Val(lit(node.value), TEXT)
            raise Problem('constant %r' % (node.value,))
        if isinstance(node, ast.Name):
            if node.id in env:
                v = env[node.id]
                if v.ty == ERASED:
                    raise Problem('%s is not modelled and cannot be used here' % node.id)
                return [], v
            if node.id == '_invalid_element_chars':
                self.module.check_fact_binding('_invalid_element_chars')
                return [], Val(K('invalid_element_chars'), CHARS)
            raise Problem('name %s is not in the table' % node.id)
        if isinstance(node, ast.List) and not node.elts:
            if self.spec.get('empty_list'):
                return [], Val(K(self.spec['empty_list'][0]), self.spec['empty_list'][1])
            return [], Val(K('(@nil cand)'), FILES)
        if isinstance(node, ast.Dict) and not node.keys:
            return [], Val(K('(@nil (text * list text))'), COMPILED)
        if isinstance(node, ast.Tuple) and len(node.elts) == 2:
            b1, v1 = self.expr(node.elts[0], env)
            b2, v2 = self.expr(node.elts[1], env)
            if v1.ty != TEXT:
                raise Problem('first component of a candidate must be a str: %s' % u(node))
            return b1 + b2, Val(A('pair', v1.term, self.as_opt(v2)), CAND)
        if isinstance(node, ast.BinOp) and isinstance(node.op, ast.Add):
            b1, v1 = self.expr(node.left, env)
            b2, v2 = self.expr(node.right, env)
            if v1.ty != TEXT or v2.ty != TEXT:
                raise Problem('+ on %s and %s' % (v1.ty, v2.ty))
            return b1 + b2, Val(A('++', v1.term, v2.term), TEXT)
        if isinstance(node, ast.JoinedStr):
            parts = []
            for piece in node.values:
                if isinstance(piece, ast.Constant) and isinstance(piece.value, str):
                    parts.append(lit(piece.value))
                elif isinstance(piece, ast.FormattedValue) and piece.conversion == -1 and piece.format_spec is None:
                    b_, v_ = self.expr(piece.value, env)
                    if b_ or v_.ty != TEXT:
                        raise Problem('f-string field of type %s' % v_.ty)
                    parts.append(v_.term)
                else:
                    raise Problem('f-string piece outside the table: %s' % u(node))
            return [], Val(A('++', *parts) if len(parts) > 1 else parts[0], TEXT)
        if isinstance(node, ast.Compare) and len(node.ops) == 1:
            return self.compare(node, env)
        if isinstance(node, ast.Attribute):
            return self.attribute(node, env)
        if isinstance(node, ast.Call):
            return self.call(node, env)
        if isinstance(node, ast.SetComp):
            return self.offers(node, env)
        raise Problem('expression outside the table: %s' % u(node))

    def compare(self, node, env):
        op, l, r = node.ops[0], node.left, node.comparators[0]
        if isinstance(op, (ast.In, ast.NotIn)):
            b1, v1 = self.expr(l, env)
            b2, v2 = self.expr(r, env)
            if v1.ty == CHAR and v2.ty == TEXT:
                t = A('memN', v1.term, v2.term)
            elif v1.ty == TEXT and v2.ty == TEXTS:
                t = A('mem_text', v1.term, v2.term)
            elif v1.ty in (ENC, NONE, OPT) and v2.ty == ACC:
                t = A('acc_mem', self.as_opt(v1), v2.term)
            else:
                raise Problem('`in` on %s and %s' % (v1.ty, v2.ty))
            return b1 + b2, Val(t if isinstance(op, ast.In) else A('negb', t), BOOL)
        if isinstance(op, (ast.Eq, ast.NotEq)):
            b1, v1 = self.expr(l, env)
            b2, v2 = self.expr(r, env)
            if b1 or b2 or v1.ty != TEXT or v2.ty != TEXT:
                raise Problem('== on %s and %s' % (v1.ty, v2.ty))
            t = A('text_eqb', v1.term, v2.term)
            return [], Val(t if isinstance(op, ast.Eq) else A('negb', t), BOOL)
        if isinstance(op, (ast.Is, ast.IsNot)) and isinstance(r, ast.Constant) and r.value is None:
            b1, v1 = self.expr(l, env)
            if v1.ty not in (OPT, ENC):
                raise Problem('`is None` on a %s' % v1.ty)
            t = A('is_none', v1.term)
            return b1, Val(t if isinstance(op, ast.Is) else A('negb', t), BOOL)
        if isinstance(op, ast.Gt) and isinstance(l, ast.Call) and isinstance(l.func, ast.Name) and l.func.id == 'len' \
                and len(l.args) == 1 and isinstance(r, ast.Constant) and isinstance(r.value, int) and r.value >= 0:
            b1, v1 = self.expr(l.args[0], env)
            if v1.ty != FILES:
                raise Problem('len of a %s' % v1.ty)
            return b1, Val(A('Nat.ltb', K(str(r.value)), A('length', v1.term)), BOOL)
        raise Problem('comparison outside the table: %s' % u(node))

    def attribute(self, node, env):
        sa = self.spec.get('self_attrs')
        if sa and isinstance(node.value, ast.Name) and node.value.id == self.self_name:
            if node.attr not in sa:
                raise Problem('self.%s is not in the table' % node.attr)
            return [], Val(K(sa[node.attr][0]), sa[node.attr][1])
        if u(node) == 'os.sep' and 'os' not in env:
            self.module.check_plain_import('os')
            return [], Val(lit('/'), TEXT)                 # POSIX
        if self.spec.get('record') and isinstance(node.value, ast.Name) and node.value.id == self.self_name:
            # inside __init__ an attribute read sees what __init__ itself has stored so far
            v = env.get('@' + node.attr)
            if v is None or v.ty == ERASED:
                raise Problem('self.%s is read in __init__ before it is bound' % node.attr)
            return [], v
        for attr, (term, ty) in (('use_subpath', (K('use_subpath'), BOOL)), ('package_name', (A('c_pkg', K('c')), BOOL)),
                                 ('docroot', (A('c_docroot', K('c')), TEXT)),
                                 ('norm_docroot', (A('normpath', A('c_docroot', K('c'))), TEXT)),
                                 ('index', (A('eff_index', K('c')), TEXT)), ('reload', (A('c_reload', K('c')), BOOL))):
            if self.is_self_attr(node, attr):
                self.module.check_init_binding(attr)
                return [], Val(term, ty)
        if self.is_req_attr(node, 'subpath'):
            return [], Val(K('sub'), TEXTS)
        if node.attr == '__name__' and isinstance(node.value, ast.Call) and isinstance(node.value.func, ast.Name) \
                and node.value.func.id == 'caller_package' and not node.value.args and not node.value.keywords \
                and self.spec.get('record'):
            # the package of the module that calls static_view(..): an input of the model (s_caller)
            self.global_is('caller_package', 'pyramid.path')
            return [], Val(K('caller'), TEXT)
        if self.is_req_attr(node, 'query_string'):
            return [], Val(A('r_qs', K('rq')), TEXT)
        if self.is_req_attr(node, 'accept_encoding'):
            return [], Val(A('r_ae', K('rq')), BOOL)
        if self.is_req_attr(node, 'path_url') or self.is_req_attr(node, 'url'):
            b = self.fresh('url')
            return [(b, A('p_path_url', K('c'), K('pi')))], Val(K(b), TEXT)
        raise Problem('attribute outside the table: %s' % u(node))

    def call(self, node, env):
        f = node.func
        if node.keywords:
            raise Problem('keyword arguments: %s' % u(node))
        args = node.args
        # ---- methods
        if isinstance(f, ast.Attribute):
            # str methods
            if u(f) == 'os.path.isabs' and len(args) == 1 and 'os' not in env:
                self.module.check_plain_import('os')
                b0, v0 = self.expr(args[0], env)
                if b0 or v0.ty != TEXT:
                    raise Problem('isabs of a %s' % v0.ty)
                return [], Val(A('startswith', lit('/'), v0.term), BOOL)      # POSIX
            if f.attr == 'endswith' and len(args) == 1 and not isinstance(args[0], ast.Constant):
                b0, v0 = self.expr(f.value, env)
                b1, v1 = self.expr(args[0], env)
                if b0 or b1 or v0.ty != TEXT or v1.ty != TEXT:
                    raise Problem('endswith on %s with %s' % (v0.ty, v1.ty))
                return [], Val(A('endswith', v1.term, v0.term), BOOL)
            if f.attr in ('strip', 'split') and len(args) == 1 and isinstance(args[0], ast.Constant) \
                    and isinstance(args[0].value, str) and len(args[0].value) == 1:
                b0, v0 = self.expr(f.value, env)
                if b0 or v0.ty != TEXT:
                    raise Problem('%s on a %s' % (f.attr, v0.ty))
                ch = K(str(ord(args[0].value)))
                if f.attr == 'strip':
                    return [], Val(A('strip_char', ch, v0.term), TEXT)
                return [], Val(A('split_on', ch, v0.term), TEXTS)
            if f.attr in ('rstrip', 'endswith', 'join', 'format') and not self.is_self_attr(f.value, f.attr):
                if f.attr == 'format' and isinstance(f.value, ast.Constant) and isinstance(f.value.value, str):
                    pieces = f.value.value.split('{}')
                    if len(pieces) != len(args) + 1 or '{' in ''.join(pieces) or '}' in ''.join(pieces):
                        raise Problem('format string %r' % f.value.value)
                    binds, parts = [], []
                    for i, a in enumerate(args):
                        if pieces[i]:
                            parts.append(lit(pieces[i]))
                        b, v = self.expr(a, env)
                        if v.ty != TEXT:
                            raise Problem('format argument of type %s' % v.ty)
                        binds += b
                        parts.append(v.term)
                    if pieces[-1]:
                        parts.append(lit(pieces[-1]))
                    return binds, Val(A('++', *parts) if len(parts) > 1 else parts[0], TEXT)
                if f.attr == 'join' and len(args) == 1:
                    b0, v0 = self.expr(f.value, env)
                    b1, v1 = self.expr(args[0], env)
                    if v0.ty != TEXT or v1.ty != TEXTS:
                        raise Problem('join on %s of %s' % (v0.ty, v1.ty))
                    return b0 + b1, Val(A('join', v0.term, v1.term), TEXT)
                if f.attr in ('rstrip', 'endswith') and len(args) == 1 and isinstance(args[0], ast.Constant) \
                        and isinstance(args[0].value, str):
                    b0, v0 = self.expr(f.value, env)
                    if v0.ty != TEXT:
                        raise Problem('%s on a %s' % (f.attr, v0.ty))
                    if f.attr == 'rstrip':
                        if len(args[0].value) != 1:
                            raise Problem('rstrip with %r' % args[0].value)
                        return b0, Val(A('rstrip_char', K(str(ord(args[0].value))), v0.term), TEXT)
                    return b0, Val(A('endswith', lit(args[0].value), v0.term), BOOL)
            # self.<method>(...)
            if isinstance(f.value, ast.Name) and f.value.id == self.self_name:
                m = f.attr
                if m == 'add_slash_redirect' and len(args) == 1 and isinstance(args[0], ast.Name) and args[0].id == self.req_name:
                    b = self.fresh('redirect')
                    return [(b, A('gen_add_slash_redirect', K('c'), K('rq'), K('pi')))], Val(K(b), RESP)
                if m == 'find_resource_path' and len(args) == 1:
                    b0, v0 = self.expr(args[0], env)
                    if v0.ty != TEXT:
                        raise Problem('find_resource_path of a %s' % v0.ty)
                    b = self.fresh('path')
                    return b0 + [(b, A('gen_find_resource_path', K('c'), K('fs'), v0.term))], Val(K(b), OPT)
                if m == 'get_resource_name' and len(args) == 1 and isinstance(args[0], ast.Name) and args[0].id == self.req_name:
                    b = self.fresh('name')
                    return [(b, A('gen_get_resource_name', K('c'), K('rq'), K('pi'), K('fs'), K('use_subpath'), K('sub')))], \
                        Val(K(b), TEXT)
                if m == 'get_possible_files' and len(args) == 1:
                    b0, v0 = self.expr(args[0], env)
                    if v0.ty != TEXT:
                        raise Problem('get_possible_files of a %s' % v0.ty)
                    b = self.fresh('files')
                    return b0 + [(b, A('gen_get_possible_files', K('c'), K('fs'), v0.term))], Val(K(b), FILES)
                if m == 'find_best_match' and len(args) == 2 and isinstance(args[0], ast.Name) and args[0].id == self.req_name:
                    b1, v1 = self.expr(args[1], env)
                    if v1.ty != FILES:
                        raise Problem('find_best_match of a %s' % v1.ty)
                    return b1, Val(A('gen_find_best_match', K('rq'), v1.term), PAIR2)
            # self.filemap.get(k) / self.content_encodings.items()
            if f.attr == 'get' and self.is_self_attr(f.value, 'filemap') and len(args) == 1:
                self.module.check_init_binding('filemap')
                b0, v0 = self.expr(args[0], env)
                if v0.ty != TEXT:
                    raise Problem('filemap key of type %s' % v0.ty)
                fm = self.fresh('fm')
                return b0 + [(fm, K('get_fm'))], Val(A('fm_get', K(fm), v0.term), 'optfiles')
            if f.attr == 'items' and not args and isinstance(f.value, ast.Attribute) and f.value.attr == 'encodings_map' \
                    and isinstance(f.value.value, ast.Name) and f.value.value.id == 'mimetypes' and 'mimetypes' not in env:
                self.module.check_plain_import('mimetypes')
                return [], Val(K('encmap'), ENCMAP)
            if f.attr == 'items' and self.is_self_attr(f.value, 'content_encodings') and not args:
                self.module.check_init_binding('content_encodings')
                return [], Val(A('compile_encodings', A('c_encs', K('c')), A('c_encmap', K('c'))), COMPILED)
            raise Problem('method call outside the table: %s' % u(node))
        if not isinstance(f, ast.Name):
            raise Problem('call outside the table: %s' % u(node))
        name = f.id
        if name in env:
            raise Problem('call of a local: %s' % u(node))
        # ---- module-level functions of static.py
        if name == '_has_insecure_pathelement' and len(args) == 1:
            self.module.check_fact_binding(name)
            b, v = self.expr(args[0], env)
            if v.ty != TEXTS:
                raise Problem('%s of a %s' % (name, v.ty))
            return b, Val(A('has_insecure', v.term), BOOL)
        if name == '_contains_invalid_element_char' and len(args) == 1:
            self.module.check_translated(name)
            b, v = self.expr(args[0], env)
            if v.ty != TEXT:
                raise Problem('%s of a %s' % (name, v.ty))
            return b, Val(A('gen_contains_invalid', v.term), BOOL)
        if name == 'resolve_asset_spec' and len(args) == 2:
            self.global_is(name, 'pyramid.asset')
            b0, v0 = self.expr(args[0], env)
            b1, v1 = self.expr(args[1], env)
            if b0 or b1 or v0.ty != TEXT or v1.ty not in (TEXT, OPT, NONE):
                raise Problem('resolve_asset_spec(%s, %s)' % (v0.ty, v1.ty))
            return [], Val(A('gen_resolve_asset_spec', v0.term, self.as_opt(v1)), PAIRPT)
        if name == '_compile_content_encodings' and len(args) == 1:
            self.module.check_translated(name)
            b, v = self.expr(args[0], env)
            if b or v.ty != TEXTS:
                raise Problem('%s of a %s' % (name, v.ty))
            return [], Val(A('gen_compile_content_encodings', K('encmap'), v.term), COMPILED)
        if name == '_secure_path' and len(args) == 1:
            self.module.check_translated(name)
            b, v = self.expr(args[0], env)
            if v.ty != TEXTS:
                raise Problem('%s of a %s' % (name, v.ty))
            return b, Val(A('gen_secure_path', v.term), OPT)
        if name == 'tuple' and len(args) == 1:
            b, v = self.expr(args[0], env)
            if b or v.ty != TEXTS:
                raise Problem('tuple of a %s' % v.ty)
            return [], v
        if name == 'any' and len(args) == 1 and isinstance(args[0], (ast.ListComp, ast.GeneratorExp)):
            comp = args[0]
            if len(comp.generators) != 1 or comp.generators[0].ifs or comp.generators[0].is_async \
                    or not isinstance(comp.generators[0].target, ast.Name):
                raise Problem('comprehension outside the table: %s' % u(comp))
            g = comp.generators[0]
            b, it = self.expr(g.iter, env)
            if b or it.ty not in ELEM:
                raise Problem('any over a %s' % it.ty)
            x = self.fresh(g.target.id)
            env2 = dict(env)
            env2[g.target.id] = Val(K(x), ELEM[it.ty])
            bb, body = self.bexpr(comp.elt, env2)
            if bb:
                raise Problem('effect inside any(..)')
            return [], Val(A('existsb', Fun(x, b_term(body)), it.term), BOOL)
        if name == 'next' and len(args) == 2 and isinstance(args[0], ast.GeneratorExp) \
                and isinstance(args[1], ast.Constant) and args[1].value is None:
            comp = args[0]
            if len(comp.generators) != 1 or len(comp.generators[0].ifs) != 1 or comp.generators[0].is_async:
                raise Problem('generator outside the table: %s' % u(comp))
            g = comp.generators[0]
            b, it = self.expr(g.iter, env)
            if b or it.ty != FILES:
                raise Problem('next over a %s' % it.ty)
            x = self.fresh('f')
            env2 = dict(env)
            if isinstance(g.target, ast.Tuple) and len(g.target.elts) == 2 and all(isinstance(e, ast.Name) for e in g.target.elts):
                env2[g.target.elts[0].id] = Val(A('fst', K(x)), TEXT)
                env2[g.target.elts[1].id] = Val(A('snd', K(x)), ENC)
            elif isinstance(g.target, ast.Name):
                env2[g.target.id] = Val(K(x), CAND)
            else:
                raise Problem('generator target: %s' % u(g.target))
            bb, c = self.bexpr(g.ifs[0], env2)
            be, e = self.expr(comp.elt, env2)
            if bb or be or e.ty != TEXT:
                raise Problem('generator element outside the table: %s' % u(comp))
            return [], Val(A('option_map', Fun(x, e.term), A('find', Fun(x, b_term(c)), it.term)), OPT)
        # ---- os.path / pkg_resources / pyramid.traversal
        if name == 'normcase' and len(args) == 1:
            self.global_is(name, 'os.path')
            return self.expr(args[0], env)
        if name == 'normpath' and len(args) == 1:
            self.global_is(name, 'os.path')
            b, v = self.expr(args[0], env)
            if v.ty != TEXT:
                raise Problem('normpath of a %s' % v.ty)
            return b, Val(A('normpath', v.term), TEXT)
        if name == 'join' and len(args) == 2:
            self.global_is(name, 'os.path')
            b1, v1 = self.expr(args[0], env)
            b2, v2 = self.expr(args[1], env)
            if v1.ty != TEXT or v2.ty != TEXT:
                raise Problem('join of %s and %s' % (v1.ty, v2.ty))
            return b1 + b2, Val(A('pjoin', v1.term, v2.term), TEXT)
        if name in ('isdir', 'exists') and len(args) == 1:
            self.global_is(name, 'os.path')
            b1, v1 = self.expr(args[0], env)
            if v1.ty != TEXT:
                raise Problem('%s of a %s' % (name, v1.ty))
            b = self.fresh(name)
            return b1 + [(b, A('p_' + name, K('fs'), v1.term))], Val(K(b), BOOL)
        if name in ('resource_isdir', 'resource_exists', 'resource_filename') and len(args) == 2 \
                and self.is_self_attr(args[0], 'package_name'):
            self.global_is(name, 'pkg_resources')
            b1, v1 = self.expr(args[1], env)
            if v1.ty != TEXT:
                raise Problem('%s of a %s' % (name, v1.ty))
            p = A('pkg_fn', A('c_modpath', K('c')), v1.term)
            if name == 'resource_filename':
                return b1, Val(p, TEXT)
            b = self.fresh(name)
            return b1 + [(b, A('p_isdir' if name == 'resource_isdir' else 'p_exists', K('fs'), p))], Val(K(b), BOOL)
        if name in SPLITTERS and len(args) == 1 and self.is_req_attr(args[0], 'path_info'):
            self.global_is(name, 'pyramid.traversal')
            b = self.fresh('tuple')
            return [(b, A('p_view_tuple', K('pi')))], Val(K(b), TEXTS)
        if name == 'HTTPMovedPermanently' and len(args) == 1:
            self.global_is(name, 'pyramid.httpexceptions')
            b1, v1 = self.expr(args[0], env)
            if v1.ty != TEXT:
                raise Problem('HTTPMovedPermanently of a %s' % v1.ty)
            return b1, Val(A('R301', v1.term), RESP)
        if name == 'FileResponse' and len(args) == 5:
            self.global_is(name, 'pyramid.response')
            ok = isinstance(args[1], ast.Name) and args[1].id == self.req_name and self.is_self_attr(args[2], 'cache_max_age') \
                and isinstance(args[3], ast.Name) and args[3].id in env and env[args[3].id].ty == ERASED
            if not ok:
                raise Problem('FileResponse arguments outside the table: %s' % u(node))
            b1, v1 = self.expr(args[0], env)
            b2, v2 = self.expr(args[4], env)
            if v1.ty != TEXT or v2.ty not in (ENC, OPT, NONE):
                raise Problem('FileResponse(%s, .., %s)' % (v1.ty, v2.ty))
            b = self.fresh('response')
            return b1 + b2 + [(b, A('p_file_response', K('fs'), v1.term, self.as_opt(v2)))], Val(K(b), RESP)
        raise Problem('call outside the table: %s' % u(node))

    def offers(self, node, env):
        """{x[0] for x in request.accept_encoding.acceptable_offers([enc for path, enc in files if enc is not None])}"""
        try:
            g, = node.generators
            assert not g.ifs and isinstance(g.target, ast.Name)
            assert u(node.elt) == '%s[0]' % g.target.id
            c = g.iter
            assert isinstance(c, ast.Call) and isinstance(c.func, ast.Attribute) and c.func.attr == 'acceptable_offers'
            assert self.is_req_attr(c.func.value, 'accept_encoding') and len(c.args) == 1 and not c.keywords
            lc = c.args[0]
            assert isinstance(lc, ast.ListComp)
            g2, = lc.generators
            assert isinstance(g2.target, ast.Tuple) and len(g2.target.elts) == 2 and len(g2.ifs) == 1
            enc = g2.target.elts[1].id
            assert u(lc.elt) == enc and u(g2.ifs[0]) == '%s is not None' % enc
            b, files = self.expr(g2.iter, env)
            assert not b and files.ty == FILES
        except (AssertionError, ValueError, AttributeError):
            raise Problem('set comprehension outside the table: %s' % u(node))
        return [], Val(A('acc_offers', K('rq'), files.term), ACC)


# ------------------------------------------------------------------ module-level checks
class Module:
    def __init__(self, src_root, rel='pyramid/static.py', cls='static_view', strict_class=True):
        self.path = os.path.join(src_root, rel)
        with open(self.path) as f:
            self.tree = ast.parse(f.read())
        self.imports = {}
        self.plain_imports = {}
        self.defs = {}
        self.assigned = {}
        for n in self.tree.body:
            if isinstance(n, ast.ImportFrom):
                for a in n.names:
                    self.imports[a.asname or a.name] = (n.module, a.name)
            elif isinstance(n, ast.Import):
                for a in n.names:
                    nm = a.asname or a.name.split('.')[0]
                    self.plain_imports[nm] = self.plain_imports.get(nm, []) + [a.name]
            elif isinstance(n, (ast.FunctionDef, ast.ClassDef)):
                self.defs[n.name] = self.defs.get(n.name, 0) + 1
            elif isinstance(n, ast.Assign):
                for t in n.targets:
                    if isinstance(t, ast.Name):
                        self.assigned[t.id] = self.assigned.get(t.id, 0) + 1
        self.methods = {}
        self.translated = {s['qual'].split('.')[-1] for s in FUNCS}
        if cls is None:
            return
        self.cls = next((n for n in self.tree.body if isinstance(n, ast.ClassDef) and n.name == cls), None)
        if self.cls is None or (strict_class and (self.cls.bases or self.cls.decorator_list or self.cls.keywords)):
            raise Problem('class %s not found / has bases or decorators' % cls)
        for n in self.cls.body:
            if isinstance(n, ast.FunctionDef):
                if n.name in self.methods:
                    raise Problem('method %s defined twice' % n.name)
                self.methods[n.name] = n
        self.translated = {s['qual'].split('.')[-1] for s in FUNCS}

    def find(self, qual):
        if '.' in qual:
            m = self.methods.get(qual.split('.', 1)[1])
            if m is None:
                raise Problem('%s not found' % qual)
            return m
        fs = [n for n in self.tree.body if isinstance(n, ast.FunctionDef) and n.name == qual]
        if len(fs) != 1:
            raise Problem('%s: %d definitions' % (qual, len(fs)))
        return fs[0]

    def check_global(self, name, module):
        """name must be bound exactly once at module level, by `from <module> import name` (module None: a local def)"""
        n = (1 if name in self.imports else 0) + self.defs.get(name, 0) + self.assigned.get(name, 0)
        if n != 1:
            raise Problem('global %s is bound %d times at module level' % (name, n))
        if module is None:
            if self.defs.get(name) != 1:
                raise Problem('%s is not a module-level def' % name)
        elif self.imports.get(name) != (module, name):
            raise Problem('%s is not imported from %s (found %r)' % (name, module, self.imports.get(name)))

    def check_plain_import(self, name):
        """name must be bound exactly once at module level, by `import name`"""
        if self.plain_imports.get(name) != [name] or name in self.imports or name in self.defs or name in self.assigned:
            raise Problem('%s is not bound exactly once by `import %s`' % (name, name))

    def check_translated(self, name):
        if self.defs.get(name) != 1 or name in self.imports or name in self.assigned:
            raise Problem('%s is not bound exactly once by a def' % name)

    def check_fact_binding(self, name):
        if self.assigned.get(name) != 1 or name in self.imports or name in self.defs:
            raise Problem('%s is not bound exactly once by a module-level assignment (its value is a regenerated fact)' % name)

    def check_init_binding(self, attr):
        """self.<attr> must be assigned exactly once in the class, inside __init__ (which stays shape-pinned)"""
        cnt, in_init = 0, 0
        for m in self.methods.values():
            for n in ast.walk(m):
                tgs = n.targets if isinstance(n, ast.Assign) else [n.target] if isinstance(n, (ast.AugAssign, ast.AnnAssign)) else []
                for t in tgs:
                    if isinstance(t, ast.Attribute) and t.attr == attr and isinstance(t.value, ast.Name):
                        cnt += 1
                        in_init += m.name == '__init__'
        if cnt != 1 or in_init != 1:
            raise Problem('self.%s is assigned %d times (%d in __init__)' % (attr, cnt, in_init))


HEADER = '''(* GENERATED by harness/c16/translate.py from %s on every run -- do not edit.
   Control flow translated mechanically, leaves through the primitive table (see that file). *)
From Coq Require Import List NArith ZArith Bool.
Import ListNotations.
Require Import Verif.Lib.Wire Verif.Lib.Text Verif.Lib.PathNorm Verif.Lib.C16Posix
               Verif.Gen.Facts_C16 Verif.Model.C16 Verif.Model.C16_prims.
Open Scope N_scope.

'''


def translate(src_root):
    """-> (coq text, problems).  On a problem the stored translation of the reference text is emitted for that function."""
    problems = []
    try:
        with open(FALLBACK) as f:
            fallback = json.load(f)
    except (OSError, ValueError):
        fallback = {}
    out = {}
    mods = {}
    for rel, cls in (('pyramid/static.py', 'static_view'), ('pyramid/traversal.py', None), ('pyramid/asset.py', None),
                     ('pyramid/config/__init__.py', 'Configurator'), ('pyramid/config/views.py', 'StaticURLInfo')):
        try:
            mods[rel] = Module(src_root, rel, cls, strict_class=(rel == 'pyramid/static.py'))
        except (Problem, OSError, SyntaxError) as e:
            problems.append('translator: %s: %s' % (rel, e))
            mods[rel] = None
    for spec in FUNCS:
        try:
            mod = mods[spec.get('file', 'pyramid/static.py')]
            if mod is None:
                raise Problem('module not readable')
            out[spec['gen']] = Fn(mod.find(spec['qual']), spec, mod).translate()
        except Problem as e:
            problems.append('translator: %s: %s -- the generated-equals-model tie is broken; the stored translation of '
                            'the reference text is used' % (spec['qual'], e))
            out[spec['gen']] = fallback.get(spec['gen'], '(* no fallback for %s *)\n' % spec['gen'])
    text = HEADER % os.path.join(src_root, 'pyramid/static.py') + '\n'.join(out[s['gen']] for s in FUNCS)
    return text, problems, out


if __name__ == '__main__':
    import sys
    text, problems, out = translate(sys.argv[1])
    if '--write-fallback' in sys.argv:
        if problems:
            print('\n'.join(problems))
            sys.exit(1)
        with open(FALLBACK, 'w') as f:
            json.dump(out, f, indent=1)
    print(text)
    print('\n'.join(problems), file=sys.stderr)
