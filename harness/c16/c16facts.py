"""Facts extractor of C16: constants of static.py / traversal.py / urldispatch.py / config/views.py
re-read with the ast module on every run (fail closed: an unexpected shape is a problem, the default
is emitted only so that the Coq file still type-checks)."""
import ast
import hashlib
import json
import os

from harness.common import facts as F

HERE = os.path.dirname(os.path.abspath(__file__))

DEFAULTS = {
    'insecure_elements': ['', '.', '..'],
    'invalid_element_chars': [0, 47, 47],
    'secure_join_sep': '/',
    'pkg_rstrip': '/',
    'pkg_fmt_sep': '/',
    'url_dir_suffix': '/',
    'redirect_append': '/',
    'redirect_qs_sep': '?',
    'default_index': 'index.html',
    'route_remainder_dotall': True,
    'route_anchor_abs': True,
    'static_route_star': 'subpath',
    'static_use_subpath': True,
    'traverser_subpath_key': 'subpath',
    'spi_strip': '/',
    'spi_split': '/',
    'spi_skip': '.',
    'spi_pop': '..',
    'view_decodes_again': False,
    'filemap_per_instance': True,
    'traverser_str_decodes_again': False,
    'traverser_view_selector': '@@',
}

REMAINDERS = {'(?P<%s>.*?)': False, '(?P<%s>(?s:.*?))': True}
ANCHORS = {'$': False, '\\Z': True}


def _consts(node):
    return [n.value for n in ast.walk(node) if isinstance(n, ast.Constant) and isinstance(n.value, str)]


def _calls(node, attr):
    for n in ast.walk(node):
        if isinstance(n, ast.Call) and isinstance(n.func, ast.Attribute) and n.func.attr == attr:
            yield n


def _one(values, what):
    vs = set(values)
    if len(vs) != 1:
        raise ValueError('%s: expected exactly one value, found %r' % (what, sorted(map(repr, vs))))
    return vs.pop()


def _str1(v, what):
    if not isinstance(v, str) or len(v) != 1:
        raise ValueError('%s is not a one-character string: %r' % (what, v))
    return v


def masked_shape(node, masked, names=()):
    """Shape hash of a function with the listed string constants / global names blanked (they are value facts)."""
    node = F.strip_doc(node)
    for n in ast.walk(node):
        if isinstance(n, ast.Constant) and isinstance(n.value, str) and n.value in masked:
            n.value = '<FACT>'
        if isinstance(n, ast.Name) and n.id in names:
            n.id = '<FACT>'
    return hashlib.sha1(ast.dump(node).encode()).hexdigest()[:16]


def blind_shape(node):
    """Shape hash with the names of locals blanked (parameters, assigned names, loop / comprehension / except
    targets are numbered in order of first occurrence), so that a renaming is not reported while any other edit is."""
    node = F.strip_doc(node)
    local = set()
    for n in ast.walk(node):
        if isinstance(n, ast.arg):
            local.add(n.arg)
        elif isinstance(n, ast.Name) and isinstance(n.ctx, (ast.Store, ast.Del)):
            local.add(n.id)
        elif isinstance(n, ast.ExceptHandler) and n.name:
            local.add(n.name)
    order = {}
    for n in ast.walk(node):
        nm = n.arg if isinstance(n, ast.arg) else n.id if isinstance(n, ast.Name) else \
            n.name if isinstance(n, ast.ExceptHandler) else None
        if nm in local and nm not in order:
            order[nm] = 'L%d' % len(order)
    for n in ast.walk(node):
        if isinstance(n, ast.arg) and n.arg in order:
            n.arg = order[n.arg]
        elif isinstance(n, ast.Name) and n.id in order:
            n.id = order[n.id]
        elif isinstance(n, ast.ExceptHandler) and n.name in order:
            n.name = order[n.name]
    return hashlib.sha1(ast.dump(node).encode()).hexdigest()[:16]


def check_blind(src_root, pins_file, problems):
    with open(pins_file) as f:
        pins = json.load(f)
    summary = {}
    for rel, quals in pins.items():
        try:
            m = F.Module(src_root, rel)
        except (OSError, SyntaxError) as e:
            problems.append('cannot parse %s: %s' % (rel, e))
            continue
        for q, want in quals.items():
            node = m.find(q)
            got = blind_shape(node) if node is not None else 'missing'
            summary['%s:%s[blind]' % (rel, q)] = got
            if got != want:
                problems.append('shape pin (local names blanked) %s:%s changed (%s -> %s): the hand-written model relies on '
                                'the previous text of this function' % (rel, q, want, got))
    return summary


def block_size(src_root, problems):
    """response._BLOCK_SIZE (the read size of FileIter) must be a positive integer constant: the model delivers the
    whole file whatever the block size, which needs blocks of at least one byte."""
    def ev(n):
        if isinstance(n, ast.Constant) and isinstance(n.value, int) and not isinstance(n.value, bool):
            return n.value
        if isinstance(n, ast.BinOp) and isinstance(n.op, (ast.Mult, ast.Add)):
            a, b = ev(n.left), ev(n.right)
            return a * b if isinstance(n.op, ast.Mult) else a + b
        raise ValueError(ast.dump(n))
    try:
        v = ev(F.Module(src_root, 'pyramid/response.py').const_expr('_BLOCK_SIZE'))
        if v <= 0:
            raise ValueError('not positive: %d' % v)
        return v
    except Exception as e:
        problems.append('fact response._BLOCK_SIZE unrecognised: %s' % e)
        return None


def tail_shape(node, n):
    """Shape hash of a function with its first n statements dropped (they are translated, the rest is followed by hand)."""
    node = F.strip_doc(node)
    fn = node.body[0]
    fn.body = fn.body[n:] or [ast.Pass()]
    return hashlib.sha1(ast.dump(node).encode()).hexdigest()[:16]


def check_tail(src_root, pins_file, n_by_qual, problems):
    with open(pins_file) as f:
        pins = json.load(f)
    summary = {}
    for rel, quals in pins.items():
        try:
            m = F.Module(src_root, rel)
        except (OSError, SyntaxError) as e:
            problems.append('cannot parse %s: %s' % (rel, e))
            continue
        for q, want in quals.items():
            node = m.find(q)
            got = tail_shape(node, n_by_qual[q]) if node is not None else 'missing'
            summary['%s:%s[tail]' % (rel, q)] = got
            if got != want:
                problems.append('shape pin (translated first statements dropped) %s:%s changed (%s -> %s): the hand-written '
                                'model relies on the previous text' % (rel, q, want, got))
    return summary


def compute_blind(src_root, spec):
    return {rel: {q: blind_shape(F.Module(src_root, rel).find(q)) for q in quals} for rel, quals in spec.items()}


SPLITTERS = {'traversal_path_info': True, 'split_path_info': False}   # does it decode (again)?


def extract(src, problems):
    vals = dict(DEFAULTS)

    def attempt(name, fn):
        try:
            fn()
        except Exception as e:  # fail closed
            problems.append('fact %s unrecognised: %s: %s' % (name, type(e).__name__, e))

    # ---------------- static.py
    try:
        st = F.Module(src, 'pyramid/static.py')
    except Exception as e:
        problems.append('cannot parse pyramid/static.py: %r' % e)
        st = None

    def f_invalid():
        expr = st.const_expr('_invalid_element_chars')
        if not isinstance(expr, ast.Set):
            raise ValueError('not a set display')
        out = []
        for e in expr.elts:
            if isinstance(e, ast.Constant) and isinstance(e.value, str) and len(e.value) == 1:
                out.append(ord(e.value))
            elif isinstance(e, ast.Attribute) and isinstance(e.value, ast.Name) and e.value.id == 'os' and e.attr == 'sep':
                out.append(47)        # POSIX: os.sep == '/'
            else:
                raise ValueError('unexpected element %s' % ast.dump(e))
        vals['invalid_element_chars'] = sorted(out)

    def f_insecure():
        expr = st.const_expr('_has_insecure_pathelement')
        if not (isinstance(expr, ast.Attribute) and expr.attr == 'intersection' and isinstance(expr.value, ast.Set)):
            raise ValueError('not {..}.intersection')
        out = []
        for e in expr.value.elts:
            if not (isinstance(e, ast.Constant) and isinstance(e.value, str)):
                raise ValueError('unexpected element %s' % ast.dump(e))
            out.append(e.value)
        vals['insecure_elements'] = sorted(out)

    def f_secure():
        fn = st.find('_secure_path')
        joins = [c.func.value.value for c in _calls(fn, 'join')
                 if isinstance(c.func.value, ast.Constant) and isinstance(c.func.value.value, str)]
        vals['secure_join_sep'] = _one(joins, "'<sep>'.join in _secure_path")

    def f_resource_name():
        fn = st.find('static_view.get_resource_name')
        fmts = [c for c in _calls(fn, 'format') if isinstance(c.func.value, ast.Constant)]
        if len(fmts) != 2:
            raise ValueError('expected two str.format calls, found %d' % len(fmts))
        fmt = _one([c.func.value.value for c in fmts], 'format string')
        if fmt.count('{}') != 2 or not fmt.startswith('{}') or not fmt.endswith('{}'):
            raise ValueError('format string %r' % fmt)
        vals['pkg_fmt_sep'] = fmt[2:-2]
        rs = [c.args[0].value for c in _calls(fn, 'rstrip') if len(c.args) == 1 and isinstance(c.args[0], ast.Constant)]
        if len(rs) != 2:
            raise ValueError('expected two rstrip calls')
        vals['pkg_rstrip'] = _str1(_one(rs, 'rstrip argument'), 'rstrip argument')
        es = [c.args[0].value for c in _calls(fn, 'endswith') if len(c.args) == 1 and isinstance(c.args[0], ast.Constant)]
        if len(es) != 2:
            raise ValueError('expected two endswith calls')
        vals['url_dir_suffix'] = _one(es, 'endswith argument')

    def f_redirect():
        fn = st.find('static_view.add_slash_redirect')
        cs = _consts(fn)
        if len(cs) != 2:
            raise ValueError('expected two string constants, found %r' % cs)
        vals['redirect_append'], vals['redirect_qs_sep'] = cs

    def f_index():
        fn = st.find('static_view.__init__')
        names = [a.arg for a in fn.args.args]
        d = dict(zip(names[len(names) - len(fn.args.defaults):], fn.args.defaults))
        v = ast.literal_eval(d['index'])
        if not isinstance(v, str):
            raise ValueError('index default %r' % (v,))
        vals['default_index'] = v

    def f_view_split():
        fn = st.find('static_view.get_resource_name')
        callers = [c.func.id for c in ast.walk(fn) if isinstance(c, ast.Call) and isinstance(c.func, ast.Name)
                   and len(c.args) == 1 and isinstance(c.args[0], ast.Attribute) and c.args[0].attr == 'path_info'
                   and isinstance(c.args[0].value, ast.Name) and c.args[0].value.id == 'request']
        name = _one(callers, 'function applied to request.path_info')
        imported = [a.name for n in st.tree.body if isinstance(n, ast.ImportFrom) and n.module == 'pyramid.traversal'
                    for a in n.names if (a.asname or a.name) == name]
        if imported != [name]:
            raise ValueError('%s is not imported from pyramid.traversal' % name)
        vals['view_decodes_again'] = SPLITTERS[name]

    def f_filemap():
        # the filemap must be per-instance state created in __init__: `self.filemap = {}`
        cls = st.find('static_view')
        init = st.find('static_view.__init__')
        assigns = [n for n in ast.walk(cls) if isinstance(n, (ast.Assign, ast.AugAssign, ast.AnnAssign))
                   for t in (n.targets if isinstance(n, ast.Assign) else [n.target])
                   if isinstance(t, ast.Attribute) and t.attr == 'filemap']
        in_init = [n for n in ast.walk(init) if n in assigns]
        if len(assigns) != 1 or len(in_init) != 1:
            raise ValueError('expected exactly one assignment to .filemap, inside __init__ (found %d, %d in __init__)'
                             % (len(assigns), len(in_init)))
        a = assigns[0]
        if not (isinstance(a, ast.Assign) and isinstance(a.value, ast.Dict) and not a.value.keys
                and isinstance(a.targets[0].value, ast.Name) and a.targets[0].value.id == 'self'):
            raise ValueError('self.filemap is not bound to a fresh {}: %s' % ast.unparse(a))
        # class-level attributes of static_view must not be mutable containers
        for n in cls.body:
            if isinstance(n, (ast.Assign, ast.AnnAssign)):
                raise ValueError('class-level attribute on static_view: %s' % ast.unparse(n))
        # no module-level mutable state may be touched by static_view
        mutable = set()
        for n in st.tree.body:
            if isinstance(n, (ast.Assign, ast.AnnAssign)):
                v = n.value
                tg = n.targets if isinstance(n, ast.Assign) else [n.target]
                if isinstance(v, (ast.Dict, ast.List, ast.Set, ast.ListComp, ast.DictComp, ast.SetComp, ast.Call)):
                    mutable |= {t.id for t in tg if isinstance(t, ast.Name)}
        used = {n.id for n in ast.walk(cls) if isinstance(n, ast.Name)} | \
               {g for n in ast.walk(cls) if isinstance(n, (ast.Global, ast.Nonlocal)) for g in n.names}
        shared = sorted(mutable & used)
        if shared:
            raise ValueError('static_view uses module-level mutable state: %s' % ', '.join(shared))
        vals['filemap_per_instance'] = True

    shapes = {}
    if st is not None:
        attempt('filemap is per-instance state', f_filemap)
        attempt('function applied to request.path_info', f_view_split)
        attempt('_invalid_element_chars', f_invalid)
        attempt('_has_insecure_pathelement', f_insecure)
        attempt('_secure_path join', f_secure)
        attempt('get_resource_name literals', f_resource_name)
        attempt('add_slash_redirect literals', f_redirect)
        attempt('index default', f_index)

    # ---------------- urldispatch.py

    def f_route():
        ud = F.Module(src, 'pyramid/urldispatch.py')
        fn = ud.find('_compile_route')
        cs = _consts(fn)
        rem = [c for c in cs if c.startswith('(?P<%s>')]
        vals['route_remainder_dotall'] = REMAINDERS[_one(rem, 'remainder fragment')]
        anchors = []
        for n in ast.walk(fn):
            if isinstance(n, ast.Assign) and len(n.targets) == 1 and isinstance(n.targets[0], ast.Name) \
                    and n.targets[0].id == 'pattern' and isinstance(n.value, ast.BinOp) \
                    and isinstance(n.value.op, ast.Add) and isinstance(n.value.right, ast.Constant):
                anchors.append(n.value.right.value)
        vals['route_anchor_abs'] = ANCHORS[_one(anchors, 'anchor')]
        shapes['pyramid/urldispatch.py:_compile_route[masked]'] = masked_shape(fn, set(REMAINDERS) | set(ANCHORS))

    attempt('_compile_route remainder/anchor', f_route)

    # ---------------- config/views.py
    def f_static_add():
        vw = F.Module(src, 'pyramid/config/views.py')
        fn = vw.find('StaticURLInfo.add')
        pats = [c for c in _consts(fn) if '*' in c]
        pat = _one(pats, 'route pattern')
        if not pat.startswith('%s*'):
            raise ValueError('pattern %r' % pat)
        vals['static_route_star'] = pat[3:]
        kws = [k.value.value for c in ast.walk(fn) if isinstance(c, ast.Call) and isinstance(c.func, ast.Name)
               and c.func.id == 'static_view' for k in c.keywords
               if k.arg == 'use_subpath' and isinstance(k.value, ast.Constant)]
        v = _one(kws, 'use_subpath keyword')
        if not isinstance(v, bool):
            raise ValueError('use_subpath=%r' % (v,))
        vals['static_use_subpath'] = v

    attempt('StaticURLInfo.add', f_static_add)

    # ---------------- traversal.py
    def f_traversal():
        tr = F.Module(src, 'pyramid/traversal.py')
        fn = tr.find('split_path_info')
        vals['spi_strip'] = _str1(_one([c.args[0].value for c in _calls(fn, 'strip')], 'strip'), 'strip')
        vals['spi_split'] = _str1(_one([c.args[0].value for c in _calls(fn, 'split')], 'split'), 'split')
        # the two `segment == <const>` tests: the one whose branch deletes the last clean element is the "pop" segment,
        # the other the "skip" segment (independent of the order in which the tests are written)
        def eq_consts(node):
            return [n.comparators[0].value for n in ast.walk(node) if isinstance(n, ast.Compare)
                    and len(n.ops) == 1 and isinstance(n.ops[0], ast.Eq) and isinstance(n.comparators[0], ast.Constant)]
        cmps = eq_consts(fn)
        if len(cmps) != 2:
            raise ValueError('expected two == comparisons, found %r' % cmps)
        pops = []
        for n in ast.walk(fn):
            if isinstance(n, ast.If) and any(isinstance(d, ast.Delete) for b in n.body for d in ast.walk(b)):
                pops += eq_consts(n.test)
        if len(pops) != 1:
            raise ValueError('expected one == test guarding a del, found %r' % pops)
        skips = [c for c in cmps if c != pops[0]]
        if len(skips) != 1:
            raise ValueError('skip segment not identified: %r' % cmps)
        vals['spi_skip'], vals['spi_pop'] = skips[0], pops[0]
        call = tr.find('ResourceTreeTraverser.__call__')
        keys = [c.args[0].value for c in _calls(call, 'get')
                if isinstance(c.func.value, ast.Name) and c.func.value.id == 'matchdict'
                and len(c.args) == 2 and isinstance(c.args[0], ast.Constant)
                and isinstance(c.args[1], ast.Tuple) and not c.args[1].elts]
        vals['traverser_subpath_key'] = _one(keys, "matchdict.get(<key>, ())")
        # the branch for a '{subpath}' placeholder (a str in the matchdict): `if not is_nonstr_iter(subpath):
        # subpath = <splitter>(subpath)` -- which splitter is a value fact (does it decode the routed text again?)
        key = vals['traverser_subpath_key']
        branches = []
        for n in ast.walk(call):
            if isinstance(n, ast.If) and isinstance(n.test, ast.UnaryOp) and isinstance(n.test.op, ast.Not) \
                    and isinstance(n.test.operand, ast.Call) and isinstance(n.test.operand.func, ast.Name) \
                    and n.test.operand.func.id == 'is_nonstr_iter' and len(n.test.operand.args) == 1 \
                    and isinstance(n.test.operand.args[0], ast.Name) and n.test.operand.args[0].id == key:
                branches.append(n)
        if len(branches) != 1:
            raise ValueError('expected one `if not is_nonstr_iter(%s)` in ResourceTreeTraverser.__call__, found %d'
                             % (key, len(branches)))
        br = branches[0]
        if br.orelse or len(br.body) != 1:
            raise ValueError('the str-%s branch is not a single statement' % key)
        st_ = br.body[0]
        if not (isinstance(st_, ast.Assign) and len(st_.targets) == 1 and isinstance(st_.targets[0], ast.Name)
                and st_.targets[0].id == key and isinstance(st_.value, ast.Call) and isinstance(st_.value.func, ast.Name)
                and len(st_.value.args) == 1 and not st_.value.keywords and isinstance(st_.value.args[0], ast.Name)
                and st_.value.args[0].id == key):
            raise ValueError('the str-%s branch is not `%s = f(%s)`: %s' % (key, key, key, ast.unparse(st_)))
        splitter = st_.value.func.id
        defs = [n for n in tr.tree.body if isinstance(n, (ast.FunctionDef, ast.Assign, ast.ImportFrom, ast.Import, ast.ClassDef))
                and splitter in ([n.name] if isinstance(n, (ast.FunctionDef, ast.ClassDef)) else
                                 [a.asname or a.name for a in n.names] if isinstance(n, (ast.ImportFrom, ast.Import)) else
                                 [t.id for t in n.targets if isinstance(t, ast.Name)])]
        if len(defs) != 1 or not isinstance(defs[0], ast.FunctionDef):
            raise ValueError('%s is not bound exactly once, by a def of traversal.py' % splitter)
        vals['traverser_str_decodes_again'] = SPLITTERS[splitter]
        # blind pin of the whole function with the splitter name of that branch masked
        import copy
        masked = copy.deepcopy(call)
        for n in ast.walk(masked):
            if isinstance(n, ast.If) and ast.dump(n) == ast.dump(br):
                n.body[0].value.func.id = 'FACT_SPLITTER'
        shapes['pyramid/traversal.py:ResourceTreeTraverser.__call__[blind,masked]'] = blind_shape(masked)
        # class attribute VIEW_SELECTOR: a two-character string constant (the code compares segment[:2] with it)
        cls = tr.find('ResourceTreeTraverser')
        sel = [n.value for n in cls.body if isinstance(n, ast.Assign) and len(n.targets) == 1
               and isinstance(n.targets[0], ast.Name) and n.targets[0].id == 'VIEW_SELECTOR']
        if len(sel) != 1 or not (isinstance(sel[0], ast.Constant) and isinstance(sel[0].value, str) and len(sel[0].value) == 2):
            raise ValueError('ResourceTreeTraverser.VIEW_SELECTOR is not one two-character string constant')
        vals['traverser_view_selector'] = sel[0].value
        # ... and the class body holds nothing but the two key constants and the two methods
        kinds = [(type(n).__name__, getattr(n, 'name', None) or (n.targets[0].id if isinstance(n, ast.Assign) and
                  isinstance(n.targets[0], ast.Name) else None)) for n in F.strip_doc(cls).body[0].body]
        want = [('Assign', 'VH_ROOT_KEY'), ('Assign', 'VIEW_SELECTOR'), ('FunctionDef', '__init__'), ('FunctionDef', '__call__')]
        if [k for k in kinds if k != ('Pass', None)] != want:
            raise ValueError('unexpected class body of ResourceTreeTraverser: %r' % (kinds,))

    attempt('traversal literals', f_traversal)
    return vals, shapes


def coq(vals):
    out = [F.HEADER]
    for k in sorted(vals):
        v = vals[k]
        if isinstance(v, bool):
            out.append('Definition %s : bool := %s.\n' % (k, F.coq_bool(v)))
        elif isinstance(v, str):
            out.append('Definition %s : text := %s.\n' % (k, F.coq_text(v)))
        elif k == 'invalid_element_chars':
            out.append('Definition %s : list N := [%s]%%N.\n' % (k, '; '.join(str(i) for i in v)))
        else:
            out.append('Definition %s : list text := %s.\n' % (k, F.coq_texts(v)))
    return ''.join(out)
