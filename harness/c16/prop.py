"""C16 -- static views serve only files inside their root directory."""
import builtins
import io
import os
import shutil
import sys

from harness.common import facts as F
from harness.common import build as B
from . import c16facts

ID = 'C16'
HERE = os.path.dirname(os.path.abspath(__file__))
CASES = {'quick': 8000, 'thorough': 200000}
PARALLEL = True
RULE = ('request paths assembled from traversal-significant pieces (.., ., %2e%2e, %2f, \\, %5c, %00, //, absolute '
        'paths, overlong UTF-8, double encoding, names of files outside the root) mixed with names inside the root, '
        'Unicode look-alikes of . .. / \\ and of existing names (computed from unicodedata: every character some normal form '
        'maps onto them, ignorable characters, fullwidth / other-case names), raw / percent-encoded once / twice, x 7 mountings (add_static_view route, catch-all *subpath route, plain '
        'view on PATH_INFO, plain view with a given request.subpath, a route with a {subpath:.*} placeholder whose matched STRING the traverser splits, '
        'a view named "static" found by traversal -- also as /@@static/.. and below an X-VHM-ROOT virtual root (the header also on the route mountings) --, a route with a default '
        '{subpath} placeholder = one piece without "/") x filesystem and package-relative roots x optional SCRIPT_NAME x '
        'Accept-Encoding values x content_encodings (package roots given as pkg:dir, as a relative dir with package_name=, and as a '
        'relative dir resolved against the package of the module that creates the view / the Configurator, also when that code is '
        'include()d by an application of another package), plus all 6^4 combinations of six core pieces; non-trivial = the '
        'static view itself was reached and either answered 200/301 or the path contains a traversal-significant '
        'piece; distinct by full case.  In addition exhaustive UTF-8 blocks (Lib/Utf8.decode vs traversal.decode_path_info)')
ASSUMPTIONS = [
    'POSIX: os.sep is "/", normcase is the identity; no symbolic links inside or above the root',
    'the WSGI server percent-decodes the request path once (urllib.parse.unquote_to_bytes), as PEP 3333 servers do',
    'index= and the configured root are plain names / an absolute path; mimetypes extensions contain no "/"',
    'if the designated name (index, encoded variant) is itself a directory the property is taken to say nothing '
    '(the implementation raises IsADirectoryError)',
    'identity is always an acceptable encoding (identity;q=0 is still served identity)',
    'no conditional request headers (If-*, Range); asset overrides not configured',
]
TRUSTED = [
    'harness/c16/translate.py: Python ast -> Gallina translator for ten functions of static.py (the seven core functions, '
    'add_slash_redirect, _compile_content_encodings, __init__ as a record of its attribute stores), traversal.split_path_info, '
    'asset.resolve_asset_spec, Configurator._make_spec and the spec-normalising first statements of StaticURLInfo.add; control-flow '
    'rules + primitive table, fail closed; stored fallback translation gen_fallback.json when it refuses)',
    'hand-written reference model coq/Model/C16.v (the generated program is proved equal to it); for what is not translated '
    '-- FileResponse, traversal_path_info/decode_path_info, the *subpath / {subpath:.*} / {subpath} route regex, '
    'the rest of StaticURLInfo.add (pinned with the translated statements dropped), '
    'ResourceTreeTraverser.__call__ (which splitter it applies to a str subpath and the @@ view selector are regenerated '
    'facts; the rest is a masked pin), _add_vary -- it is tied by shape pins and regenerated constants',
    'which package creates the view (caller_package(): a stack-depth lookup) is an input of the model stated by the harness; '
    'the world has views and Configurators created by modules of other packages so that a mis-resolution is observed',
    'coq/Lib/C16Posix.v model of posixpath.join/normpath and of lexical path resolution by the OS; Lib/Utf8 (strict '
    'UTF-8), Lib/Percent (unquote, quote) -- validated by this correspondence run, not verified against CPython',
    'oracle inputs taken from the real libraries per case: directory listing (os.walk/os.stat), mimetypes.encodings_map, '
    'webob PATH_SAFE / host_url, request.accept_encoding (truthiness, acceptable_offers per encoding), '
    'pkg_resources module_path',
    'harness-side recording of os.stat / open calls (module attribute patching, no source hooks)',
]
TECHNIQUE = ('Coq proof on a hand-written Gallina reference model (path pipeline + abstract file system with an access '
             'trace); the core of static.py (_secure_path, _contains_invalid_element_char, static_view.get_resource_name / '
             'find_resource_path / get_possible_files / find_best_match / __call__ / add_slash_redirect / __init__, '
             '_compile_content_encodings, traversal.split_path_info) is re-translated from the source on every '
             'run by a fail-closed Python-ast -> Gallina translator (control flow mechanically, leaves through a primitive '
             'table) and proved equal to the model; regenerated constants; extracted-model differential correspondence on a '
             'real directory tree, including the exact sequence of os.stat/open calls')
LEVEL_TEXT = ('Machine-checked theorems for every request sequence, every mounting (seven: the four of round 1-4, a route with a '
              '{subpath:.*} or default {subpath} placeholder, a named view reached by traversal, also below a virtual root), both kinds of root, every file system, any '
              'number of view instances: _secure_path accepts exactly tuples of plain NUL-free names; every path handed to '
              'the file system is the root or lies component-wise beneath it; every response conforms to the declarative '
              'specification (designated file, index, add-slash redirect with its Location, 404, smallest acceptable variant '
              'labelled with its encoding); every 200 answer after ANY history of the instance is a smallest variant acceptable '
              'to the client of that request (C16_variant_acceptable_history); the filemap never changes an answer.  Configuration time: '
              'for every form of root_dir / path (absolute, pkg:dir, relative to package_name= or to the creating package) and both ways of '
              'creating the view, the root of the instance the code builds is the designated directory, and containment / conformance hold '
              'against it (C16_configured_root, C16_containment_configured, C16_serves_designated_configured), also end to end for the '
              'regenerated program: written configuration -> gen_init -> gen_call (C16_gen_end_to_end_contained / _conform / _variant); with an '
              'X-VHM-ROOT header starting with the bare selector @@ the specification is silent but every access stays inside the root '
              '(C16_vroot_override_contained).  Ten functions of static.py and traversal.split_path_info are '
              'translated from the current source on every run and proved equal to the reference model (C16_gen_*_is_model), '
              'and the property theorems are restated about the regenerated program (C16_gen_call_contained / _conform / '
              '_transparent, C16_gen_secure_path_spec).  The remaining tie is regenerated constants, shape pins of the '
              'functions that are not translated, and a differential run against the real view on a real directory tree '
              'with sentinel files outside the root (responses and the exact os.stat/open trace); Lib/Utf8 is compared with '
              'CPython on all 2-byte, (nearly) all 3-byte and structured 4-byte sequences.')
LEVEL_NOTE = ('Trusted: Coq kernel; the translator (harness/c16/translate.py: its control-flow rules and its primitive table of '
              'about 40 entries, each a claim about Python / os.path / pkg_resources / WebOb / Pyramid semantics); the '
              'hand-written model of what is not translated (router, traverser incl. its X-VHM-ROOT handling, FileResponse, '
              'the registration part of StaticURLInfo.add, _add_vary -- shape-pinned); posixpath/UTF-8/percent models; Python harness and '
              'oracles.  Which function static_view applies to request.path_info, which function the traverser applies to a '
              '{subpath} string, the view selector, the route remainder regex and the per-instance filemap are regenerated '
              'facts; C16_facts_ok / C16_traverser_facts_ok / C16_filemap_per_instance require the repaired values.')
ALLOWED_AXIOMS = ()

BASE = os.path.join(B.BUILD, 'C16', 'world')
PKG = 'c16pkg'
PKGB = 'c16pkgb'
SENT = 'SENT'

# ------------------------------------------------------------------ the directory tree
# relative name -> size (content is a unique tag padded to that size); None = directory
ROOT_FILES = {
    'index.html': 5, 'file.txt': 9, 'file.txt.gz': 5, 'file.txt.br': 7,
    'big.css': 4, 'big.css.gz': 8,
    'same.js': 6, 'same.js.gz': 6, 'same.js.br': 6,
    'only.txt.gz': 5,
    'a b.txt': 5, 'é.txt': 5, 'Ã©.txt': 6, '€.txt': 5, 'back\\slash.txt': 5,
    '...': 5, '..a': 5, '%2e%2e': 5, 'nl\n': 5,
    'sub': None, 'sub/index.html': 5, 'sub/x.css': 7, 'sub/x.css.gz': 5, 'sub/x.css.Z': 4,
    'sub/deep': None, 'sub/deep/z.js': 5,
    'noindex': None, 'noindex/only.txt': 5,
    'dirindex': None, 'dirindex/index.html': None, 'dirindex/index.html/inner.txt': 5,
    'vardir.txt': 6, 'vardir.txt.gz': None,
    'home.htm': 5, 'sub/home.htm': 6,
    'docs.v1': None, 'docs.v1/index.html': 6, 'docs.v1/a.txt': 4, 'docs.v1/img.d': None, 'docs.v1/img.d/x.png': 3,
}
OUTSIDE = {
    'sentinel.txt': 7, 'secret': None, 'secret/passwd': 7, 'root.gz': 6, 'index.html': 7, 'file.txt': 7,
    'rootfile': 6, 'rootfile.gz': 5, 'missing.gz': 5,
    PKG: None, PKG + '/__init__.py': 0, PKG + '/outside.txt': 7, PKG + '/static.gz': 6, PKG + '/index.html': 7,
}

# a second package with the SAME relative docroot 'static': some names shared with c16pkg (other content, other
# sizes), some only here, most of c16pkg's missing
PKGB_FILES = {'index.html': 6, 'file.txt': 4, 'file.txt.gz': 8, 'big.css': 9, 'only_b.txt': 5, 'sub': None,
              'sub/index.html': 7, 'sub/x.css': 3, 'same.js': 7, 'same.js.gz': 5}

# root key -> (is_package, spec handed to pyramid, package_name kw or None)
ROOTS = {
    'fs': (False, BASE + '/root', None),
    'fs-slash': (False, BASE + '/root/', None),
    'fs-dots': (False, BASE + '/./root//', None),
    'fs-up': (False, BASE + '/secret/../root', None),
    'fs-sub': (False, BASE + '/root/sub', None),
    'fs-missing': (False, BASE + '/missing', None),
    'fs-file': (False, BASE + '/rootfile', None),
    'pkg': (True, PKG + ':static', None),
    'pkg-slash': (True, PKG + ':static/', None),
    'pkg-sub': (True, PKG + ':static/sub', None),
    'pkg-rel': (True, 'static', PKG),
    'pkgb': (True, PKGB + ':static', None),
    'pkgb-rel': (True, 'static', PKGB),
    # a RELATIVE root_dir without ':' and without package_name: relative to the package of the CALLER.  The view / the
    # Configurator is created by a module of that package (world/<pkg>/factory.py), see CALLER
    'pkg-caller': (True, 'static', None),
    'pkgb-caller': (True, 'static', None),
    'pkg-caller-sub': (True, 'static/sub', None),
    'pkg-caller-scripts': (True, 'scripts', None),        # a name that also exists inside the pyramid package
}
CALLER = {'pkg-caller': PKG, 'pkgb-caller': PKGB, 'pkg-caller-sub': PKG, 'pkg-caller-scripts': PKG}
# a relative path registered by INCLUDED code: the top-level Configurator belongs to one package (INCLUDER), the includeme
# function that calls add_static_view / creates the view to another (CALLER): the path is relative to the package of the
# code that registers it (config.package inside include()), not to the application's root package.  Both packages have a
# 'static' directory with different content.  These roots are NOT part of the random stream (appended stream + targeted)
ROOTS['pkgb-included'] = (True, 'static', None)
ROOTS['pkga-included'] = (True, 'static', None)
CALLER['pkgb-included'] = PKGB
CALLER['pkga-included'] = PKG
INCLUDER = {'pkgb-included': PKG, 'pkga-included': PKGB}
FACTORY = '''from pyramid.config import Configurator
from pyramid.static import static_view


def make_view(root_dir, **kw):
    return static_view(root_dir, **kw)


def make_config(**kw):
    return Configurator(**kw)


def make_includeme(name, path, **kw):
    def includeme(config):
        config.add_static_view(name=name, path=path, **kw)
    return includeme
'''
SCRIPTS_FILES = {'pserve.py': 9, 'common.py': 6, 'index.html': 5, 'notes.txt': 4}
MOUNTS = ['route', 'catchall', 'view', 'subpath', 'placeholder', 'traversal', 'segment']
ROUTED = ('route', 'catchall', 'placeholder', 'segment')          # mountings whose path goes through a compiled route regex
ENC_SETS = [[], ['gzip'], ['gzip', 'br'], ['br', 'gzip'], ['gzip', 'compress', 'bzip2', 'xz', 'br']]
AE_VALUES = [None, '', 'gzip', 'br', 'gzip, br', 'br, gzip;q=0.5', 'gzip;q=0', '*', '*;q=0', 'identity', 'identity;q=0',
             'identity;q=0, gzip', 'compress, gzip', 'deflate', 'gzip;;q=1', 'GZIP', 'x-gzip']

# SCRIPT_NAME values (WSGI: bytes-as-latin-1, not percent-encoded): request.path_url -- the add-slash redirect and the
# index-or-redirect decision -- is application_url + quoted PATH_INFO, while routing / traversal see PATH_INFO only
SCRIPTS = ['/app', '/app', '/a b', '/app/v1', '/static', '/\xc3\xa9', '/x%2fy']

_state = {}


def _content(tag, n, size):
    s = '%s%02d' % (tag, n)
    if size < len(s):
        return s[:size]
    return s + '.' * (size - len(s))


def _make_world():
    if os.path.isdir(BASE):
        shutil.rmtree(BASE)
    os.makedirs(BASE)
    n = [0]

    def put(base, rel, size, tag):
        p = os.path.join(base, rel)
        if size is None:
            os.makedirs(p, exist_ok=True)
            return
        os.makedirs(os.path.dirname(p), exist_ok=True)
        n[0] += 1
        with open(p, 'w', encoding='utf-8', newline='') as f:
            f.write(_content(tag, n[0], size) if not rel.endswith('__init__.py') else '')
    for rel in sorted(OUTSIDE):
        put(BASE, rel, OUTSIDE[rel], 'ROOT' if rel == 'rootfile' else SENT)
    for rel in sorted(ROOT_FILES):
        put(os.path.join(BASE, 'root'), rel, ROOT_FILES[rel], 'f')
    for rel in sorted(ROOT_FILES):
        put(os.path.join(BASE, PKG, 'static'), rel, ROOT_FILES[rel], 'p')
    put(BASE, PKGB + '/__init__.py', 0, '')
    for rel in sorted(PKGB_FILES):
        put(os.path.join(BASE, PKGB, 'static'), rel, PKGB_FILES[rel], 'q')
    for rel in sorted(SCRIPTS_FILES):
        put(os.path.join(BASE, PKG, 'scripts'), rel, SCRIPTS_FILES[rel], 's')
    for pkg in (PKG, PKGB):
        with open(os.path.join(BASE, pkg, 'factory.py'), 'w') as f:
            f.write(FACTORY)


def _listing():
    """[[components], kind, size, content] of everything below BASE, plus BASE's ancestors."""
    out = []
    comps = [c for c in BASE.split('/') if c]
    for i in range(1, len(comps) + 1):
        out.append([comps[:i], 2, os.path.getsize('/' + '/'.join(comps[:i])), ''])
    for d, ds, fs in os.walk(BASE):
        ds.sort()
        for x in sorted(ds):
            p = os.path.join(d, x)
            out.append([[c for c in p.split('/') if c], 2, os.path.getsize(p), ''])
        for x in sorted(fs):
            p = os.path.join(d, x)
            with open(p, 'rb') as f:
                body = f.read()
            out.append([[c for c in p.split('/') if c], 1, len(body), body.decode('latin-1')])
    return out


def setup(tier):
    if _state:
        return
    if os.path.realpath(BASE) != BASE:
        raise RuntimeError('symbolic link above the world directory')
    _make_world()
    if BASE not in sys.path:
        sys.path.insert(0, BASE)
    import warnings
    warnings.filterwarnings('ignore')
    import mimetypes
    mimetypes.guess_type('x.txt')            # initialise before tracing starts
    import pkg_resources
    import webob.request
    import pyramid.static
    import pyramid.traversal
    from pyramid.request import Request
    from pyramid.httpexceptions import HTTPException
    __import__(PKG)
    __import__(PKGB)
    _state.update(
        listing=_listing(),
        encmap=[[k, v] for k, v in mimetypes.encodings_map.items()],
        safe=webob.request.PATH_SAFE,
        modpath={k: pkg_resources.get_provider(k).module_path for k in (PKG, PKGB)},
        Request=Request, HTTPException=HTTPException,
        static_view=pyramid.static.static_view,
        secure=pyramid.static._secure_path,
        unquote=pyramid.traversal.unquote_bytes_to_wsgi,
        apps={}, ae={},
    )


# ------------------------------------------------------------------ facts
PIN_MASKED = {'pyramid/urldispatch.py:_compile_route[masked]': None}


def facts(src):
    problems = []
    summary = F.check_shapes(src, os.path.join(HERE, 'pins.json'), problems)
    vals, shapes = c16facts.extract(src, problems)
    import json
    with open(os.path.join(HERE, 'pins_masked.json')) as f:
        want = json.load(f)
    for k, w in want.items():
        got = shapes.get(k)
        summary[k] = got
        if got != w:
            problems.append('shape pin %s changed (%s -> %s): the hand-written model follows the previous text' % (k, w, got))
    # blind pins (locals blanked) in which, additionally, one name that is a value fact is masked
    with open(os.path.join(HERE, 'pins_blind_masked.json')) as f:
        for rel, quals in json.load(f).items():
            for q, w in quals.items():
                k = '%s:%s[blind,masked]' % (rel, q)
                got = shapes.get(k)
                summary[k] = got
                if got != w:
                    problems.append('shape pin (locals blanked, fact masked) %s changed (%s -> %s): the hand-written model '
                                    'follows the previous text' % (k, w, got))
    summary.update(c16facts.check_blind(src, os.path.join(HERE, 'pins_blind.json'), problems))
    # functions whose first statements are translated: the pin covers the rest
    summary.update(c16facts.check_tail(src, os.path.join(HERE, 'pins_tail.json'), {'StaticURLInfo.add': 2}, problems))
    summary['response._BLOCK_SIZE'] = c16facts.block_size(src, problems)
    summary.update({k: (v if not isinstance(v, list) else list(v)) for k, v in vals.items()})
    _state_facts.clear()
    _state_facts.update(vals)
    # the control flow of the core functions is re-translated from the source (harness/c16/translate.py) into a
    # second generated file; Proofs/C16_gen.v proves it equal to the hand-written model
    from . import translate
    gen_text, gen_problems, gen_defs = translate.translate(src)
    problems += gen_problems
    B.write_if_changed(os.path.join(B.COQ, 'Gen', 'Facts_C16_gen.v'), gen_text)
    summary['translated'] = sorted(gen_defs)
    summary['translator_problems'] = len(gen_problems)
    return {'coq': c16facts.coq(vals), 'summary': summary, 'problems': problems}


_state_facts = {}

# ------------------------------------------------------------------ generation
CORE6 = ['..', '%2e%2e', '%2f', '%5c', '%00', 'sentinel.txt']
SIGNIFICANT = ['..', '.', '%2e%2e', '%2E%2e', '%2e.', '%2f', '%2F', '\\', '%5c', '..\\', '..%5c', '%00', '', '',
               '%c0%ae%c0%ae', '%c0%af', '%e0%80%ae', '%c0%2e', '%252e%252e', '%252f', '%25%32%65', '%2e%2e%2f',
               '..%2f', '..%2f..%2fsentinel.txt', '%2e%2e%2fsentinel.txt', '..%00', '%00..', '...', '..a', '. ', ' ..',
               '%0a', '%0d%0a', '\n', '%80', '%ff', '%ed%a0%80', '%f4%90%80%80', '%', '%2', '%zz', '%%32%65']
OUTSIDE_NAMES = ['sentinel.txt', 'secret', 'passwd', 'secret/passwd', 'root.gz', 'index.html', 'file.txt', 'outside.txt',
                 'static.gz', 'rootfile', 'missing.gz', '__init__.py', 'etc/passwd', 'root', 'world', PKG, 'static']
INSIDE_NAMES = ['index.html', 'file.txt', 'big.css', 'same.js', 'only.txt', 'a%20b.txt', 'a b.txt', '%c3%a9.txt',
                '%c3%83%c2%a9.txt', '%e2%82%ac.txt', 'back%5cslash.txt', 'back\\slash.txt', '%252e%252e', 'nl%0a',
                'sub', 'sub', 'x.css', 'deep', 'z.js', 'noindex', 'only.txt', 'dirindex', 'vardir.txt', 'home.htm',
                'file.txt.gz', 'nothere', 'sub/x.css', 'sub/deep/z.js', 'sub/deep', 'file.txt/', 'docs.v1', 'img.d', 'a.txt']
PREFIXES = {'route': ['/static/'] * 12 + ['/static', '/', '/other/', '/static//', '//static/', '/static/../static/', '/Static/',
                                         '/%73tatic/', '/static%2f', '', 'static/'],
            'catchall': ['/'] * 8 + ['', '//', 'x'],
            'view': ['/'] * 8 + ['', '//', 'x/'],
            'subpath': ['/', '/d/', '/d', ''],
            # add_route('/static/{subpath:.*}') + static_view(use_subpath=True): the traverser splits the matched STRING
            'placeholder': ['/static/'] * 12 + ['/static', '/', '/other/', '/static//', '//static/', '/static/../static/',
                                                '/Static/', '/%73tatic/', '/static%2f', '', 'static/'],
            # add_route('/static/{subpath}'): the default placeholder regex [^/]+ -- one non-empty piece without '/'
            'segment': ['/static/'] * 12 + ['/static', '/', '/other/', '/static//', '/Static/', '/%73tatic/', '/static%2f', ''],
            # add_view(static_view(use_subpath=True), name='static'), no route: traversal finds the view name
            'traversal': ['/static/'] * 10 + ['/@@static/'] * 3 + ['/static', '/', '/other/', '/static//', '//static/',
                                                                  '/static/../static/', '/other/../static/', '/./static/',
                                                                  '/Static/', '/%73tatic/', '/%40%40static/', '/@static/',
                                                                  '/@@@static/', '/@@/static/', '/static%2f', '', 'static/']}


def _abs_pieces():
    return [BASE.lstrip('/') + '/sentinel.txt', '/' + BASE.lstrip('/') + '/sentinel.txt', '/etc/passwd',
            '%2f' + BASE.lstrip('/').replace('/', '%2f') + '%2fsentinel.txt']


REAL_PATHS = ['', 'index.html', 'file.txt', 'file.txt', 'big.css', 'same.js', 'only.txt', 'a%20b.txt', '%c3%a9.txt',
              '%e2%82%ac.txt', 'back%5cslash.txt', '...', '..a', '%252e%252e', 'nl%0a', 'sub', 'sub/', 'sub/index.html',
              'sub/x.css', 'sub/x.css', 'sub/deep', 'sub/deep/', 'sub/deep/z.js', 'noindex', 'noindex/', 'noindex/only.txt',
              'dirindex/', 'vardir.txt', 'home.htm', 'sub/home.htm', 'file.txt.gz', 'x.css', 'deep/z.js', 'index.html/',
              'docs.v1', 'docs.v1/', 'docs.v1/a.txt', 'docs.v1/img.d', 'docs.v1/img.d/', 'docs.v1/img.d/x.png',
              'dirindex/index.html', 'vardir.txt.gz', 'pserve.py', 'common.py', 'notes.txt',
              '%c3%83%c2%a9.txt', '%c3%a9.txt', '%e2%82%ac.txt', 'sub/%c3%a9.txt']
MOUNT_PREFIX = {'route': '/static/', 'catchall': '/', 'view': '/', 'subpath': '/', 'placeholder': '/static/',
                'traversal': '/static/', 'segment': '/static/'}
# HTTP_X_VHM_ROOT values for the traversal mounting (a WSGI str set by the front-end proxy; NOT percent-decoded): the
# virtual root's segments come first, so its first segment is the view name and the others lead below the root
VROOTS = ['/static', '/static', '/static/', '/static/sub', '/static/sub', '/@@static', '/static/docs.v1', '/other', '', '/',
          '/static/..', '/static/../static', '/%73tatic', '/static/\xc3\xa9', '\xff', '/static/\xc3', '//static//sub/']
# single pieces for the '{subpath}' mounting (no '/')
SEGMENT_PIECES = ['file.txt', 'index.html', 'sub', 'noindex', 'big.css', 'same.js', 'only.txt', 'a%20b.txt', '%c3%a9.txt',
                  '%c3%83%c2%a9.txt', '%e2%82%ac.txt', 'back%5cslash.txt', '...', '..a', '%252e%252e', 'nl%0a', '..', '.',
                  '%2e%2e', '%2e', 'sub%2fx.css', '..%2fsentinel.txt', '%2e%2e%2fsentinel.txt', 'sentinel.txt', '%00',
                  'file.txt%00', '%0a', 'file.txt%0a', '\\', '..%5csentinel.txt', 'docs.v1', 'vardir.txt', 'dirindex', '%ff',
                  'home.htm', 'nothere', '%c0%ae%c0%ae', '@@x', 'file.txt.gz']


# ---- Unicode look-alikes: text that is NOT '.', '..', '/', '\\' or an existing name, but becomes one under a Unicode
# transformation somebody might apply after the path has been vetted (NFC/NFD/NFKC/NFKD normalisation, case folding,
# dropping ignorable or unencodable characters).  Computed from unicodedata, not listed by hand.
_UNI = {}


def _uni():
    if _UNI:
        return _UNI
    import unicodedata
    forms = ('NFKC', 'NFKD', 'NFC', 'NFD')
    by_target = {}
    for cp in range(0x80, 0x30000):
        if 0xD800 <= cp <= 0xDFFF:
            continue
        ch = chr(cp)
        for f in forms:
            n = unicodedata.normalize(f, ch)
            if n != ch and n in ('.', '..', '...', '/', '\\', '~', '%', ':'):
                by_target.setdefault(n, set()).add(ch)
    dots = sorted(by_target.get('.', ()))              # U+2024 U+FE52 U+FF0E ...
    dotdots = sorted(by_target.get('..', ()))          # U+2025
    slashes = sorted(by_target.get('/', ()))           # U+FF0F
    backslashes = sorted(by_target.get('\\', ()))
    ignorable = ['\u200b', '\u00ad', '\ufeff', '\u2060', '\u0300', '\u200d']
    parents = list(dotdots)                            # segments that turn into '..'
    for a in dots + ['.']:
        for b in dots + ['.']:
            if (a, b) != ('.', '.'):
                parents.append(a + b)
    parents += ['.' + z + '.' for z in ignorable] + [z + '..' for z in ignorable[:3]] + ['..' + z for z in ignorable[:3]]
    singles = list(dots) + sorted(by_target.get('...', ())) + ['.' + ignorable[0], ignorable[1] + '.']

    def wide(name):                                    # fullwidth forms of ASCII letters / digits / punctuation
        return ''.join(chr(ord(c) + 0xFEE0) if 0x21 <= ord(c) <= 0x7E else c for c in name)
    names = ['e\u0301.txt', 'E\u0301.TXT', wide('file.txt'), wide('sentinel.txt'), 'ﬁle.txt', 'FILE.TXT', 'File.Txt', 'SUB',
             'Index.HTML', 'SENTINEL.TXT', 'file\u200b.txt', 'sub\u00ad', 'ſub', 'ſentinel.txt', 'ﬀ', 'K.txt']
    joined = []                                        # one segment that turns into a path with separators
    for sl in slashes + backslashes:
        for par in parents[:6] + ['..']:
            for tail in ('sentinel.txt', 'outside.txt', 'file.txt', 'secret' + sl + 'passwd'):
                joined.append(par + sl + tail)
        joined.append('sub' + sl + 'x.css')
        joined.append('sub' + sl + '..' + sl + '..' + sl + 'sentinel.txt')
        joined.append(sl + 'etc' + sl + 'passwd')
    _UNI.update(parents=parents, singles=singles, names=names, joined=joined, slashes=slashes, backslashes=backslashes,
                all=parents + singles + names + joined)
    return _UNI


def _pct(text, rng=None):
    """UTF-8 percent-encoding of a piece as a client would send it ('/' and unreserved characters stay)."""
    from urllib.parse import quote
    if rng is not None and rng.random() < 0.15:
        return text.encode('utf-8').decode('latin-1')          # raw UTF-8 bytes on the wire
    return quote(text, safe="/~!$&'()*+,;=:@")


def _gen_unicode_path(rng, mount):
    """Look-alike segments mixed with names inside and outside the root."""
    un = _uni()
    segs = []
    for _ in range(rng.choice([1, 1, 2, 2, 3, 4])):
        r = rng.random()
        if r < 0.40:
            segs.append(_pct(rng.choice(un['parents']), rng))
        elif r < 0.55:
            segs.append(_pct(rng.choice(un['joined']), rng))
        elif r < 0.65:
            segs.append(_pct(rng.choice(un['singles'] + un['names']), rng))
        elif r < 0.85:
            segs.append(rng.choice(['sentinel.txt', 'outside.txt', 'secret', 'passwd', 'index.html', 'file.txt', 'static.gz']))
        else:
            segs.append(rng.choice(['sub', 'deep', 'noindex', 'file.txt', 'x.css', 'docs.v1']))
    path = MOUNT_PREFIX[mount] + '/'.join(segs)
    return path + ('/' if rng.random() < 0.15 else '')


def _gen_real_path(rng, mount):
    """A path that names something inside the root, possibly damaged by one edit."""
    segs = rng.choice(REAL_PATHS).split('/')
    r = rng.random()
    if r < 0.25:
        segs.insert(rng.randrange(len(segs) + 1), rng.choice(SIGNIFICANT))
    elif r < 0.35:
        i = rng.randrange(len(segs) + 1)
        segs[i:i] = [rng.choice(INSIDE_NAMES + OUTSIDE_NAMES), '..']
    elif r < 0.40:
        segs = ['..'] * rng.choice([1, 2, 5]) + segs
    return MOUNT_PREFIX[mount] + '/'.join(segs)


def _gen_path(rng, mount):
    r0 = rng.random()
    if r0 < 0.10:
        return _gen_unicode_path(rng, mount)
    if r0 < 0.50:
        return _gen_real_path(rng, mount)
    prefix = rng.choice(PREFIXES[mount])
    k = rng.choice([0, 1, 1, 2, 2, 3, 3, 4, 5, 6])
    segs = []
    for _ in range(k):
        r = rng.random()
        if r < 0.40:
            segs.append(rng.choice(INSIDE_NAMES))
        elif r < 0.75:
            segs.append(rng.choice(SIGNIFICANT))
        elif r < 0.93:
            segs.append(rng.choice(OUTSIDE_NAMES))
        else:
            segs.append(rng.choice(_abs_pieces()))
    path = prefix + '/'.join(segs)
    if rng.random() < 0.3:
        path += '/'
    r = rng.random()
    if r < 0.06:          # encode every '.' and '/' after the prefix once
        path = prefix + path[len(prefix):].replace('.', '%2e').replace('/', '%2f')
    elif r < 0.10:        # ... twice
        path = prefix + path[len(prefix):].replace('.', '%252e')
    elif r < 0.13:
        path = path.replace('/', '\\')
    return path


SUB_ELEMS = ['..', '.', '', 'a/b', '../sentinel.txt', 'sub/x.css', '/etc/passwd', 'x\x00', '\x00', 'file.txt\x00.gz',
             '..\x00', '\\', '..\\', 'sentinel.txt', 'secret', 'passwd', '...', '..a', '%2e%2e', ' ', '/', '//',
             'index.html', 'file.txt', 'sub', 'x.css', 'deep', 'z.js', 'noindex', 'dirindex', 'big.css', 'same.js',
             'only.txt', 'vardir.txt', 'é.txt', '€.txt', 'a b.txt', 'nl\n', 'nothere', 'home.htm', 'docs.v1', 'img.d']


def gen_case(rng):
    mount = rng.choice(['route', 'route', 'route', 'catchall', 'catchall', 'view', 'view', 'subpath', 'subpath',
                        'placeholder', 'placeholder', 'traversal', 'traversal', 'segment'])
    keys = [k for k in ROOTS if k not in INCLUDER]              # the included roots have a stream of their own
    root = rng.choice(['fs'] * 6 + ['pkg'] * 6 + [k for k in keys if k not in ('fs-missing', 'fs-file')] * 2 + keys)
    case = {'mount': mount, 'root': root, 'path': _gen_path(rng, mount), 'subpath': [], 'qs': rng.choice(['', '', '', 'a=1', 'x=%2f&y']),
            'ae': rng.choice(AE_VALUES) if rng.random() < 0.6 else None,
            'encs': rng.choice(ENC_SETS) if rng.random() < 0.6 else [],
            'index': 'index.html' if rng.random() < 0.85 else rng.choice(['home.htm', 'nothere.html', 'index.html']),
            'reload': rng.random() < 0.3}
    if mount == 'subpath':
        case['subpath'], case['path'] = _gen_subpath(rng), rng.choice(PREFIXES['subpath'])
    if rng.random() < 0.25:                       # encoded variants: something to choose from, and a client that chooses
        case['encs'] = rng.choice(ENC_SETS[1:])
        case['ae'] = rng.choice(AE_VALUES[2:])
        rel = rng.choice(['file.txt', 'big.css', 'same.js', 'only.txt', 'sub/x.css', 'vardir.txt', 'index.html', 'sub/'])
        if mount == 'subpath':
            case['subpath'] = [x for x in rel.split('/') if x]
            case['path'] = '/d/' if rel.endswith('/') else '/d'
        else:
            case['path'] = MOUNT_PREFIX[mount] + rel
    if mount == 'segment' and rng.random() < 0.7:
        case['path'] = '/static/' + rng.choice(SEGMENT_PIECES) + ('/' if rng.random() < 0.1 else '')
    if mount == 'traversal' and rng.random() < 0.3:   # a virtual root announced by the proxy
        case['vroot'] = rng.choice(VROOTS)
        if case['path'].startswith('/static/') and rng.random() < 0.8:
            case['path'] = case['path'][len('/static'):]
    if mount in ROUTED and rng.random() < 0.08:
        # a virtual root on a ROUTE-mounted view: its first segment is the view name Pyramid looks for -- the route's
        # unnamed view answers only for '', '/', '/@@', '/.' ...; anything else is a 404, an undecodable header an error
        case['vroot'] = rng.choice(VROOTS + ['/@@', '/@@', '/@@/x', '/.', '/..', '//', '/@@static', '/x'])
    if rng.random() < 0.15:                       # the application is mounted below a SCRIPT_NAME (deployment-level)
        case['script'] = rng.choice(SCRIPTS)
    case['pre'] = []
    if rng.random() < 0.35:                       # earlier requests served by the same view instance (filemap)
        for _ in range(rng.choice([1, 1, 2])):
            r = rng.random()
            pre = {'path': case['path'], 'subpath': list(case['subpath']), 'qs': '', 'ae': case['ae']}
            if r < 0.4:
                pass                               # the same request again
            elif r < 0.7:
                pre['ae'] = rng.choice(AE_VALUES)
            elif mount == 'subpath':
                pre['subpath'] = _gen_subpath(rng)
            else:
                pre['path'] = _gen_path(rng, mount)
            case['pre'].append(pre)
    if rng.random() < 0.22:
        _add_instances(rng, case)
    return case


TWIN = {'pkg': ['pkgb', 'pkgb-rel', 'pkg', 'pkg-sub'], 'pkg-slash': ['pkgb', 'pkg'], 'pkg-rel': ['pkgb-rel', 'pkgb'],
        'pkgb': ['pkg', 'pkg-rel', 'pkgb'], 'pkgb-rel': ['pkg-rel', 'pkg'], 'pkg-sub': ['pkg', 'pkgb'],
        'fs': ['fs', 'fs-slash', 'fs-dots', 'fs-sub', 'pkg'], 'fs-slash': ['fs'], 'fs-dots': ['fs'], 'fs-up': ['fs'],
        'fs-sub': ['fs'], 'fs-missing': ['fs'], 'fs-file': ['fs'],
        'pkg-caller': ['pkgb-caller', 'pkg', 'pkg-caller-scripts'], 'pkgb-caller': ['pkg-caller', 'pkgb'],
        'pkg-caller-sub': ['pkg-caller'], 'pkg-caller-scripts': ['pkg-caller', 'pkgb-caller'],
        'pkgb-included': ['pkga-included', 'pkg'], 'pkga-included': ['pkgb-included', 'pkgb']}
SHARED_NAMES = ['file.txt', 'index.html', 'big.css', 'same.js', 'sub/x.css', 'sub/', '', 'only_b.txt', 'only.txt',
                'sub/index.html', 'noindex/only.txt']


def _add_instances(rng, case):
    """Two or three view instances in one process (same relative docroot in another package, the same docroot twice,
    other encodings), the same names requested from each, interleaved."""
    mount = case['mount']
    case['insts'] = []
    for _ in range(rng.choice([1, 1, 2])):
        r = rng.random()
        inst = {'root': rng.choice(TWIN[case['root']]), 'encs': list(case['encs']), 'index': case['index'],
                'reload': case['reload']}
        if r < 0.3:
            inst['encs'] = rng.choice(ENC_SETS)
        elif r < 0.4:
            inst['reload'] = not case['reload']
        case['insts'].append(inst)
    n = len(case['insts']) + 1
    if rng.random() < 0.7:                      # names that exist (differently) under several roots
        rel = rng.choice(SHARED_NAMES)
        if mount == 'subpath':
            case['subpath'] = [x for x in rel.split('/') if x]
            case['path'] = '/d/' if rel.endswith('/') or not rel else '/d'
        else:
            case['path'] = MOUNT_PREFIX[mount] + rel
        if rng.random() < 0.5 and not case['encs']:
            case['encs'] = rng.choice(ENC_SETS[1:])
            case['ae'] = rng.choice(AE_VALUES[2:])
    pre = []
    for _ in range(rng.choice([1, 2, 2, 3, 4])):
        q = {'path': case['path'], 'subpath': list(case['subpath']), 'qs': '', 'ae': case['ae'], 'inst': rng.randrange(n)}
        if rng.random() < 0.2:
            q['ae'] = rng.choice(AE_VALUES)
        if rng.random() < 0.15:
            if mount == 'subpath':
                q['subpath'] = _gen_subpath(rng)
            else:
                q['path'] = _gen_path(rng, mount)
        pre.append(q)
    case['pre'] = pre
    case['inst'] = rng.randrange(n)


def _gen_subpath(rng):
    if rng.random() < 0.12:
        un = _uni()
        pool = un['all'] + ['sentinel.txt', 'outside.txt', 'sub', 'file.txt', 'secret', 'passwd'] * 8
        return [rng.choice(pool) for _ in range(rng.choice([1, 2, 2, 3]))]
    if rng.random() < 0.3:
        return [x for x in rng.choice(REAL_PATHS).replace('%20', ' ').replace('%c3%a9', 'é').split('/') if x]
    k = rng.choice([0, 1, 1, 2, 2, 3, 4])
    pool = SUB_ELEMS[-20:] if rng.random() < 0.5 else SUB_ELEMS
    return [rng.choice(pool) for _ in range(k)]


DIR_TARGETS = ['sub', 'sub/deep', 'docs.v1', 'docs.v1/img.d', 'noindex', 'dirindex', '']
FILE_TARGETS = ['file.txt', 'sub/x.css', 'index.html', 'big.css']


def _spellings(mount, rel):
    """Different request paths with the same normalised segments (with and without the trailing slash)."""
    pre = MOUNT_PREFIX[mount]
    out = [pre + rel, pre + rel + '/', pre + 'zz/../' + rel, pre + './' + rel + '/', pre + rel + '//', pre + '/' + rel,
           pre + rel + '/.', pre + rel + '/zz/..', pre + rel + '/zz/../']
    if mount == 'segment':
        out = [pre + rel, pre + rel + '/']
    return out


def respelled_histories(rng=None, limit=None, primary_only=False):
    """One view instance asked for the SAME normalised path in different spellings, in both orders: whatever the instance
    remembers from the first request must not change the second answer (index file vs add-slash redirect, query string)."""
    out = []
    base = {'root': 'fs', 'subpath': [], 'qs': '', 'ae': None, 'encs': [], 'index': 'index.html', 'reload': False, 'pre': []}
    for mount in MOUNTS:
        for rel in DIR_TARGETS + FILE_TARGETS:
            if mount == 'segment' and '/' in rel:
                continue
            if mount == 'subpath':
                forms = [('/d', rel), ('/d/', rel)]
                pairs = [(a, b) for a in forms for b in forms if a != b]
            else:
                sp = _spellings(mount, rel)
                pairs = [(sp[1], sp[0]), (sp[0], sp[1])]
                if not primary_only:
                    pairs += [(a, b) for a in sp[:2] for b in sp[2:]] + [(b, a) for a in sp[:2] for b in sp[2:]]
            for a, b in pairs:
                for root in ('fs', 'pkg'):
                    d = dict(base)
                    if mount == 'subpath':
                        sub = [x for x in rel.split('/') if x]
                        d.update(mount=mount, root=root, path=b[0], subpath=sub,
                                 pre=[{'path': a[0], 'subpath': list(sub), 'qs': '', 'ae': None}])
                    else:
                        d.update(mount=mount, root=root, path=b, pre=[{'path': a, 'subpath': [], 'qs': '', 'ae': None}])
                    out.append(d)
                    e = dict(d)
                    e['qs'] = 'a=1'
                    out.append(e)
    if rng is not None and limit is not None and len(out) > limit:
        out = rng.sample(out, limit)
    return out


def included_cases():
    """Relative static paths registered by included code of ANOTHER package than the application's (every mounting; for
    the direct mountings the view is created by that package's module)."""
    out = []
    base = {'subpath': [], 'qs': '', 'ae': None, 'encs': [], 'index': 'index.html', 'reload': False, 'pre': []}
    rels = ['', 'index.html', 'file.txt', 'big.css', 'only_b.txt', 'only.txt', 'sub/', 'sub/x.css', 'same.js', 'noindex/only.txt',
            'sub', '../sentinel.txt']
    for root in INCLUDER:
        for mount in MOUNTS:
            for rel in rels:
                if mount == 'segment' and '/' in rel.rstrip('/'):
                    continue
                d = dict(base)
                if mount == 'subpath':
                    d.update(mount=mount, root=root, path='/d/' if rel.endswith('/') or not rel else '/d',
                             subpath=[x for x in rel.split('/') if x])
                else:
                    d.update(mount=mount, root=root, path=MOUNT_PREFIX[mount] + rel)
                out.append(d)
        for rel in ('file.txt', 'same.js'):
            d = dict(base)
            d.update(mount='route', root=root, path='/static/' + rel, encs=['gzip'], ae='gzip')
            out.append(d)
    return out


def core_cases():
    out = []
    import itertools
    for combo in itertools.product(CORE6, repeat=4):
        out.append({'mount': 'route', 'root': 'fs', 'path': '/static/' + '/'.join(combo), 'subpath': [], 'qs': '',
                    'ae': None, 'encs': [], 'index': 'index.html', 'reload': False, 'pre': []})
    return out


def utf8_cases(tier):
    """Lib/Utf8 vs CPython (through traversal.decode_path_info): exhaustive blocks prefix + every suffix of length n."""
    out = [{'mount': 'utf8', 'prefix': [b0], 'n': 1} for b0 in range(256)]                 # all 2-byte sequences
    leads3 = range(256) if tier == 'thorough' else [0x00, 0x2f, 0x41, 0x7f] + list(range(0x80, 0x100))
    out += [{'mount': 'utf8', 'prefix': [b0], 'n': 2} for b0 in leads3]                     # all 3-byte sequences
    edge = [0x00, 0x7f, 0x80, 0x8f, 0x90, 0x9f, 0xa0, 0xbf, 0xc0, 0xff]
    if tier == 'thorough':                                                                  # structured 4-byte sweep
        for b0 in [0xf0, 0xf1, 0xf3, 0xf4, 0xf5, 0xf7, 0xf8, 0xff, 0xe0, 0xed, 0xc2, 0x7f]:
            out += [{'mount': 'utf8', 'prefix': [b0, b1], 'n': 2} for b1 in edge]
        for b0 in range(0xf0, 0xf5):
            out += [{'mount': 'utf8', 'prefix': [b0, b1, b2], 'n': 1} for b1 in range(256) for b2 in edge]
    else:
        out += [{'mount': 'utf8', 'prefix': pre, 'n': 2} for pre in
                ([0xf0, 0x8f], [0xf0, 0x90], [0xf0, 0xbf], [0xf4, 0x8f], [0xf4, 0x90], [0xf5, 0x80], [0xf1, 0x80], [0xed, 0xa0])]
    return out


def generate(rng, tier, n):
    if n >= 4000:
        for c in utf8_cases(tier):
            yield c
    core = core_cases()
    if tier == 'quick' and n < 4000:
        core = rng.sample(core, max(1, n // 8))
    for c in core:
        yield c
    mounts = ['catchall', 'view']
    for i, c in enumerate(core[::7]):
        d = dict(c)
        d['mount'] = mounts[i % 2]
        d['root'] = 'pkg' if i % 3 == 0 else 'fs'
        d['path'] = c['path'][len('/static'):]
        yield d
    for i, c in enumerate(core[3::7]):
        d = dict(c)
        d['mount'] = ['placeholder', 'traversal'][i % 2]
        d['root'] = 'pkg' if i % 3 == 0 else 'fs'
        if i % 5 == 0 and d['mount'] == 'traversal':
            d['path'] = '/@@' + c['path'][1:]
        yield d
    for _ in range(max(0, n - len(core) - len(core[::7]))):
        yield gen_case(rng)
    # appended AFTER the random stream (which it therefore does not perturb): histories of one instance over spellings
    # of one normalised path
    for c in respelled_histories(rng, max(40, n // 25)):
        yield c
    for c in included_cases():
        yield c


def _valid_req(mount, r):
    if not isinstance(r['path'], str) or any(ord(ch) > 255 for ch in r['path']):
        return False
    if mount == 'subpath' and any(ord(ch) > 127 or ch == '%' for ch in r['path']):
        return False
    if not isinstance(r['subpath'], list):
        return False
    if not all(isinstance(s, str) and all(ord(ch) < 0xD800 or 0xDFFF < ord(ch) < 0x110000 for ch in s)
               for s in r['subpath']):
        return False
    if r['ae'] is not None and not isinstance(r['ae'], str):
        return False
    return isinstance(r['qs'], str) and not any(ord(ch) > 126 or ord(ch) < 33 for ch in r['qs'])


def _requests(case):
    return list(case['pre']) + [case]


def _is_utf8(case):
    return isinstance(case, dict) and case.get('mount') == 'utf8'


def valid(case):
    try:
        if _is_utf8(case):
            return set(case) == {'mount', 'prefix', 'n'} and case['n'] in (0, 1, 2) and len(case['prefix']) <= 4 \
                and all(isinstance(b, int) and 0 <= b < 256 for b in case['prefix'])
        if case['mount'] not in MOUNTS or case['root'] not in ROOTS:
            return False
        vr = case.get('vroot')
        if vr is not None and (case['mount'] in ('view', 'subpath') or not isinstance(vr, str) or any(ord(ch) > 255 for ch in vr)):
            return False
        sc = case.get('script', '')
        if not isinstance(sc, str) or (sc and (not sc.startswith('/') or sc.endswith('/'))) \
                or any(ord(ch) > 255 or ord(ch) < 32 for ch in sc):
            return False
        if not isinstance(case['pre'], list) or len(case['pre']) > 4:
            return False
        insts = case.get('insts', [])
        if not isinstance(insts, list) or len(insts) > 2 or case.get('inst', 0) not in range(len(insts) + 1):
            return False
        for i in insts:
            if set(i) != set(INST_KEYS) or i['root'] not in ROOTS or not isinstance(i['reload'], bool) \
                    or not isinstance(i['encs'], list) or not all(isinstance(e, str) and e for e in i['encs']) \
                    or not isinstance(i['index'], str) or not i['index'] or '/' in i['index'] or i['index'] in ('.', '..'):
                return False
        for r in case['pre']:
            if not set(r) <= {'path', 'subpath', 'qs', 'ae', 'inst'} or not {'path', 'subpath', 'qs', 'ae'} <= set(r):
                return False
            if r.get('inst', 0) not in range(len(insts) + 1) or not _valid_req(case['mount'], r):
                return False
        if not _valid_req(case['mount'], case):
            return False
        if not isinstance(case['index'], str) or not case['index'] or '/' in case['index'] or case['index'] in ('.', '..'):
            return False
        return isinstance(case['encs'], list) and all(isinstance(e, str) and e for e in case['encs']) \
            and isinstance(case['reload'], bool)
    except Exception:
        return False


# ------------------------------------------------------------------ oracles and wire
def _environ(case, script='', vroot=None):
    pi = _pi(case)       # the WSGI server's job
    env = {'REQUEST_METHOD': 'GET', 'SCRIPT_NAME': script, 'PATH_INFO': pi, 'QUERY_STRING': case['qs'],
           'SERVER_NAME': 'localhost', 'SERVER_PORT': '80', 'SERVER_PROTOCOL': 'HTTP/1.1',
           'wsgi.url_scheme': 'http', 'wsgi.version': (1, 0), 'wsgi.input': io.BytesIO(b''),
           'wsgi.errors': io.StringIO(), 'wsgi.multithread': False, 'wsgi.multiprocess': False, 'wsgi.run_once': False}
    if case['ae'] is not None:
        env['HTTP_ACCEPT_ENCODING'] = case['ae']
    if vroot is not None:
        env['HTTP_X_VHM_ROOT'] = vroot
    return env


def _pi(r):
    return _state['unquote'](r['path'].encode('latin-1'))       # the WSGI server's job


ALL_ENCODINGS = ['gzip', 'compress', 'bzip2', 'xz', 'br']


def _ae_oracle(ae):
    if ae not in _state['ae']:
        env = {'REQUEST_METHOD': 'GET', 'PATH_INFO': '/', 'SERVER_NAME': 'localhost', 'SERVER_PORT': '80',
               'wsgi.url_scheme': 'http'}
        if ae is not None:
            env['HTTP_ACCEPT_ENCODING'] = ae
        acc = _state['Request'](env).accept_encoding
        _state['ae'][ae] = (bool(acc), [e for e in ALL_ENCODINGS if acc.acceptable_offers([e])])
    return _state['ae'][ae]


def _app_url(script):
    """request.application_url (host_url + quoted SCRIPT_NAME): WebOb is the oracle."""
    key = ('app_url', script)
    if key not in _state['ae']:
        env = {'REQUEST_METHOD': 'GET', 'SCRIPT_NAME': script, 'PATH_INFO': '/', 'SERVER_NAME': 'localhost',
               'SERVER_PORT': '80', 'wsgi.url_scheme': 'http'}
        _state['ae'][key] = _state['Request'](env).application_url
    return _state['ae'][key]


def _root_pkg(root):
    is_pkg, spec, pname = ROOTS[root]
    if not is_pkg:
        return PKG
    if root in CALLER:
        return CALLER[root]
    return spec.split(':', 1)[0] if ':' in spec else pname


INST_KEYS = ('root', 'encs', 'index', 'reload')


def _insts(case):
    """The view instances of a case: instance 0 is the case's own configuration, case['insts'] holds the others."""
    out = [{k: case[k] for k in INST_KEYS}]
    out += [dict(i) for i in case.get('insts', [])]
    for i in out:
        i['mount'] = case['mount']
    return out


def _inst_of(case, r):
    return _insts(case)[r.get('inst', 0)]


HARNESS_PKG = __name__.rsplit('.', 1)[0]          # the package of this module: what caller_package() finds for views we create


def _setup(ic):
    """What was WRITTEN at configuration time: (root_dir / path as written, package_name= or None, package of the module
    that creates the view / of the Configurator).  Turning this into self.package_name / self.docroot is the model's job
    (Model/C16.v: configure = static_view.__init__ + resolve_asset_spec (+ _make_spec + StaticURLInfo.add))."""
    is_pkg, spec, pname = ROOTS[ic['root']]
    if ic['root'] in CALLER:
        caller = CALLER[ic['root']]
    elif ic['mount'] == 'route' and pname:
        caller = pname                             # Configurator(package=pname): add_static_view has no package_name=
    else:
        caller = HARNESS_PKG
    kw = [] if (pname is None or ic['mount'] == 'route') else [pname]
    return spec, kw, caller


def to_wire(case):
    if not _state:
        setup('quick')
    if _is_utf8(case):
        return [1, bytes(case['prefix']), case['n']]
    cfgs = []
    mods = [[k, v] for k, v in sorted(_state['modpath'].items())]
    vroot = case.get('vroot')
    for ic in _insts(case):
        spec, kw, caller = _setup(ic)
        cfgs.append([MOUNTS.index(ic['mount']), 'static', spec, kw, caller, mods,
                     ic['index'], list(ic['encs']), _state['encmap'], _app_url(case.get('script', '')), _state['safe'],
                     ic['reload'], [] if vroot is None else [vroot]])
    reqs = []
    for r in _requests(case):
        truthy, ok = _ae_oracle(r['ae'])
        reqs.append([r.get('inst', 0), r['path'].encode('latin-1'), list(r['subpath']), r['qs'], truthy, ok])
    return [cfgs, reqs, _state['listing']]


def from_wire(case, raw):
    if _is_utf8(case):
        if raw == [['bad']]:
            return {'model': ['MODEL-BAD', raw], 'spec': None}
        return {'model': ['utf8', [list(x) for x in raw]], 'spec': ['utf8']}
    if raw == [['bad']] or len(raw) != 3:
        return {'model': ['MODEL-BAD', raw], 'spec': None}
    per, sec, sec_spec = raw
    return {'model': [[[x[0], x[1]] for x in per], sec],
            'spec': [[[x[2], x[3], x[4]] for x in per], sec_spec]}


# ------------------------------------------------------------------ implementation
class _Trace:
    """Records every os.stat / open made while the request is handled."""

    def __enter__(self):
        self.log = []
        self.stat, self.open = os.stat, builtins.open
        log = self.log
        real_stat, real_open = self.stat, self.open

        def stat(path, *a, **kw):
            if isinstance(path, (str, bytes)):
                log.append([0, path if isinstance(path, str) else path.decode('latin-1')])
            return real_stat(path, *a, **kw)

        def open_(path, *a, **kw):
            if isinstance(path, (str, bytes)):
                log.append([1, path if isinstance(path, str) else path.decode('latin-1')])
            return real_open(path, *a, **kw)
        os.stat, builtins.open = stat, open_
        return self

    def __exit__(self, *a):
        os.stat, builtins.open = self.stat, self.open


EXC = {'URLDecodeError': 1, 'UnicodeDecodeError': 2, 'UnicodeEncodeError': 3, 'IsADirectoryError': 4, 'FileNotFoundError': 5}


def _view(case):
    is_pkg, spec, pname = ROOTS[case['root']]
    kw = dict(index=case['index'], reload=case['reload'], content_encodings=list(case['encs']))
    if pname:
        kw['package_name'] = pname
    return kw, spec


def _get_app(case):
    from pyramid.config import Configurator
    kw, spec = _view(case)
    make_view = _state['static_view']
    if case['root'] in CALLER:
        # created by a module of the package the relative root is meant to be relative to
        import importlib
        factory = importlib.import_module(CALLER[case['root']] + '.factory')
        make_view, Configurator = factory.make_view, factory.make_config
    if case['mount'] == 'route' and case['root'] in INCLUDER:
        # the application (top-level Configurator) is created by one package, the static view is registered by the
        # includeme of another: inside include() the current package is the includeme's
        import importlib
        top = importlib.import_module(INCLUDER[case['root']] + '.factory')
        config = top.make_config(settings={'pyramid.reload_assets': case['reload']})
        config.include(factory.make_includeme('static', spec, content_encodings=list(case['encs'])))
        app = ('wsgi', config.make_wsgi_app())
    elif case['mount'] == 'route':
        ckw = {'package': kw['package_name']} if kw.get('package_name') else {}
        config = Configurator(settings={'pyramid.reload_assets': case['reload']}, **ckw)
        config.add_static_view(name='static', path=spec, content_encodings=list(case['encs']))
        app = ('wsgi', config.make_wsgi_app())
    elif case['mount'] == 'catchall':
        config = Configurator()
        config.add_route('catchall', '/*subpath')
        config.add_view(make_view(spec, use_subpath=True, **kw), route_name='catchall')
        app = ('wsgi', config.make_wsgi_app())
    elif case['mount'] == 'placeholder':
        # the subpath arrives in the matchdict as a STRING ('{subpath}' placeholder with the regex '.*')
        config = Configurator()
        config.add_route('ph', '/static/{subpath:.*}')
        config.add_view(make_view(spec, use_subpath=True, **kw), route_name='ph')
        app = ('wsgi', config.make_wsgi_app())
    elif case['mount'] == 'segment':
        # '{subpath}' with the default regex [^/]+
        config = Configurator()
        config.add_route('seg', '/static/{subpath}')
        config.add_view(make_view(spec, use_subpath=True, **kw), route_name='seg')
        app = ('wsgi', config.make_wsgi_app())
    elif case['mount'] == 'traversal':
        # no route at all: the default root factory's resource has no children, traversal stops at the first
        # segment, which is the view name; the remaining segments are request.subpath
        config = Configurator()
        config.add_view(make_view(spec, use_subpath=True, **kw), name='static')
        app = ('wsgi', config.make_wsgi_app())
    elif case['mount'] == 'view':
        app = ('view', make_view(spec, use_subpath=False, **kw))
    else:
        app = ('view', make_view(spec, use_subpath=True, **kw))
    return app


def _not_found_kind(text):
    if 'Out of bounds' in text:
        return 1
    if 'http://localhost' in text:
        return 2
    return 0


def _observe_response(status, headers, body):
    code = int(status.split()[0])
    h = {}
    for k, v in headers:
        h.setdefault(k.lower(), v)
    if code == 404:
        return [404, _not_found_kind(body.decode('latin-1'))]
    if code == 301:
        return [301, h.get('location', '')]
    if code == 200:
        vary = [x.strip().lower() for x in h.get('vary', '').split(',')]
        return [200, body.decode('latin-1'), [h['content-encoding']] if 'content-encoding' in h else [],
                1 if 'accept-encoding' in vary else 0]
    return ['STATUS', code]


def _call_wsgi(app, env):
    got = {}

    def start_response(status, headers, exc_info=None):
        got['status'], got['headers'] = status, headers
        return lambda b: None
    it = app(env, start_response)
    try:
        body = b''.join(it)
    finally:
        if hasattr(it, 'close'):
            it.close()
    return got['status'], got['headers'], body


def _run_one(kind, app, mount, r, script='', vroot=None):
    env = _environ(r, script, vroot)
    with _Trace() as tr:
        try:
            if kind == 'wsgi':
                status, headers, body = _call_wsgi(app, env)
            else:
                req = _state['Request'](env)
                if mount == 'subpath':
                    req.subpath = tuple(r['subpath'])
                try:
                    resp_obj = app(None, req)
                except _state['HTTPException'] as e:       # an HTTP exception is a response
                    resp_obj = e
                status, headers, body = _call_wsgi(resp_obj, env)
            resp = _observe_response(status, headers, body)
        except Exception as e:
            n = type(e).__name__
            resp = [0, EXC[n]] if n in EXC else ['EXC', n, str(e)[:120]]
    return [resp, tr.log]


def _run_utf8(case):
    import itertools
    from pyramid.traversal import decode_path_info
    pre = ''.join(chr(b) for b in case['prefix'])
    out = []
    for suf in itertools.product(range(256), repeat=case['n']):
        ssuf = ''.join(map(chr, suf))
        wsgi = pre + ssuf
        try:
            text = decode_path_info(wsgi)
        except UnicodeDecodeError:
            continue
        out.append([ssuf, text, 1 if text.encode('utf-8') == wsgi.encode('latin-1') else 0])
    return ['utf8', out]


def run_impl(case):
    if not _state:
        setup('quick')
    if _is_utf8(case):
        return _run_utf8(case)
    apps = [_get_app(ic) for ic in _insts(case)]       # fresh view instances (empty filemaps) per case, one process
    outs = []
    for r in _requests(case):
        kind, app = apps[r.get('inst', 0)]
        outs.append(_run_one(kind, app, case['mount'], r, case.get('script', ''), case.get('vroot')))
    try:
        sec = _state['secure'](tuple(case['subpath']))
        sec = [] if sec is None else [sec]
    except Exception as e:
        sec = ['EXC', type(e).__name__]
    return [outs, sec]


# ------------------------------------------------------------------ judging
def _root_real(case):
    is_pkg, spec, pname = ROOTS[case['root']]
    if is_pkg:
        rel = spec.split(':', 1)[1] if ':' in spec else spec
        return os.path.normpath(os.path.join(BASE, _root_pkg(case['root']), rel))
    return os.path.normpath(spec)


def _under(root, p):
    """Independent containment oracle: what the operating system resolves p to lies at or below root."""
    if '\x00' in p:
        return False
    rp = os.path.realpath(p)
    return rp == root or rp.startswith(root.rstrip('/') + '/')


def _conforms(resp, spec):
    tag = spec[0]
    if tag == 0:
        return None
    if tag == 1:
        return resp[0] == 0 and resp[1] in (1, 2)
    if tag == 404:
        return resp[0] == 404
    if tag == 301:
        return resp[0] == 301 and resp[1] == spec[1]
    if tag == 200:
        return resp[0] == 200 and any(resp[1] == a[0] and resp[2] == a[1] for a in spec[1])
    return False


def _root_is_dir(case):
    return os.path.isdir(_root_real(case))


def _escapes(case, resp, trace):
    """Paths of the trace that are not at or below the root (plus a marker if outside content was served)."""
    root = _root_real(case)
    bad = [p for op, p in trace if not _under(root, p)]
    if resp and resp[0] == 200 and SENT in resp[1]:
        bad.append('<content of a file outside the root>')
    return bad


def _boundary(case, bad):
    """Specification boundary: the configured root is not a directory; then <root><ext> of an encoded variant is
    probed (and may be served).  The theorems carry the hypothesis that the root is a directory."""
    if _root_is_dir(case) or not case['encs']:
        return False
    root = _root_real(case)
    allowed = {root + ext for ext, _ in _state['encmap']} | {'<content of a file outside the root>'}
    return all(p in allowed for p in bad)


def _judge_one(case, r, out, sp):
    """Each request is judged against the root of the instance that served it."""
    resp, trace = out
    ic = _inst_of(case, r)
    bad = _escapes(ic, resp, trace)
    if bad:
        return None if _boundary(ic, bad) else False
    return _conforms(resp, sp[0])


def spec_holds(case, obs, spec):
    if spec is None:
        return None
    if _is_utf8(case):          # strictness: whatever is accepted re-encodes to the bytes it came from
        return isinstance(obs[1], list) and all(x[2] == 1 for x in obs[1])
    per_spec, sec_spec = spec
    outs, sec = obs
    if len(outs) != len(per_spec):
        return False
    verdicts = [_judge_one(case, r, o, sp) for r, o, sp in zip(_requests(case), outs, per_spec)]
    if sec != sec_spec:                    # _secure_path is what the specification says
        return False
    if any(v is False for v in verdicts):
        return False
    if any(v is None for v in verdicts):
        return None
    return True


def _nonascii(r):
    try:
        return any(ord(ch) > 127 for ch in _pi(r))
    except Exception:
        return False


def classify(case, obs, spec):
    """A spec failure is a known finding only if every failing request of the case is exactly that finding."""
    if spec is None or _is_utf8(case):
        return None
    per_spec, sec_spec = spec
    outs, sec = obs
    if sec != sec_spec or len(outs) != len(per_spec):
        return None
    found = set()
    for r, o, sp in zip(_requests(case), outs, per_spec):
        v = _judge_one(case, r, o, sp)
        if v is not False:
            continue
        resp, trace = o
        if _escapes(_inst_of(case, r), resp, trace):
            return None
        if case['mount'] == 'view' and _nonascii(r) and _state_facts.get('view_decodes_again') and (
                resp[0] in (200, 404, 301) or resp in ([0, 1], [0, 3])):
            found.add('C16-plain-view-decodes-twice')
        elif case['mount'] in ROUTED and '\n' in _pi(r) and not (
                _state_facts.get('route_remainder_dotall', True) and _state_facts.get('route_anchor_abs', True)):
            found.add('C16-route-remainder-newline')
        else:
            return None
    return found.pop() if len(found) == 1 else None


PIECES = ['..', '%2e', '%2f', '%5c', '\\', '%00', '//', '%c0', '%25', 'sentinel', 'secret', 'passwd', 'outside',
          '%e2%80%a4', '%e2%80%a5', '%ef%b9%92', '%ef%bc%8e', '%ef%bc%8f', '%ef%bc%bc', '%e2%80%8b']


def _reached(obs):
    r = obs[0][-1][0]
    return not (r and r[0] == 404 and r[1] == 0)


def nontrivial(case, obs):
    if _is_utf8(case):
        return False
    if not isinstance(obs[0], list) or not obs[0] or not isinstance(obs[0][-1], list):
        return False
    r = obs[0][-1][0]
    if not r or not _reached(obs):
        return False
    if r[0] in (200, 301):
        return True
    text = case['path'].lower() + '\x01' + '\x01'.join(case['subpath'])
    return any(p in text for p in PIECES) or any(s in ('', '.', '..') or '/' in s or '\x00' in s for s in case['subpath'])


def _lookalike(case):
    """does the request carry a character that some Unicode normal form maps to '.', '/' or '\\' ?"""
    un = _uni()
    chars = set(''.join(un['parents'] + un['singles'] + un['slashes'] + un['backslashes'])) - set('.')
    try:
        text = _pi(case).encode('latin-1').decode('utf-8', 'ignore') + ''.join(case['subpath'])
    except Exception:
        text = ''.join(case['subpath'])
    return any(ch in chars for ch in text)


def kinds(case, obs):
    if _is_utf8(case):
        n = len(obs[1]) if isinstance(obs[1], list) else -1
        return ['utf8-block-len%d' % (len(case['prefix']) + case['n']),
                'utf8-accepted-' + ('none' if n == 0 else 'some' if n > 0 else 'error')]
    if not isinstance(obs[0], list) or not obs[0] or not isinstance(obs[0][-1], list):
        return ['harness-exc']
    r, trace = obs[0][-1]
    k = ['mount-' + case['mount'], 'root-' + ('pkg' if ROOTS[case['root']][0] else 'fs'), 'rootkey-' + case['root']]
    if not r:
        k.append('out-none')
    elif r[0] == 200:
        k.append('out-200-' + ('encoded' if r[2] else 'identity') + ('-vary' if r[3] else ''))
    elif r[0] == 301:
        k.append('out-301')
    elif r[0] == 404:
        k.append('out-404-' + ['noroute', 'outofbounds', 'missing'][r[1]])
    elif r[0] == 0:
        k.append('out-exc-%s' % r[1])
    else:
        k.append('out-other')
    low = case['path'].lower()
    for name, pred in (('dotdot', '..' in low), ('enc-dot', '%2e' in low), ('enc-slash', '%2f' in low),
                       ('backslash', '\\' in low or '%5c' in low), ('nul', '%00' in low), ('dslash', '//' in low),
                       ('overlong', '%c0' in low or '%e0%80' in low), ('double-enc', '%25' in low),
                       ('outside-name', 'sentinel' in low or 'passwd' in low or 'outside' in low),
                       ('nonascii', _nonascii(case)), ('newline', '%0a' in low or '\n' in low),
                       ('unicode-lookalike', _lookalike(case))):
        if pred:
            k.append('piece-' + name)
    if case.get('script'):
        k.append('script-name')
    if case.get('vroot') is not None:
        k.append('virtual-root')
    if case['ae'] is not None:
        k.append('ae-present')
    if case['encs']:
        k.append('encs-configured')
    k.append('trace-len-%d' % min(len(trace), 9))
    k.append('pre-%d' % len(case['pre']))
    k.append('instances-%d' % (1 + len(case.get('insts', []))))
    if case.get('insts') and any(q.get('inst', 0) != case.get('inst', 0) and q['path'] == case['path'] and q['subpath'] == case['subpath'] for q in case['pre']):
        k.append('same-name-asked-of-another-instance-before')
    if case['pre'] and len(trace) <= 4 and r and r[0] == 200:
        k.append('filemap-hit')
    if case['mount'] == 'subpath':
        k.append('secure-' + ('none' if obs[1] == [] else 'some'))
    return k


def describe(case):
    return case


def explain(item):
    if _is_utf8(item['case']):
        return {'note': 'Lib/Utf8.decode vs CPython (traversal.decode_path_info) on every sequence prefix + suffix of length n; '
                        'entries = [suffix, decoded text, re-encodes to the same bytes]'}
    return {'request_path': item['case'].get('path'), 'earlier_requests': item['case'].get('pre'), 'other_instances': item['case'].get('insts'), 'mount': item['case'].get('mount'), 'root': item['case'].get('root'),
            'world': BASE, 'note': 'observation = [[response, ordered os.stat(0)/open(1) trace] per request, _secure_path(subpath)]'}


def targeted(broken, disagreements, rng):
    """Inputs aimed at the belt-and-braces checks of _secure_path and at the route remainder."""
    out = []
    base = {'mount': 'subpath', 'root': 'fs', 'path': '/', 'subpath': [], 'qs': '', 'ae': None, 'encs': [],
            'index': 'index.html', 'reload': False, 'pre': []}
    elems = ['..', '.', '', 'sentinel.txt', 'sub', 'file.txt', '../sentinel.txt', 'sub/../../sentinel.txt', 'a/b',
             '/', '\x00', 'file.txt\x00', '..\x00', 'secret', 'passwd', 'index.html', 'x.css', '\\', 'outside.txt', 'static.gz']
    import itertools
    for root in ('fs', 'pkg', 'fs-sub', 'pkg-sub'):
        for n in (1, 2, 3):
            for combo in itertools.product(elems, repeat=n) if n < 3 else [tuple(rng.choice(elems) for _ in range(3)) for _ in range(1500)]:
                d = dict(base)
                d['root'] = root
                d['subpath'] = list(combo)
                out.append(d)
    un = _uni()
    for root, outside in (('fs', 'sentinel.txt'), ('pkg', 'outside.txt'), ('fs-sub', 'file.txt'), ('pkgb', 'outside.txt')):
        for par in un['parents']:
            for mount in MOUNTS:
                d = dict(base)
                if mount == 'subpath':
                    d.update(mount=mount, root=root, subpath=[par, outside])
                else:
                    d.update(mount=mount, root=root, path=MOUNT_PREFIX[mount] + _pct(par) + '/' + outside)
                out.append(d)
        for j in un['joined']:
            for mount in MOUNTS:
                d = dict(base)
                if mount == 'subpath':
                    d.update(mount=mount, root=root, subpath=[j])
                else:
                    d.update(mount=mount, root=root, path=MOUNT_PREFIX[mount] + _pct(j))
                out.append(d)
    for mount, pre in (('route', '/static/'), ('catchall', '/'), ('placeholder', '/static/'), ('traversal', '/static/'),
                       ('segment', '/static/')):
        for tail in ('file.txt%0a', 'file.txt\n', 'sub/%0a', 'sub%0a', '%0afile.txt', 'sub/x.css%0a', 'index.html%0a', '%0a',
                     'sub%0a/x.css', 'nl%0a', 'nl%0a%0a'):
            d = dict(base)
            d.update(mount=mount, path=pre + tail)
            out.append(d)
    out += respelled_histories(primary_only=True)
    out += included_cases()
    # non-ASCII names (and names that are the UTF-8-read-as-latin-1 form of another name) in every mounting and root kind:
    # a second decoding anywhere between the server and the view serves the wrong file or raises
    for mount in MOUNTS:
        for root in ('fs', 'pkg'):
            for name in ('é.txt', 'Ã©.txt', '€.txt', 'nothere-Ã©.txt', 'sub/é.txt', 'sub/Ã©'):
                d = dict(base)
                if mount == 'subpath':
                    d.update(mount=mount, root=root, subpath=name.split('/'))
                else:
                    d.update(mount=mount, root=root, path=MOUNT_PREFIX[mount] + _pct(name))
                out.append(d)
    return out
