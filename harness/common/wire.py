"""Wire codec shared with ocaml/driver.ml and coq/Lib/Wire.v.

value ::= int/bool -> I<int> | str -> T<n> codepoints | bytes -> T<n> bytes
        | list/tuple -> L<n> values | None -> L0
Decoding returns int, str (code points) and list.
"""


def _enc(v, out):
    if isinstance(v, bool):
        out.append('I1' if v else 'I0')
    elif isinstance(v, int):
        out.append('I%d' % v)
    elif isinstance(v, str):
        out.append('T%d' % len(v))
        out.extend(str(ord(c)) for c in v)
    elif isinstance(v, (bytes, bytearray)):
        out.append('T%d' % len(v))
        out.extend(str(b) for b in v)
    elif v is None:
        out.append('L0')
    elif isinstance(v, (list, tuple)):
        out.append('L%d' % len(v))
        for x in v:
            _enc(x, out)
    else:
        raise TypeError('cannot put %r on the wire' % (v,))


def encode_line(v):
    out = []
    _enc(v, out)
    return ' '.join(out)


def decode_line(s):
    toks = s.split()
    pos = [0]

    def parse():
        t = toks[pos[0]]
        pos[0] += 1
        k, n = t[0], int(t[1:])
        if k == 'I':
            return n
        if k == 'T':
            cs = toks[pos[0]:pos[0] + n]
            pos[0] += n
            return ''.join(chr(int(c)) for c in cs)
        if k == 'L':
            return [parse() for _ in range(n)]
        raise ValueError('bad token %r' % t)

    v = parse()
    if pos[0] != len(toks):
        raise ValueError('trailing tokens')
    return v


def canon(v):
    """JSON-like canonical form used for comparing observations."""
    if isinstance(v, bool):
        return int(v)
    if isinstance(v, (bytes, bytearray)):
        return v.decode('latin-1')
    if isinstance(v, (list, tuple)):
        return [canon(x) for x in v]
    if v is None:
        return []
    return v
