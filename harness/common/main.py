"""./check <ID> [--tier quick|thorough] [--replay FILE] [--seed N]

Pipeline (DESIGN.md 1.1): facts -> proof obligations -> model runner ->
correspondence (corpus first) -> verdict (+ violation search) -> evidence.
"""
import argparse
import hashlib
import importlib
import json
import os
import random
import subprocess
import sys
import time
import traceback

from . import build
from .wire import encode_line, decode_line, canon

VERIF = build.VERIF


# ---------------------------------------------------------------- runner
class Runner:
    def __init__(self, path):
        self.path = path
        self.p = None

    def batch(self, wires, shards=8):
        """Evaluate many wire values; returns decoded outputs in order."""
        if not wires:
            return []
        n = len(wires)
        shards = max(1, min(shards, n // 200 + 1))
        chunks = [wires[i::shards] for i in range(shards)]
        procs = []
        for k, ch in enumerate(chunks):
            inp = os.path.join(os.path.dirname(self.path), 'in.%d.%d' % (os.getpid(), k))
            with open(inp, 'w') as f:
                for w in ch:
                    f.write(encode_line(w) + '\n')
            fi = open(inp)
            procs.append((subprocess.Popen(['bash', '-c', 'ulimit -s unlimited 2>/dev/null; exec "$0"', self.path],
                                           stdin=fi, stdout=subprocess.PIPE), fi, inp))
        outs = []
        for p, fi, inp in procs:
            data = p.communicate()[0].decode()
            fi.close()
            os.remove(inp)
            outs.append([decode_line(l) for l in data.split('\n') if l.strip()])
        res = [None] * n
        for k, o in enumerate(outs):
            if len(o) != len(chunks[k]):
                raise RuntimeError('model runner produced %d answers for %d cases' % (len(o), len(chunks[k])))
            res[k::shards] = o
        return res

    def one(self, wire):
        if self.p is None or self.p.poll() is not None:
            self.p = subprocess.Popen(['bash', '-c', 'ulimit -s unlimited 2>/dev/null; exec "$0"', self.path],
                                      stdin=subprocess.PIPE, stdout=subprocess.PIPE)
        self.p.stdin.write((encode_line(wire) + '\n').encode())
        self.p.stdin.flush()
        return decode_line(self.p.stdout.readline().decode())

    def close(self):
        if self.p is not None:
            try:
                self.p.stdin.close()
                self.p.wait(timeout=5)
            except Exception:
                self.p.kill()


# ---------------------------------------------------------------- helpers
def jdump(v):
    return json.dumps(v, sort_keys=True, ensure_ascii=True, default=repr)


def case_key(case):
    return hashlib.sha1(jdump(case).encode()).hexdigest()


def load_corpus(pid):
    d = os.path.join(VERIF, 'corpus', pid.lower())
    out = []
    if os.path.isdir(d):
        for fn in sorted(os.listdir(d)):
            if fn.endswith('.json'):
                with open(os.path.join(d, fn)) as f:
                    j = json.load(f)
                cs = j['cases'] if isinstance(j, dict) and 'cases' in j else [j.get('case', j)]
                out += cs
    return out


def load_known(pid):
    p = os.path.join(VERIF, 'known_findings.json')
    if not os.path.exists(p):
        return []
    with open(p) as f:
        return [e for e in json.load(f)['findings'] if e['property'] == pid]


def generic_shrinks(v):
    """Structural shrink candidates of a JSON-like value (smaller first)."""
    if isinstance(v, list):
        for i in range(len(v)):
            yield v[:i] + v[i + 1:]
        for i in range(len(v)):
            for s in generic_shrinks(v[i]):
                yield v[:i] + [s] + v[i + 1:]
    elif isinstance(v, dict):
        for k in sorted(v):
            for s in generic_shrinks(v[k]):
                d = dict(v)
                d[k] = s
                yield d
    elif isinstance(v, str):
        if v:
            for i in range(len(v)):
                yield v[:i] + v[i + 1:]
            for i, c in enumerate(v):
                if c != 'a' and c.isalnum():
                    yield v[:i] + 'a' + v[i + 1:]
    elif isinstance(v, bool):
        return
    elif isinstance(v, int):
        if v != 0:
            yield 0
            if abs(v) > 1:
                yield v // 2


class Eval:
    """Evaluates one case on implementation, model and spec."""

    def __init__(self, prop, runner):
        self.prop, self.runner = prop, runner

    def impl(self, case):
        try:
            return canon(self.prop.run_impl(case))
        except Exception as e:  # harness-level failure: keep it visible
            return ['HARNESS-EXC', type(e).__name__, str(e)[:200]]

    def model(self, case):
        if self.runner is None:
            return None, None
        raw = self.runner.one(self.prop.to_wire(case))
        d = self.prop.from_wire(case, raw)
        return canon(d.get('model')), (canon(d['spec']) if d.get('spec') is not None else None)


_POOL_PROP = None


def _pool_impl(case):
    return Eval(_POOL_PROP, None).impl(case)


def judge(prop, case, obs, model, spec):
    """-> (corr_ok, spec_ok)  spec_ok is None when the property does not constrain the case."""
    corr_ok = (model is None) or (obs == model) or bool(getattr(prop, 'equiv', lambda c, a, b: False)(case, obs, model))
    if hasattr(prop, 'spec_holds'):
        spec_ok = prop.spec_holds(case, obs, spec)
    elif spec is None:
        spec_ok = None
    else:
        spec_ok = (obs == spec)
    return corr_ok, spec_ok


# ---------------------------------------------------------------- main
def main(argv=None):
    ap = argparse.ArgumentParser()
    ap.add_argument('pid')
    ap.add_argument('--tier', default=os.environ.get('VERIF_TIER', 'quick'))
    ap.add_argument('--replay')
    ap.add_argument('--seed', type=int, default=int(os.environ.get('VERIF_SEED', '20260930')))
    ap.add_argument('--cases', type=int, default=None)
    args = ap.parse_args(argv)
    pid = args.pid.upper()
    tier = args.tier if args.tier in ('quick', 'thorough') else 'quick'
    t0 = time.time()
    os.makedirs(os.path.join(VERIF, 'evidence'), exist_ok=True)
    os.makedirs(os.path.join(VERIF, 'replays'), exist_ok=True)
    broken = []      # broken ties: facts / proof / model build / import
    prop = None
    try:
        prop = importlib.import_module('harness.%s.prop' % pid.lower())
    except Exception as e:
        broken.append({'kind': 'harness-import-failed', 'message': traceback.format_exc()[-1500:]})
        return finish(pid, tier, args.seed, t0, None, broken, [], {}, None)

    # 1. facts (also of the properties whose models this one imports: DEPENDS = ['C04', ...])
    facts_summary = {}
    for dep in getattr(prop, 'DEPENDS', ()):
        try:
            dprop = importlib.import_module('harness.%s.prop' % dep.lower())
            dfr = dprop.facts(build.SRC)
            build.write_if_changed(os.path.join(build.COQ, 'Gen', 'Facts_%s.v' % dep), dfr['coq'])
            for pr in dfr.get('problems', []):
                broken.append({'kind': 'facts(%s)' % dep, 'message': pr})
        except Exception:
            broken.append({'kind': 'facts-extractor-failed(%s)' % dep, 'message': traceback.format_exc()[-1500:]})
    try:
        fr = prop.facts(build.SRC)
        build.write_if_changed(os.path.join(build.COQ, 'Gen', 'Facts_%s.v' % pid), fr['coq'])
        facts_summary = fr.get('summary', {})
        for pr in fr.get('problems', []):
            broken.append({'kind': 'facts', 'message': pr})
    except Exception:
        broken.append({'kind': 'facts-extractor-failed', 'message': traceback.format_exc()[-1500:]})

    # 2. proof
    proof = build.build_props(pid, allowed_axioms=getattr(prop, 'ALLOWED_AXIOMS', ()),
                              timeout=getattr(prop, 'PROOF_TIMEOUT', 1500))
    for b in proof['broken']:
        broken.append(dict(b, kind='proof:' + b.get('kind', '?')))
    if tier == 'thorough' and proof['ok'] and not args.replay:
        ck = build.coqchk(pid, allowed_axioms=getattr(prop, 'ALLOWED_AXIOMS', ()))
        proof['coqchk'] = ck
        if not ck['ok']:
            broken.append({'kind': 'proof:coqchk', 'message': ck['tail'], 'detail': ck['axioms']})

    # 3. runner
    runner_path, rinfo = build.build_runner(pid)
    runner = Runner(runner_path) if runner_path else None
    if runner is None:
        broken.append(rinfo)

    if args.replay:
        return replay(prop, runner, args.replay)

    # 4. correspondence
    try:
        if hasattr(prop, 'setup'):
            prop.setup(tier)
    except Exception:
        broken.append({'kind': 'implementation-import-failed', 'message': traceback.format_exc()[-1500:]})
        return finish(pid, tier, args.seed, t0, prop, broken, [], {'proof': proof, 'facts': facts_summary}, runner)

    rng = random.Random(args.seed)
    corpus = load_corpus(pid)
    known = load_known(pid)
    for e in known:
        for c in e.get('witnesses', []):
            corpus.append(c)
    ncases = args.cases or prop.CASES[tier]
    cases = list(corpus)
    seen = set(case_key(c) for c in cases)
    for c in prop.generate(rng, tier, ncases):
        k = case_key(c)
        if k in seen:
            continue
        seen.add(k)
        cases.append(c)
    stats = run_cases(prop, runner, cases, known, tier)
    stats['corpus_cases'] = len(corpus)

    # extra search when a tie is broken but nothing failed yet
    if (broken or stats['disagreements']) and not stats['violations']:
        extra = []
        try:
            extra = list(prop.targeted(broken, stats['disagreements'], rng)) if hasattr(prop, 'targeted') else []
        except Exception:
            extra = []
        more = list(prop.generate(random.Random(args.seed + 1), 'thorough' if tier == 'thorough' else 'quick',
                                  ncases * (2 if tier == 'quick' else 1)))
        extra_cases = []
        for c in extra + more:
            k = case_key(c)
            if k not in seen:
                seen.add(k)
                extra_cases.append(c)
        st2 = run_cases(prop, runner, extra_cases, known, tier)
        stats['search_evaluations'] = st2['evaluations']
        stats['violations'] += st2['violations']
        stats['disagreements'] += st2['disagreements']
        stats['known_hits'].update(st2['known_hits'])

    return finish(pid, tier, args.seed, t0, prop, broken, known,
                  dict(stats, proof=proof, facts=facts_summary), runner)


def run_cases(prop, runner, cases, known, tier):
    ev = Eval(prop, runner)
    open_ids = {e['id'] for e in known if e.get('status') == 'open'}
    t0 = time.time()
    # model side in one batch
    wires = [prop.to_wire(c) for c in cases]
    raws = runner.batch(wires) if runner is not None else [None] * len(cases)
    t_model = time.time() - t0
    t1 = time.time()
    impl_outs = None
    if getattr(prop, 'PARALLEL', False) and len(cases) >= 400:
        import multiprocessing as mp
        global _POOL_PROP
        _POOL_PROP = prop
        ctx = mp.get_context('fork')
        with ctx.Pool(min(12, os.cpu_count() or 4)) as pool:
            impl_outs = pool.map(_pool_impl, cases, chunksize=max(1, len(cases) // 96))
    else:
        impl_outs = [ev.impl(c) for c in cases]
    t_impl = time.time() - t1
    st = {'evaluations': len(cases), 'nontrivial_keys': set(), 'kinds': {}, 'disagreements': [],
          'violations': [], 'known_hits': {}, 'samples': [], 't_model': t_model, 't_impl': t_impl,
          'spec_checked': 0}
    for c, raw, obs in zip(cases, raws, impl_outs):
        if raw is not None:
            d = prop.from_wire(c, raw)
            model = canon(d.get('model'))
            spec = canon(d['spec']) if d.get('spec') is not None else None
        else:
            model, spec = None, None
        corr_ok, spec_ok = judge(prop, c, obs, model, spec)
        for k in prop.kinds(c, obs):
            st['kinds'][k] = st['kinds'].get(k, 0) + 1
        if prop.nontrivial(c, obs):
            st['nontrivial_keys'].add(case_key(c))
        if spec_ok is not None:
            st['spec_checked'] += 1
        if len(st['samples']) < 3 and prop.nontrivial(c, obs):
            st['samples'].append({'case': prop.describe(c), 'observed': obs})
        if spec_ok is False:
            fid = prop.classify(c, obs, spec) if hasattr(prop, 'classify') else None
            if fid is not None and fid in open_ids:
                st['known_hits'][fid] = st['known_hits'].get(fid, 0) + 1
                if not corr_ok:
                    st['disagreements'].append({'case': c, 'impl': obs, 'model': model, 'spec': spec})
                continue
            st['violations'].append({'case': c, 'impl': obs, 'model': model, 'spec': spec})
        elif not corr_ok:
            st['disagreements'].append({'case': c, 'impl': obs, 'model': model, 'spec': spec})
    return st


def shrink(prop, runner, item, still_bad, budget=400):
    ev = Eval(prop, runner)
    case = item['case']
    shr = getattr(prop, 'shrinks', generic_shrinks)
    improved = True
    while improved and budget > 0:
        improved = False
        for cand in shr(case):
            budget -= 1
            if budget <= 0:
                break
            try:
                if hasattr(prop, 'valid') and not prop.valid(cand):
                    continue
                obs = ev.impl(cand)
                model, spec = ev.model(cand)
            except Exception:
                continue
            if obs and isinstance(obs, list) and obs[0] == 'HARNESS-EXC':
                continue
            if still_bad(cand, obs, model, spec):
                case = cand
                item = {'case': cand, 'impl': obs, 'model': model, 'spec': spec}
                improved = True
                break
    return item


def write_replay(pid, kind, payload):
    h = hashlib.sha1(jdump(payload).encode()).hexdigest()[:12]
    path = os.path.join(VERIF, 'replays', '%s-%s.json' % (pid, h))
    payload = dict(payload, property=pid, kind=kind,
                   replay_cmd='cd /verif && ./check %s --replay %s' % (pid, path))
    with open(path, 'w') as f:
        json.dump(payload, f, indent=1, sort_keys=True, default=repr)
    return path


def finish(pid, tier, seed, t0, prop, broken, known, stats, runner):
    lines = []
    violations = stats.get('violations', []) if stats else []
    disagreements = stats.get('disagreements', []) if stats else []
    open_known = [e for e in known if e.get('status') == 'open']
    nviol = 0
    if violations:
        # shrink and report up to 3 distinct failing inputs
        reported = 0
        seen = set()
        for item in violations:
            if reported >= 3:
                break
            def still(c, o, m, s, _p=prop):
                co, so = judge(_p, c, o, m, s)
                if so is not False:
                    return False
                fid = _p.classify(c, o, s) if hasattr(_p, 'classify') else None
                return fid is None or fid not in {e['id'] for e in open_known}
            try:
                small = shrink(prop, runner, item, still)
            except Exception:
                small = item
            k = case_key(small['case'])
            if k in seen:
                continue
            seen.add(k)
            path = write_replay(pid, 'property-fails-on-implementation',
                                {'case': small['case'], 'observed': small['impl'],
                                 'expected_by_spec': small['spec'], 'model': small['model'],
                                 'broken_ties': broken,
                                 'explain': prop.explain(small) if hasattr(prop, 'explain') else None})
            lines.append('VIOLATION property=%s replay=%s' % (pid, path))
            reported += 1
        nviol = len(violations)
    elif broken or disagreements:
        item = None
        if disagreements:
            def still(c, o, m, s, _p=prop):
                co, so = judge(_p, c, o, m, s)
                return not co
            try:
                item = shrink(prop, runner, disagreements[0], still)
            except Exception:
                item = disagreements[0]
        payload = {'broken_ties': broken,
                   'no_longer_checks': [b.get('lemma') or b.get('kind') for b in broken] or ['correspondence'],
                   'correspondence_disagreement': item,
                   'searched': {'evaluations': stats.get('evaluations', 0) + stats.get('search_evaluations', 0)},
                   'note': 'the property is no longer shown to hold; no input on which it fails was found'}
        path = write_replay(pid, 'tie-broken', payload)
        lines.append('VIOLATION property=%s replay=%s no-failing-input-found' % (pid, path))
        nviol = 1
    # known findings (only meaningful when nothing else is wrong with them)
    hits = stats.get('known_hits', {}) if stats else {}
    for e in open_known:
        if hits.get(e['id']):
            print('KNOWN-FINDING: property=%s %s' % (pid, e['what']))
        else:
            print('note: known finding %s of %s was not reproduced by this run' % (e['id'], pid))
    write_evidence(pid, tier, seed, t0, prop, broken, stats or {}, nviol)
    if runner is not None:
        runner.close()
    for ln in lines:
        print(ln)
    if not lines:
        pr = stats.get('proof', {})
        print('OK property=%s tier=%s obligations=%s/%s evaluations=%s nontrivial=%s wall=%.1fs' % (
            pid, tier, pr.get('discharged'), pr.get('obligations'), stats.get('evaluations'),
            len(stats.get('nontrivial_keys', ())), time.time() - t0))
    sys.stdout.flush()
    return 1 if lines else 0


def write_evidence(pid, tier, seed, t0, prop, broken, stats, nviol):
    pr = stats.get('proof', {})
    tb = list(getattr(prop, 'TRUSTED', [])) if prop else []
    tb = ['Coq 8.16.1 kernel (coqc, vm_compute; no native_compute)',
          'axioms reported by Print Assumptions: %s' % (sorted(set(pr.get('axioms', []))) or 'none (closed under the global context)'),
          'facts extractor (Python ast, fail-closed)', 'Coq extraction (ExtrOcamlBasic only, no Extract Constant) + OCaml 4.13.1 + ocaml/driver.ml',
          'correspondence harness (Python, differential testing against /repo/src)'] + tb
    cov = {
        'obligations': pr.get('obligations', 0),
        'discharged': pr.get('discharged', 0),
        'checker_cmd': pr.get('checker_cmd', 'make -C /verif/coq Props/%s.vo' % pid),
        'trusted_base': tb,
        'theorems': pr.get('theorems', []),
        'evaluations': stats.get('evaluations', 0) + stats.get('search_evaluations', 0),
        'distinct_nontrivial': len(stats.get('nontrivial_keys', ())),
        'rule': getattr(prop, 'RULE', '') if prop else '',
        'samples': stats.get('samples', []) or [{'note': 'no case was run'}],
        'traces_validated_against_impl': stats.get('evaluations', 0),
        'spec_predicate_checked_on_impl': stats.get('spec_checked', 0),
        'corpus_cases': stats.get('corpus_cases', 0),
        'input_distribution': stats.get('kinds', {}),
        'correspondence_disagreements': len(stats.get('disagreements', [])),
        'known_finding_hits': stats.get('known_hits', {}),
        'facts': stats.get('facts', {}),
        'broken_ties': broken,
        'time_model_s': round(stats.get('t_model', 0), 2),
        'time_impl_s': round(stats.get('t_impl', 0), 2),
        'time_proof_s': round(pr.get('wall', 0), 2),
        'coqchk': {k: v for k, v in pr.get('coqchk', {}).items() if k != 'tail'} or 'not run in this tier',
        'exhaustive': False,
    }
    try:
        if prop is not None and hasattr(prop, 'evidence_extra'):
            cov.update(prop.evidence_extra(stats, tier) or {})
    except Exception:
        pass
    ev = {'property_id': pid, 'tier': tier, 'seed': seed, 'level': 'proof', 'coverage': cov,
          'assumptions': list(getattr(prop, 'ASSUMPTIONS', [])) if prop else [],
          'wall_s': round(time.time() - t0, 2), 'violations': nviol}
    evdir = os.environ.get('VERIF_EVIDENCE_DIR') or os.path.join(VERIF, 'evidence')
    os.makedirs(evdir, exist_ok=True)
    with open(os.path.join(evdir, pid + '.json'), 'w') as f:
        json.dump(ev, f, indent=1, sort_keys=True, default=repr)


def replay(prop, runner, path):
    with open(path) as f:
        j = json.load(f)
    case = j.get('case') or (j.get('correspondence_disagreement') or {}).get('case')
    if case is None:
        print('replay file names broken ties only:', jdump(j.get('no_longer_checks')))
        return 1
    if hasattr(prop, 'setup'):
        prop.setup('quick')
    ev = Eval(prop, runner)
    obs = ev.impl(case)
    model, spec = ev.model(case)
    corr_ok, spec_ok = judge(prop, case, obs, model, spec)
    print('case     :', jdump(case))
    print('impl     :', jdump(obs))
    print('model    :', jdump(model))
    print('spec     :', jdump(spec))
    print('agree    :', corr_ok, ' property holds on impl:', spec_ok)
    if hasattr(prop, 'classify') and spec_ok is False:
        print('classified as known finding:', prop.classify(case, obs, spec))
    return 0 if (corr_ok and spec_ok is not False) else 1


if __name__ == '__main__':
    sys.exit(main())
