"""Facts generation, Coq build, proof-obligation accounting, runner build."""
import fcntl
import os
import re
import subprocess
import time

VERIF = os.path.dirname(os.path.dirname(os.path.dirname(os.path.abspath(__file__))))
COQ = os.path.join(VERIF, 'coq')
BUILD = os.path.join(VERIF, 'build')
REPO = os.environ.get('VERIF_REPO', '/repo')
SRC = os.path.join(REPO, 'src')

FORBIDDEN = re.compile(
    r'\bAdmitted\b|\badmit\b|\bAxiom\b|\bAxioms\b|\bParameter\b|\bParameters\b|\bConjecture\b'
    r'|Unset\s+Guard|bypass_check|Admit\s+Obligations|type-in-type|impredicative-set'
    r'|Unset\s+Positivity|Unset\s+Universe\s+Checking|native_compute')


def sh(cmd, timeout, cwd=None, env=None):
    t0 = time.time()
    try:
        p = subprocess.run(cmd, shell=isinstance(cmd, str), cwd=cwd, env=env,
                           stdout=subprocess.PIPE, stderr=subprocess.STDOUT,
                           timeout=timeout)
        return p.returncode, p.stdout.decode('utf-8', 'replace'), time.time() - t0
    except subprocess.TimeoutExpired as e:
        out = (e.stdout or b'').decode('utf-8', 'replace')
        return 124, out + '\n[timeout after %ss]' % timeout, time.time() - t0


class Lock:
    """flock-based lock.  The global lock (name None) only guards the short dependency phase
    (_CoqProject/Makefile/.Makefile.d); builds run under per-owner locks (see make): exclusive on the
    owner whose files are being (re)built, shared on the owners whose .vo files are only read."""

    def __init__(self, name=None, shared=False):
        self.name = name
        self.shared = shared

    def __enter__(self):
        fn = '.build.lock' if self.name is None else os.path.join('build', '.lock.' + self.name)
        os.makedirs(os.path.join(VERIF, 'build'), exist_ok=True)
        self.f = open(os.path.join(VERIF, fn), 'a')
        fcntl.flock(self.f, fcntl.LOCK_SH if self.shared else fcntl.LOCK_EX)
        return self

    def __exit__(self, *a):
        fcntl.flock(self.f, fcntl.LOCK_UN)
        self.f.close()


def write_if_changed(path, text):
    """Write atomically (temp file + rename) and only when the content differs, so that a concurrent
    reader never sees a partial file and an unchanged file keeps its mtime (no rebuild)."""
    try:
        with open(path) as f:
            if f.read() == text:
                return False
    except FileNotFoundError:
        pass
    os.makedirs(os.path.dirname(path), exist_ok=True)
    tmp = '%s.tmp.%d' % (path, os.getpid())
    with open(tmp, 'w') as f:
        f.write(text)
    os.replace(tmp, path)
    return True


def scan_forbidden():
    hits = []
    for d, _, fs in os.walk(COQ):
        for fn in fs:
            if fn.endswith('.v'):
                p = os.path.join(d, fn)
                with open(p) as f:
                    for i, line in enumerate(f, 1):
                        if FORBIDDEN.search(line):
                            hits.append('%s:%d: %s' % (os.path.relpath(p, VERIF), i, line.strip()))
    return hits


def ensure_makefile():
    """(Re)generate _CoqProject/Makefile when the set of .v files changed."""
    files = []
    for sub in ('Lib', 'Gen', 'Model', 'Proofs', 'Props', 'Extract'):
        d = os.path.join(COQ, sub)
        if os.path.isdir(d):
            files += sorted(os.path.join(sub, f) for f in os.listdir(d) if f.endswith('.v'))
    text = '-R . Verif\n' + '\n'.join(files) + '\n'
    changed = write_if_changed(os.path.join(COQ, '_CoqProject'), text)
    if changed or not os.path.exists(os.path.join(COQ, 'Makefile')):
        rc, out, _ = sh('coq_makefile -f _CoqProject -o Makefile', 120, cwd=COQ)
        if rc != 0:
            raise RuntimeError('coq_makefile failed:\n' + out)


def locate_error(log):
    """Map the first coqc error in a make log to (file, line, enclosing lemma, message)."""
    m = re.search(r'File "\./([^"]+)", line (\d+), characters [^\n]*\n(Error[^\n]*(?:\n(?!make|File|COQC)[^\n]*){0,12})', log)
    if not m:
        return None
    fn, line, msg = m.group(1), int(m.group(2)), m.group(3).strip()
    name = None
    try:
        with open(os.path.join(COQ, fn)) as f:
            src = f.read().split('\n')
        for i in range(min(line, len(src)) - 1, -1, -1):
            mm = re.match(r'\s*(?:Theorem|Lemma|Corollary|Example|Definition|Fixpoint|Fact|Remark|Proposition)\s+([A-Za-z0-9_\']+)', src[i])
            if mm:
                name = mm.group(1)
                break
    except OSError:
        pass
    return {'file': fn, 'line': line, 'lemma': name, 'message': msg[:1500]}


def owner_of(path):
    """The property a file of the Coq tree belongs to (Cxx in its base name), or 'LIB'."""
    m = re.search(r'C\d\d', os.path.basename(path))
    return m.group(0) if m else 'LIB'


def vo_closure(targets):
    """Transitive .vo prerequisites of the targets, read from .Makefile.d."""
    deps = {}
    try:
        with open(os.path.join(COQ, '.Makefile.d')) as f:
            for line in f:
                if ':' not in line:
                    continue
                lhs, rhs = line.split(':', 1)
                outs = lhs.split()
                if not outs or not outs[0].endswith('.vo'):
                    continue
                deps[outs[0]] = [d for d in rhs.split() if d.endswith('.vo')]
    except OSError:
        return set()
    seen, todo = set(), list(targets)
    while todo:
        t = todo.pop()
        for d in deps.get(t, []):
            if d not in seen:
                seen.add(d)
                todo.append(d)
    return seen


def make(targets, timeout=1500, jobs=8):
    """make the targets so that concurrent checks of DIFFERENT properties never write a .vo another one
    is reading: prerequisites owned by other properties (and Lib) are brought up to date first, each under
    its owner's exclusive lock; the targets themselves are then built under the own exclusive lock while
    shared locks are held on every other owner (locks always taken in sorted order: no deadlock)."""
    with Lock():
        ensure_makefile()
        sh('make .Makefile.d', 300, cwd=COQ)
    name = os.path.basename(targets[0]).split('.')[0].split('_')[0] if targets else 'misc'
    by_owner = {}
    for d in vo_closure(targets):
        o = owner_of(d)
        if o != name:
            by_owner.setdefault(o, []).append(d)
    # owners in dependency order (an owner's files may need another owner's: build that one first)
    needs = {o: {owner_of(d) for d in vo_closure(fs)} - {o} for o, fs in by_owner.items()}
    order, left = [], set(by_owner)
    while left:
        ready = sorted(o for o in left if not (needs[o] & left)) or sorted(left)
        order.append(ready[0])
        left.discard(ready[0])
    for o in order:
        with Lock(o):
            sh('ulimit -v 24000000; make -j%d %s' % (jobs, ' '.join(sorted(by_owner[o]))), timeout, cwd=COQ)
    held = []
    try:
        for o in sorted(set(by_owner) | {name}):
            l = Lock(o, shared=(o != name))
            l.__enter__()
            held.append(l)
        return sh('ulimit -v 24000000; make -j%d %s' % (jobs, ' '.join(targets)), timeout, cwd=COQ)
    finally:
        for l in reversed(held):
            l.__exit__()


def theorem_names(pid):
    with open(os.path.join(COQ, 'Props', pid + '.v')) as f:
        src = f.read()
    src = re.sub(r'\(\*.*?\*\)', '', src, flags=re.S)
    return re.findall(r'^\s*Theorem\s+([A-Za-z0-9_\']+)', src, flags=re.M)


def parse_assumptions(log):
    """Return list of per-Print-Assumptions results in order: 'closed' or list of axiom names."""
    res = []
    lines = log.split('\n')
    i = 0
    while i < len(lines):
        ln = lines[i]
        if 'Closed under the global context' in ln:
            res.append('closed')
            i += 1
        elif ln.startswith('Axioms:') or ln.startswith('Section Variables:'):
            names = []
            i += 1
            while i < len(lines):
                l2 = lines[i]
                if l2.startswith('Axioms:'):
                    i += 1
                    continue
                if l2.startswith((' ', '\t')) and l2.strip():
                    i += 1
                    continue
                mm = re.match(r'^([A-Za-z_][A-Za-z0-9_\.\']*)\s*:', l2)
                if mm and not l2.startswith(('COQC', 'make', 'File ')):
                    names.append(mm.group(1))
                    i += 1
                    continue
                break
            res.append(names)
        else:
            i += 1
    return res


def build_props(pid, allowed_axioms=(), timeout=1500):
    """Compile Props/<pid>.v (always re-checked) and account for obligations.

    Returns dict(ok, obligations, discharged, theorems, broken:[...], axioms, log_tail, wall)."""
    t0 = time.time()
    res = {'ok': False, 'obligations': 0, 'discharged': 0, 'theorems': [], 'broken': [],
           'axioms': [], 'checker_cmd': 'make -C /verif/coq Props/%s.vo  (coqc 8.16.1, full .vo build)' % pid}
    hits = scan_forbidden()
    if hits:
        res['broken'].append({'kind': 'forbidden-token', 'detail': hits[:5]})
    names = theorem_names(pid)
    res['theorems'] = names
    res['obligations'] = len(names)
    for ext in ('.vo', '.vok', '.vos', '.glob'):
        try:
            os.remove(os.path.join(COQ, 'Props', pid + ext))
        except FileNotFoundError:
            pass
    rc, out, _ = make(['Props/%s.vo' % pid], timeout=timeout)
    res['log_tail'] = out[-3000:]
    if rc != 0:
        loc = locate_error(out) or {'file': None, 'lemma': None, 'message': out[-800:]}
        loc['kind'] = 'coqc-error' if rc != 124 else 'coqc-timeout'
        res['broken'].append(loc)
        res['wall'] = time.time() - t0
        return res
    pa = parse_assumptions(out)
    if len(pa) < len(names):
        # somebody else's make compiled the file between our rm and make: re-check it directly
        rc2, out2, _ = sh('ulimit -v 24000000; coqc -q -R . Verif Props/%s.v' % pid, timeout, cwd=COQ)
        if rc2 == 0:
            pa = parse_assumptions(out2)
            res['log_tail'] = out2[-3000:]
    bad_ax = []
    closed = 0
    for r in pa:
        if r == 'closed':
            closed += 1
        else:
            extra = [a for a in r if a not in allowed_axioms]
            res['axioms'] += [a for a in r if a in allowed_axioms]
            if extra:
                bad_ax += extra
            else:
                closed += 1
    if bad_ax:
        res['broken'].append({'kind': 'unexpected-axiom', 'detail': sorted(set(bad_ax))})
    if len(pa) < len(names):
        res['broken'].append({'kind': 'missing-print-assumptions',
                              'detail': '%d theorems, %d Print Assumptions outputs' % (len(names), len(pa))})
    res['discharged'] = min(closed, len(names)) if not res['broken'] else 0
    res['ok'] = not res['broken'] and res['discharged'] == res['obligations'] and res['obligations'] > 0
    res['wall'] = time.time() - t0
    return res


def build_runner(pid, timeout=600):
    """Extract Model/<pid> to OCaml and link it with the generic driver."""
    t0 = time.time()
    out_dir = os.path.join(BUILD, pid)
    os.makedirs(out_dir, exist_ok=True)
    for ext in ('.vo', '.vok', '.vos', '.glob'):
        try:
            os.remove(os.path.join(COQ, 'Extract', pid + ext))
        except FileNotFoundError:
            pass
    rc, out, _ = make(['Extract/%s.vo' % pid], timeout=timeout)
    if rc != 0:
        return None, {'kind': 'model-build-failed', **(locate_error(out) or {'message': out[-800:]})}
    with Lock(pid):
        for ext in ('.ml', '.mli'):
            with open(os.path.join(COQ, pid + '_model' + ext)) as f:
                write_if_changed(os.path.join(out_dir, 'model' + ext), f.read())
        with open(os.path.join(VERIF, 'ocaml', 'driver.ml')) as f:
            write_if_changed(os.path.join(out_dir, 'driver.ml'), f.read())
        runner = os.path.join(out_dir, 'runner')
        rc, out, _ = sh('ocamlfind ocamlopt -O3 -w -a model.mli model.ml driver.ml -o runner 2>&1 || '
                        'ocamlfind ocamlopt -w -a model.mli model.ml driver.ml -o runner', 300, cwd=out_dir)
    if rc != 0 or not os.path.exists(runner):
        return None, {'kind': 'runner-build-failed', 'message': out[-800:]}
    return runner, {'wall': time.time() - t0}


def coqchk(pid, allowed_axioms=(), timeout=1500):
    """Independent re-check of Props/<pid>.vo and everything it depends on (thorough tier)."""
    with Lock():
        pass  # only make sure no build is half-way; coqchk itself reads .vo files
    rc, out, wall = sh('coqchk -silent -o -R . Verif Verif.Props.%s' % pid, timeout, cwd=COQ)
    res = {'rc': rc, 'wall': round(wall, 1), 'axioms': [], 'ok': False, 'tail': out[-1500:]}
    if rc != 0:
        return res
    m = re.search(r'\* Axioms:(.*?)\n\s*\n\* Constants', out, flags=re.S)
    axioms = []
    if m:
        body = m.group(1).strip()
        if body and body != '<none>':
            axioms = [l.strip() for l in body.split('\n') if l.strip()]
    res['axioms'] = axioms
    flags_clean = all(re.search(re.escape(k) + r':\s*<none>', out) for k in
                      ('relying on type-in-type', 'relying on unsafe (co)fixpoints', 'positivity is assumed'))
    res['ok'] = flags_clean and all(any(a.endswith(x) or x in a for x in allowed_axioms) for a in axioms)
    return res
