"""Regenerate every Gen/Facts_*.v from /repo and (re)generate the Coq Makefile."""
import importlib
import os
import sys
import traceback
from . import build


def props():
    d = os.path.join(build.VERIF, 'harness')
    return sorted(n.upper() for n in os.listdir(d)
                  if n.startswith('c') and n[1:].isdigit() and os.path.exists(os.path.join(d, n, 'prop.py')))


def main():
    rc = 0
    for pid in props():
        try:
            prop = importlib.import_module('harness.%s.prop' % pid.lower())
            fr = prop.facts(build.SRC)
            build.write_if_changed(os.path.join(build.COQ, 'Gen', 'Facts_%s.v' % pid), fr['coq'])
            for p in fr.get('problems', []):
                print('facts %s: %s' % (pid, p))
        except Exception:
            traceback.print_exc()
            rc = 1
    build.ensure_makefile()
    return rc


if __name__ == '__main__':
    sys.exit(main())
