"""C03 translator: Python ast of the lookup / predicate code -> Gallina definitions gen_*, re-run on every
check (prop.facts) and emitted into coq/Gen/Facts_C03_gen.v (a second generated file: the generated program
uses the types of Model/C03.v, which itself uses the constants of Gen/Facts_C03.v).

Fail-closed: a statement outside the SUBSET, an expression outside the PRIMITIVE TABLE, a typing surprise ->
Problem; the caller records it as a broken tie and emits the stored fallback text (gen_fallback.json: the
translation of the text the hand-written model was written against) so that the Coq files still type-check.

=== CONTROL FLOW (translated mechanically, continuation-passing; adapted from harness/c11/translate.py) =====
  block s1; s2; ...     the translation of s1 receives the translation of the rest as its continuation
  for T in E: B ; rest  (fix loopN (lN : list elem) [(iN : Z)] (c_v.. : carried) {struct lN} : ret :=
                           match lN with [] => <rest> | x :: tN => <B> end) E [0] v..
                        carried = variables assigned in B that are bound at loop entry (first-occurrence order);
                        `for i, T in enumerate(E)` adds the index iN (a Z, starting at 0, + 1 per iteration);
                        tuple targets bind the projections of the element type (PROJ table)
     continue / end of B   recursive call on the tail with the current values of the carried variables
     break                 <rest> with the current values;   return e -> e (through the function's result map)
     raise X(..)           the function's value for that exception (RAISE map of the function)
  if c: A else: B ; rest  decision tree over the ATOMS of c (`and`, `or`, `not` are split; each branch gets
                        its own copy of <rest>; a repeated test is resolved; equal branches collapse), so
                        `if a: if b: S`, `if a and b: S`, `elif` vs nested `else: if` give the same term
     x is None / x is not None   on a variable of an option type: match x with None => .. | Some b => .. end with x
                        rebound to b in the Some branch (Optional narrowing); on a value the table types as
                        plain None (an absent default argument) the test is decided statically
  try: S except E [as n]: H   S must contain exactly one MAY-RAISE call (table: calling a view / component /
                        predicate factory): match <call> with None => <H ; rest> | Some b => <S[call := b] ; rest> end
  v = e                 substitution (no let is emitted; names of locals do not occur in the output)
  v = None              v : option T, T fixed by the first later assignment (loop-carried or not)
  x.append(e) / x.extend(l)   x := x ++ [e] / x ++ l   (x a list created by [] in this function: no aliasing)
  with .. / statements that only write the lookup cache   skipped (CACHE entries of the table)
  all(f(x) for x in l)  forallb (fun x => f x) l
  int expressions       + - * // << >> | & on Z, len(l) -> Z.of_nat (length l)  (mechanical)

=== PRIMITIVE TABLE (trusted: each entry is a claim about Python / Pyramid / library semantics) ===========
  see ATTR, METHODS, CALLS, PROJ, IDIOMS below: every entry carries its claim as a comment.
"""
import ast
import json
import os

HERE = os.path.dirname(os.path.abspath(__file__))
FALLBACK = os.path.join(HERE, 'gen_fallback.json')


class Problem(Exception):
    pass


def u(node):
    try:
        return ast.unparse(node)
    except Exception:
        return '<%s>' % type(node).__name__


# every source function whose control flow is regenerated on each run (coverage audit; see tools/coverage_map.py)
TRANSLATED = [
    'pyramid/view.py:_find_views', 'pyramid/view.py:_call_view',
    'pyramid/config/predicates.py:sort_accept_offers', 'pyramid/config/predicates.py:sort_accept_offers.find_order_index',
    'pyramid/config/predicates.py:sort_accept_offers.offer_sort_key', 'pyramid/config/views.py:attr_wrapped_view', 'pyramid/config/views.py:MultiView.add', 'pyramid/config/views.py:MultiView.get_views', 'pyramid/config/views.py:MultiView.match',
    'pyramid/config/views.py:MultiView.__call__', 'pyramid/config/views.py:predicated_view',
    'pyramid/config/views.py:predicated_view.predicate_wrapper', 'pyramid/config/views.py:predicated_view.checker',
    'pyramid/config/predicates.py:PredicateList.make',
] + ['pyramid/predicates.py:%s.text' % c for c in (
    'XHRPredicate', 'RequestMethodPredicate', 'PathInfoPredicate', 'RequestParamPredicate', 'HeaderPredicate',
    'AcceptPredicate', 'ContainmentPredicate', 'MatchParamPredicate', 'PhysicalPathPredicate', 'IsAuthenticatedPredicate')
] + ['pyramid/predicates.py:RequestMethodPredicate.__init__', 'pyramid/predicates.py:RequestParamPredicate.__init__',
     'pyramid/predicates.py:HeaderPredicate.__init__', 'pyramid/predicates.py:PhysicalPathPredicate.__init__',
     'pyramid/predicates.py:MatchParamPredicate.__init__',
     'pyramid/predicates.py:CustomPredicate.phash', 'pyramid/predicates.py:Notted._notted_text', 'pyramid/predicates.py:Notted.phash',
] + ['pyramid/predicates.py:%s.__call__' % c for c in (
    'XHRPredicate', 'RequestMethodPredicate', 'PathInfoPredicate', 'RequestParamPredicate', 'HeaderPredicate',
    'AcceptPredicate', 'ContainmentPredicate', 'MatchParamPredicate', 'PhysicalPathPredicate',
    'IsAuthenticatedPredicate', 'CustomPredicate', 'Notted')]


# ------------------------------------------------------------------ types
def LIST(t):
    return 'list:' + t


def OPT(t):
    return 'opt:' + t


BASE_COQ = {'bool': 'bool', 'text': 'text', 'Z': 'Z', 'tag': 'N', 'iface': 'N', 'cls': 'N', 'reg': 'reg', 'entry': 'entry',
            'comp': 'component', 'result': 'result', 'pred': 'pred', 'offer': 'offer', 'vtype': 'vtype', 'unit': 'unit',
            'kvo': 'text * option text', 'kv': 'text * text', 'ifpair': 'N * N', 'offerq': 'offer', 'nval': 'bool * pval',
            'pval': 'pval', 'made': 'made', 'request': 'request', 'namefac': 'text', 'call': 'request -> option N', 'loc': 'text * list N',
            'key2': 'Z * Z', 'kwargs': 'kwargs', 'rawvals': 'list (bool * pval)', 'digest': 'text', 'triple': 'Z * list pred * text', 'hdr3': 'text * option text', 'hdr3t': 'text * option text', 'media': 'list (text * list entry)', 'mview': 'mview', 'split2': 'option (text * text)', 'regex': 'text'}


def coqty(t):
    if t.startswith('own:'):
        t = t[4:]
    if t.startswith('list:'):
        return 'list (%s)' % coqty(t[5:])
    if t.startswith('opt:'):
        return 'option (%s)' % coqty(t[4:])
    if t in BASE_COQ:
        return BASE_COQ[t]
    raise Problem('internal: type %s has no Coq counterpart' % t)


# python-side (never rendered) types
ERASED, NONE, TUPLE = 'erased', 'none', 'tuple'


# ------------------------------------------------------------------ terms
class Term:
    pass


class V(Term):
    def __init__(self, name):
        self.name = name

    def key(self):
        return ('V', self.name)


class K(Term):
    def __init__(self, text):
        self.text = text

    def key(self):
        return ('K', self.text)


class A(Term):
    def __init__(self, fn, args):
        self.fn, self.args = fn, list(args)

    def key(self):
        return ('A', self.fn) + tuple(a.key() for a in self.args)


class Lam(Term):
    def __init__(self, var, ty, body):
        self.var, self.ty, self.body = var, ty, body

    def key(self):
        return ('Lam', self.var, self.body.key())


class If(Term):
    def __init__(self, atom, t, e):
        self.atom, self.t, self.e = atom, t, e

    def key(self):
        return ('If', self.atom.key(), self.t.key(), self.e.key())


class MOpt(Term):
    def __init__(self, scrut, none, var, some):
        self.scrut, self.none, self.var, self.some = scrut, none, var, some

    def key(self):
        return ('MOpt', self.scrut.key(), self.none.key(), self.var, self.some.key())


class MPval(Term):
    """dispatch on the dynamic type of a predicate value: a tuple / list of str, a str, anything else"""
    def __init__(self, scrut, lvar, lterm, svar, sterm, other):
        self.scrut, self.lvar, self.lterm, self.svar, self.sterm, self.other = scrut, lvar, lterm, svar, sterm, other

    def key(self):
        return ('MPval', self.scrut.key(), self.lvar, self.lterm.key(), self.svar, self.sterm.key(), self.other.key())


class Loop:
    def __init__(self, n, elem_ty, ret_ty):
        self.n = n
        self.f, self.l, self.t, self.i = 'loop%d' % n, 'l%d' % n, 't%d' % n, 'i%d' % n
        self.elem_ty, self.ret_ty = elem_ty, ret_ty
        self.x = None
        self.carried = []
        self.use_index = False


class Fix(Term):
    def __init__(self, loop, nil, cons, it, init):
        self.loop, self.nil, self.cons, self.it, self.init = loop, nil, cons, it, list(init)

    def key(self):
        return ('Fix', self.loop.n, self.nil.key(), self.cons.key(), self.it.key()) + tuple(a.key() for a in self.init)


class Jump(Term):
    def __init__(self, loop, args):
        self.loop, self.args = loop, list(args)

    def key(self):
        return ('Jump', self.loop.n) + tuple(a.key() for a in self.args)


EMPTY_TEXT = '(@nil N)'


def text_lit(sv):
    if any(ord(c) > 0x10ffff for c in sv):
        raise Problem('string literal outside the subset')
    return '[%s]%%N' % '; '.join(str(ord(c)) for c in sv) if sv else EMPTY_TEXT


# ------------------------------------------------------------------ conditions (as in c11)
def b_atom(t):
    return ('atom', t)


def b_not(b):
    if b[0] == 'const':
        return ('const', not b[1])
    return b[1] if b[0] == 'not' else ('not', b)


def mk_if(b, t, e):
    k = b[0]
    if k == 'const':
        return t if b[1] else e
    if k == 'atom':
        return t if t.key() == e.key() else If(b[1], t, e)
    if k == 'not':
        return mk_if(b[1], e, t)
    if k == 'and':
        return t if not b[1] else mk_if(b[1][0], mk_if(('and', b[1][1:]), t, e), e)
    if k == 'or':
        return e if not b[1] else mk_if(b[1][0], t, mk_if(('or', b[1][1:]), t, e))
    raise Problem('internal: condition %r' % (b,))


def b_term(b):
    k = b[0]
    if k == 'const':
        return K('true' if b[1] else 'false')
    if k == 'atom':
        return b[1]
    if k == 'not':
        return A('negb', [b_term(b[1])])
    if k in ('and', 'or'):
        ts = [b_term(x) for x in b[1]]
        if not ts:
            return K('true' if k == 'and' else 'false')
        out = ts[-1]
        for t in reversed(ts[:-1]):
            out = A('andb' if k == 'and' else 'orb', [t, out])
        return out
    raise Problem('internal: condition %r' % (b,))


def simplify(t, known):
    if isinstance(t, If):
        ak = t.atom.key()
        if ak in known:
            return simplify(t.t if known[ak] else t.e, known)
        a = simplify(t.t, dict(known, **{}) | {ak: True})
        b = simplify(t.e, dict(known) | {ak: False})
        return a if a.key() == b.key() else If(t.atom, a, b)
    if isinstance(t, MOpt):
        return MOpt(t.scrut, simplify(t.none, known), t.var, simplify(t.some, known))
    if isinstance(t, MPval):
        return MPval(t.scrut, t.lvar, simplify(t.lterm, known), t.svar, simplify(t.sterm, known), t.other)
    if isinstance(t, Fix):
        return Fix(t.loop, simplify(t.nil, known), simplify(t.cons, known), t.it, t.init)
    return t


# ------------------------------------------------------------------ rendering
def render(t, ind):
    sp = ' ' * ind
    if isinstance(t, V):
        return t.name
    if isinstance(t, K):
        return t.text
    if isinstance(t, A):
        return '%s %s' % (t.fn, ' '.join(paren(a, ind) for a in t.args)) if t.args else t.fn
    if isinstance(t, Lam):
        return 'fun %s : %s => %s' % (t.var, coqty(t.ty), render(t.body, ind))
    if isinstance(t, Jump):
        lp = t.loop
        args = [lp.t] + (['(%s + 1)%%Z' % lp.i] if lp.use_index else []) + [paren(a, ind) for a in t.args]
        return '%s %s' % (lp.f, ' '.join(args))
    if isinstance(t, If):
        return 'if %s\n%sthen%s\n%selse%s' % (render(t.atom, ind), sp, render_in(t.t, ind + 2), sp, render_in(t.e, ind + 2))
    if isinstance(t, MOpt):
        return 'match %s with\n%s| None =>%s\n%s| Some %s =>%s\n%send' % (
            render(t.scrut, ind), sp, render_in(t.none, ind + 4), sp, t.var, render_in(t.some, ind + 4), sp)
    if isinstance(t, MPval):
        return 'match %s with\n%s| VTexts %s =>%s\n%s| VText %s =>%s\n%s| _ =>%s\n%send' % (
            render(t.scrut, ind), sp, t.lvar, render_in(t.lterm, ind + 4), sp, t.svar, render_in(t.sterm, ind + 4), sp,
            render_in(t.other, ind + 4), sp)
    if isinstance(t, Fix):
        lp = t.loop
        bind = '(%s : list (%s))' % (lp.l, coqty(lp.elem_ty))
        if lp.use_index:
            bind += ' (%s : Z)' % lp.i
        for _, b, ty in lp.carried:
            bind += ' (%s : %s)' % (b, coqty(ty))
        args = [paren(t.it, ind)] + (['0%Z'] if lp.use_index else []) + [paren(a, ind) for a in t.init]
        return '(fix %s %s {struct %s} : %s :=\n%s   match %s with\n%s   | [] =>%s\n%s   | %s :: %s =>%s\n%s   end) %s' % (
            lp.f, bind, lp.l, coqty(lp.ret_ty), sp, lp.l, sp, render_in(t.nil, ind + 6), sp, lp.x, lp.t,
            render_in(t.cons, ind + 6), sp, ' '.join(args))
    raise Problem('internal: cannot render %r' % (t,))


def render_in(t, ind):
    s = render(t, ind)
    if isinstance(t, (If, MOpt, Fix, MPval)):
        return '\n' + ' ' * ind + s
    return ' ' + s


def paren(t, ind):
    s = render(t, ind)
    return s if isinstance(t, (V, K)) and ' ' not in s else '(' + s + ')'


# ------------------------------------------------------------------ the primitive table
RQ = V('rq')

# tuple targets of loops / unpackings: element type -> [(projection or None for the element itself, type)]
PROJ = {
    'entry': [('e_order', 'Z'), ('e_view', 'reg'), ('e_phash', 'text')],   # MultiView keeps (order, view, phash) triples
    'kvo': [('fst', 'text'), ('snd', OPT('text'))],     # RequestParamPredicate.reqs / HeaderPredicate.val: (key, value or None)
    'kv': [('fst', 'text'), ('snd', 'text')],           # MatchParamPredicate.reqs
    'ifpair': [('fst', 'iface'), ('snd', 'iface')],
    'hdr3': [('fst', 'text'), ('snd', OPT('regex')), (ERASED, ERASED)],   # HeaderPredicate.val: (name, compiled regex or None, source);
                                                                          # a compiled regex is identified with its pattern text     # itertools.product of the two resolution orders
    'offerq': [(None, 'offer'), (ERASED, ERASED)],      # acceptable_offers yields (offer, quality); the model keeps the offers
    'hdr3t': [('fst', 'text'), (ERASED, ERASED), ('snd', OPT('text'))],   # the same triples read by text(): (name, _, source of the regex or None)
    'namefac': [(None, 'text'), (ERASED, 'factory')],   # sorter.sorted() yields (name, factory); the model looks the factory up by name
}

# attributes: (type of the object, attribute) -> (term builder from the object term, type)
ATTR = {
    ('request', 'method'): (lambda o: A('q_method', [RQ]), 'text'),
    ('request', 'is_xhr'): (lambda o: A('q_xhr', [RQ]), 'bool'),                 # WebOb is_xhr is a bool (oracle field)
    ('request', 'upath_info'): (lambda o: A('q_upath', [RQ]), 'text'),
    ('request', 'is_authenticated'): (lambda o: A('q_auth', [RQ]), 'bool'),
    ('request', 'params'): (lambda o: None, 'params'),
    ('request', 'headers'): (lambda o: None, 'headers'),
    ('request', 'matchdict'): (lambda o: A('q_matchdict', [RQ]), 'matchdict'),
    ('request', 'accept'): (lambda o: None, 'accepthdr'),
    ('registry', 'adapters'): (lambda o: o, 'adapters'),
    ('adapters', 'registered'): (lambda o: o, 'registered'),    # exact-key lookup (HOWTO assumption on zope's registry)
    ('registry', '_view_lookup_cache'): (lambda o: None, 'cache'),   # CACHE: owned by C15 (cache transparency theorem there)
    ('registry', '_lock'): (lambda o: None, ERASED),
    ('reqiface', '__sro__'): (lambda o: o, LIST('iface')),      # oracle: zope resolution order
    ('ctxiface', '__sro__'): (lambda o: o, LIST('iface')),
    ('mv', 'accepts'): (lambda o: A('mv_accepts', [o]), LIST('offer')),
    ('mv', 'views'): (lambda o: A('mv_views', [o]), LIST('entry')),
    ('mv', 'media_views'): (lambda o: o, 'media'),
    ('mv', 'name'): (lambda o: None, ERASED),
    ('nval', 'value'): (lambda o: A('snd', [o]), 'pval'),        # not_(value).value
    ('plist', 'sorter'): (lambda o: None, 'sorter'),
    ('info', 'predicates'): (lambda o: A('r_preds', [o]), LIST('pred')),
    ('info', 'options'): (lambda o: o, 'options'),
    ('parsed', 'params'): (lambda o: A('o_params', [o]), 'bool'),   # Accept.parse_offer(v).params is non-empty (oracle field)   # ViewDeriverInfo.predicates of the registration
}


class FnTranslator:
    def __init__(self, fn, spec, outer=None):
        self.fn, self.spec, self.outer = fn, spec, outer
        self.nloops = 0
        self.nbind = 0
        self.repl = {}                 # id(ast node) -> (term, type): may-raise calls bound by a try

    def fresh(self, hint):
        self.nbind += 1
        return '%s_%d' % (hint, self.nbind)

    # ------------------------------------------------------------ entry
    def translate(self):
        fn, spec = self.fn, self.spec
        if not isinstance(fn, ast.FunctionDef) or fn.decorator_list:
            raise Problem('not a plain undecorated def')
        a = fn.args
        if a.vararg or (a.kwarg and not spec.get('kwarg')) or a.kwonlyargs or getattr(a, 'posonlyargs', []):
            raise Problem('unexpected parameter list (*args, keyword-only)')
        if len(a.args) != len(spec['params']):
            raise Problem('expected %d parameters, found %d' % (len(spec['params']), len(a.args)))
        ndef = len(a.defaults)
        for i, (arg, (obj, ty)) in enumerate(zip(a.args, spec['params'])):
            d = a.defaults[i - (len(a.args) - ndef)] if i >= len(a.args) - ndef else None
            want = spec.get('defaults', {}).get(i)
            if (d is None) != (want is None) or (d is not None and u(d) != want):
                raise Problem('default of parameter %d is %s, expected %s' % (i, u(d) if d is not None else 'absent', want))
        env = {}
        for arg, (obj, ty) in zip(a.args, spec['params']):
            env[arg.arg] = (obj, ty)
        if a.kwarg:
            env[a.kwarg.arg] = spec['kwarg']
        if spec.get('closure'):
            env.update(spec['closure'](self.outer))
        env.update(spec.get('init_env', {}))
        for n in ast.walk(fn):
            if isinstance(n, (ast.Global, ast.Nonlocal, ast.Lambda, ast.ListComp, ast.SetComp, ast.DictComp,
                              ast.NamedExpr, ast.Await, ast.Yield, ast.YieldFrom, ast.While, ast.AsyncFunctionDef,
                              ast.ClassDef)):
                if not (isinstance(n, ast.ListComp) and spec.get('listcomp_ok')):
                    raise Problem('construct outside the subset: %s' % type(n).__name__)
        self.nested = {st.name: st for st in fn.body if isinstance(st, ast.FunctionDef)}

        def k_end(env2):
            if 'end_fn' in spec:
                return spec['end_fn'](env2)
            if 'end' in spec:
                return spec['end']
            raise Problem('control can reach the end of the function without a return')
        t = self.block(list(fn.body), env, k_end, None)
        if spec.get('nested_attrs') and getattr(self, 'seen_attrs', set()) != set(spec['nested_attrs']):
            raise Problem('attributes %s are not all set on the wrapper' % sorted(spec['nested_attrs']))
        return simplify(t, {})

    # ------------------------------------------------------------ statements
    def block(self, stmts, env, k, jumps):
        if not stmts:
            return k(env)
        s, rest = stmts[0], stmts[1:]

        def k_next(env2):
            return self.block(rest, env2, k, jumps)

        if isinstance(s, ast.Expr) and isinstance(s.value, ast.Constant) and isinstance(s.value.value, str):
            return k_next(env)
        if isinstance(s, ast.Pass):
            return k_next(env)
        if isinstance(s, ast.FunctionDef):
            return k_next(env)                  # nested defs are translated on their own (or listed as erased)
        if isinstance(s, (ast.Import, ast.ImportFrom)):
            if not self.ends_in_raise(rest):
                raise Problem('import outside an error branch')
            return k_next(env)
        if isinstance(s, ast.Return):
            return self.ret(s, env)
        if isinstance(s, ast.Raise):
            return self.raise_(s, env)
        if isinstance(s, ast.Continue):
            if jumps is None:
                raise Problem('continue outside a loop')
            return jumps[0](env)
        if isinstance(s, ast.Break):
            if jumps is None:
                raise Problem('break outside a loop')
            return jumps[1](env)
        if self.ends_in_raise([s] + rest) and isinstance(s, (ast.Assign, ast.Expr, ast.For)) \
                and self.spec.get('error_branch_erased'):
            return k_next(env)                  # statements of a block that ends in `raise`: only the error is modelled
        if isinstance(s, ast.Assign) and isinstance(s.value, ast.Call) and id(s.value) not in self.repl \
                and self.may_raise(s.value, env) and 'propagate' in self.spec and len(s.targets) == 1 \
                and isinstance(s.targets[0], ast.Name):
            # a may-raise call outside any try: the exception leaves the function
            cobj, cty = self.expr(s.value, env)
            binder = self.fresh('r')
            env2 = dict(env)
            env2[s.targets[0].id] = (V(binder), cty[4:])
            return MOpt(cobj, self.spec['propagate'], binder, k_next(env2))
        if isinstance(s, ast.Assign) and len(s.targets) == 1 and isinstance(s.targets[0], ast.Name) \
                and isinstance(s.value, ast.Call) and isinstance(s.value.func, ast.Attribute) and s.value.func.attr == 'pop' \
                and isinstance(s.value.func.value, ast.Name) and env.get(s.value.func.value.id, (None, ''))[1] == 'kwargs':
            # v = kw.pop(name, None): the value (or None) and the dict without that key
            c = s.value
            if len(c.args) != 2 or c.keywords or u(c.args[1]) != 'None':
                raise Problem('kw.pop with unexpected arguments: %s' % u(s))
            ko, kt = self.expr(c.args[0], env)
            if kt != 'text':
                raise Problem('kw.pop of a %s key' % kt)
            dn = c.func.value.id
            dobj = env[dn][0]
            env2 = dict(env)
            env2[s.targets[0].id] = (A('assoc', [ko, dobj]), OPT('rawvals'))
            env2[dn] = (A('kw_del', [ko, dobj]), 'kwargs')
            return k_next(env2)
        if self.spec.get('strings') and isinstance(s, ast.Assign) and len(s.targets) == 1 \
                and isinstance(s.targets[0], ast.Tuple) and isinstance(s.value, ast.Call) \
                and isinstance(s.value.func, ast.Attribute) and s.value.func.attr == 'split':
            # a, b = X.split(c, 1): two parts when c occurs in X, else ValueError (too few values to unpack)
            c = s.value
            tg = s.targets[0]
            if len(tg.elts) != 2 or not all(isinstance(e, ast.Name) for e in tg.elts) or c.keywords or len(c.args) != 2 \
                    or not (isinstance(c.args[0], ast.Constant) and isinstance(c.args[0].value, str) and len(c.args[0].value) == 1) \
                    or not (isinstance(c.args[1], ast.Constant) and c.args[1].value == 1) or 'raise_value' not in self.spec:
                raise Problem('split unpacking outside the subset: %s' % u(s))
            xo, xt = self.term(c.func.value, env)
            if xt != 'text':
                raise Problem('split of a %s' % xt)
            binder = self.fresh('kv')
            env2 = dict(env)
            env2[tg.elts[0].id] = (A('fst', [V(binder)]), 'text')
            env2[tg.elts[1].id] = (A('snd', [V(binder)]), 'text')
            return MOpt(A('split1', [K('%d%%N' % ord(c.args[0].value)), xo]), self.spec['raise_value'], binder, k_next(env2))
        if self.spec.get('strings') and isinstance(s, ast.Assign) and len(s.targets) == 1 \
                and isinstance(s.value, (ast.ListComp, ast.GeneratorExp)) and 'raise_value' in self.spec:
            obj, ty = self.term(s.value, env)
            if ty.startswith('mayraise:'):
                binder = self.fresh('r')
                fake = ast.Assign(targets=s.targets, value=ast.Name(id='__mayraise_value__', ctx=ast.Load()))
                env2 = dict(env)
                env2['__mayraise_value__'] = (V(binder), ty[len('mayraise:'):])
                env3 = self.assign(fake, env2)
                env3.pop('__mayraise_value__', None)
                return MOpt(obj, self.spec['raise_value'], binder, k_next(env3))
        if isinstance(s, ast.Assign):
            return k_next(self.assign(s, env))
        if isinstance(s, ast.Expr):
            return k_next(self.expr_stmt(s, env))
        if isinstance(s, ast.With):
            if all(self.is_cache_write(b, env) for b in s.body):
                return k_next(env)
            raise Problem('with statement outside the table: %s' % u(s).split('\n')[0])
        if isinstance(s, ast.If):
            env2 = self.idiom(s, env)
            if env2 is not None:
                return k_next(env2)
            return self.if_(s.test, list(s.body), list(s.orelse), env, k_next, jumps)
        if isinstance(s, ast.Try):
            return self.try_(s, env, k_next, jumps)
        if isinstance(s, ast.For):
            return self.for_loop(s, env, k_next)
        raise Problem('statement outside the subset: %s' % u(s).split('\n')[0])

    @staticmethod
    def ends_in_raise(stmts):
        return bool(stmts) and isinstance(stmts[-1], ast.Raise)

    def is_cache_write(self, s, env):
        if isinstance(s, ast.Assign) and len(s.targets) == 1 and isinstance(s.targets[0], ast.Subscript):
            try:
                _, ty = self.expr(s.targets[0].value, env)
            except Problem:
                return False
            if ty != 'cache':
                return False
            key = s.targets[0].slice
            if not cache_key_ok(self, key, env) or u(key) not in getattr(self, 'cache_keys', []):
                raise Problem('cache written under a key that is not the key it was read with: %s' % u(key))
            return True
        return False

    def ret(self, s, env):
        if s.value is None:
            if 'end_fn' in self.spec and self.spec.get('mutself'):
                return self.spec['end_fn'](env)          # `return` of a method whose result is the final state of self
            raise Problem('bare return')
        conv = self.spec['ret_conv']
        if isinstance(s.value, ast.Name) and s.value.id in self.nested and 'ret_nested' in self.spec:
            return self.spec['ret_nested'](s.value.id)
        obj, ty = self.expr(s.value, env)
        out = conv(obj, ty)
        if out is None:
            raise Problem('return of a %s is outside the result map of %s: %s' % (ty, self.spec['gen'], u(s)))
        return out

    def raise_(self, s, env):
        exc = s.exc
        name = None
        if isinstance(exc, ast.Call) and isinstance(exc.func, ast.Name):
            name = exc.func.id
        elif isinstance(exc, ast.Name) and exc.id in env and env[exc.id][1] in ('unit', OPT('unit')):
            name = '<caught>'
        if name is None or name not in self.spec.get('raise', {}):
            raise Problem('raise outside the table: %s' % u(s).split('\n')[0])
        return self.spec['raise'][name]

    def if_(self, test, body, orelse, env, k_next, jumps):
        # Optional narrowing / splitting of and / or / not at statement level
        if isinstance(test, ast.UnaryOp) and isinstance(test.op, ast.Not):
            return self.if_(test.operand, orelse, body, env, k_next, jumps)
        if isinstance(test, ast.BoolOp) and self.has_opt_test(test, env):
            vs = test.values
            first, more = vs[0], (vs[1] if len(vs) == 2 else ast.BoolOp(op=test.op, values=vs[1:]))
            if isinstance(test.op, ast.And):
                inner = [ast.If(test=more, body=body, orelse=orelse)]
                return self.if_(first, inner, orelse, env, k_next, jumps)
            inner = [ast.If(test=more, body=body, orelse=orelse)]
            return self.if_(first, body, inner, env, k_next, jumps)
        if self.spec.get('strings') and isinstance(test, ast.Call) and isinstance(test.func, ast.Name) \
                and test.func.id == 'is_nonstr_iter' and len(test.args) == 1 and isinstance(test.args[0], ast.Name) \
                and env.get(test.args[0].id, (None, ''))[1] == 'pval' and 'raise_value' in self.spec:
            # util.is_nonstr_iter (pinned): false for a str, true for a tuple / list; predicate values of any other dynamic
            # type are outside what this factory is given (the model's factory answers None for them)
            nm = test.args[0].id
            lv, sv = self.fresh('pl'), self.fresh('ps')
            env_l, env_s = dict(env), dict(env)
            env_l[nm] = (V(lv), LIST('text'))
            env_s[nm] = (V(sv), 'text')
            return MPval(env[nm][0], lv, self.block(body, env_l, k_next, jumps), sv, self.block(orelse, env_s, k_next, jumps),
                         self.spec['raise_value'])
        ot = self.opt_test(test, env)
        if ot is not None:
            name, obj, ty, is_none = ot
            if ty == NONE:
                chosen = body if is_none else orelse
                return self.block(chosen, env, k_next, jumps)
            if ty == NONE + '-never':                   # a parameter the callers never leave None (table: never_none)
                return self.block(orelse if is_none else body, env, k_next, jumps)
            binder = self.fresh('o_' + (name or 'v'))
            env_some = dict(env)
            if name is not None:
                env_some[name] = (V(binder), ty[4:])
            t_none = self.block(body if is_none else orelse, env, k_next, jumps)
            t_some = self.block(orelse if is_none else body, env_some, k_next, jumps)
            return MOpt(obj, t_none, binder, t_some)
        c = self.cond(test, env)
        if c[0] == 'const':                      # a test the table decides statically: the dead branch is not looked at
            return self.block(body if c[1] else orelse, env, k_next, jumps)
        t = self.block(body, env, k_next, jumps)
        e = self.block(orelse, env, k_next, jumps)
        return mk_if(c, t, e)

    def opt_test(self, test, env):
        """`X is None` / `X is not None` (X an expression of option / none type) -> (name or None, term, type, is_none)"""
        if isinstance(test, ast.Compare) and len(test.ops) == 1 and isinstance(test.ops[0], (ast.Is, ast.IsNot)) \
                and isinstance(test.comparators[0], ast.Constant) and test.comparators[0].value is None:
            obj, ty = self.expr(test.left, env)
            if ty == 'text' and isinstance(test.left, ast.Name) and test.left.id in self.spec.get('never_none', ()):
                return test.left.id, obj, NONE + '-never', isinstance(test.ops[0], ast.Is)
            if ty == NONE or ty.startswith('opt:'):
                name = test.left.id if isinstance(test.left, ast.Name) else None
                return name, obj, ty, isinstance(test.ops[0], ast.Is)
        return None

    def has_opt_test(self, test, env):
        for v in test.values:
            w = v.operand if isinstance(v, ast.UnaryOp) and isinstance(v.op, ast.Not) else v
            try:
                if self.opt_test(w, env) is not None:
                    return True
            except Problem:
                return False
        return False

    def idiom(self, s, env):
        """statement-level table entries (identity normalisations)"""
        t = s.test
        # IDIOM  if P is None: P = <default>   for a parameter the model already holds normalised
        if isinstance(t, ast.Compare) and len(t.ops) == 1 and isinstance(t.ops[0], ast.Is) \
                and isinstance(t.left, ast.Name) and t.left.id in env and env[t.left.id][1] in self.spec.get('defaulted', {}):
            want = self.spec['defaulted'][env[t.left.id][1]]
            ok = (not s.orelse and len(s.body) == 1 and isinstance(s.body[0], ast.Assign)
                  and len(s.body[0].targets) == 1 and isinstance(s.body[0].targets[0], ast.Name)
                  and s.body[0].targets[0].id == t.left.id and u(s.body[0].value) == want)
            if not ok:
                raise Problem('default of %s: expected `%s = %s`: %s' % (t.left.id, t.left.id, want, u(s).split('\n')[0]))
            return env
        # IDIOM  if S: S = [v for _, v in S.sorted()]   for a sorter the model already holds as its sorted values (or None)
        if isinstance(t, ast.Name) and t.id in env and env[t.id][1] == OPT(LIST('text')) and self.spec.get('sorter_params'):
            want = 'if {0}:\n    {0} = [v for _, v in {0}.sorted()]'.format(t.id)
            if u(s) != want:
                raise Problem('sorter idiom with an unexpected shape: %s' % u(s).split('\n')[0])
            return env
        # IDIOM  if not isinstance(vals, predvalseq): vals = (vals,)   /  if not is_nonstr_iter(h): h = [h]
        if isinstance(t, ast.UnaryOp) and isinstance(t.op, ast.Not) and isinstance(t.operand, ast.Call) \
                and isinstance(t.operand.func, ast.Name) and t.operand.func.id in ('isinstance', 'is_nonstr_iter'):
            c = t.operand
            v = c.args[0].id if c.args and isinstance(c.args[0], ast.Name) else None
            if c.func.id == 'is_nonstr_iter' and v in env and env[v][1] == 'pval':
                return None                          # a dispatch on the dynamic type of a predicate value: see if_()
            asg = s.body[0] if len(s.body) == 1 and not s.orelse else None
            if v is None or v not in env or not isinstance(asg, ast.Assign) or len(asg.targets) != 1 \
                    or u(asg.targets[0]) != v or not isinstance(asg.value, (ast.Tuple, ast.List)) \
                    or len(asg.value.elts) != 1 or u(asg.value.elts[0]) != v:
                raise Problem('normalisation idiom with an unexpected shape: %s' % u(s).split('\n')[0])
            obj, ty = env[v]
            if c.func.id == 'isinstance':
                if u(c.args[1]) != 'predvalseq' or ty != 'rawvals':
                    raise Problem('isinstance idiom outside the table: %s' % u(s).split('\n')[0])
                env = dict(env)
                env[v] = (obj, LIST('nval'))        # the model's kwargs hold the normalised sequence of values
                return env
            if ty != 'rawhash':
                raise Problem('is_nonstr_iter idiom outside the table: %s' % u(s).split('\n')[0])
            env = dict(env)
            env[v] = (A('cons', [obj, K('nil')]), LIST('text'))   # the model's phash() is one text: [h]
            return env
        return None

    def try_(self, s, env, k_next, jumps):
        if s.orelse or s.finalbody or len(s.handlers) != 1:
            raise Problem('try statement outside the subset')
        h = s.handlers[0]
        if u(h.type) in self.spec.get('catch_unmodelled', ()) and self.ends_in_raise(list(h.body)) \
                and not any(isinstance(n, ast.Call) and self.may_raise(n, env) for st in s.body for n in ast.walk(st)):
            # e.g. `try: v = re.compile(s) except re.error: raise ConfigurationError(..)`: a pattern that does not compile is a
            # configuration-time error (ASSUMPTIONS: the patterns are valid); the body is translated, the handler only raises
            return self.block(list(s.body) , env, k_next, jumps)
        if not (isinstance(h.type, ast.Name) and h.type.id in self.spec.get('catch', ())):
            raise Problem('except clause outside the table: %s' % u(h).split('\n')[0])
        calls = [n for st in s.body for n in ast.walk(st) if isinstance(n, ast.Call) and self.may_raise(n, env)]
        if len(calls) != 1:
            raise Problem('a try body must contain exactly one may-raise call of the table, found %d' % len(calls))
        call = calls[0]
        cobj, cty = self.expr(call, env)
        if not cty.startswith('opt:'):
            raise Problem('internal: may-raise call is not option-typed')
        binder = self.fresh('r')
        self.repl[id(call)] = (V(binder), cty[4:])
        some = self.block(list(s.body), env, k_next, jumps)
        del self.repl[id(call)]
        env_h = dict(env)
        if h.name:
            env_h[h.name] = (K('tt'), 'unit')
        none = self.block(list(h.body), env_h, k_next, jumps)
        return MOpt(cobj, none, binder, some)

    def may_raise(self, call, env):
        f = call.func
        if isinstance(f, ast.Name) and f.id in env and env[f.id][1] in ('comp', 'reg', 'body', 'factory'):
            return True
        return False

    def assign(self, s, env):
        if len(s.targets) != 1:
            raise Problem('chained assignment: %s' % u(s))
        tg = s.targets[0]
        if isinstance(tg, ast.Attribute) and isinstance(tg.value, ast.Name) and tg.value.id in self.nested:
            want = self.spec.get('nested_attrs')
            if want is not None and tg.attr in want:    # the attribute must carry exactly this value of the registration
                obj, ty = self.term(s.value, env)
                shown = self.origin.get(s.value.id) if isinstance(s.value, ast.Name) else (render(obj, 0) if obj is not None else None)
                if shown != want[tg.attr]:
                    raise Problem('%s.%s is set to %s, expected %s' % (tg.value.id, tg.attr, u(s.value), want[tg.attr]))
                self.seen_attrs = getattr(self, 'seen_attrs', set()) | {tg.attr}
            return env                                  # attribute set on a nested function object (see NOTES: __predicated__)
        if isinstance(tg, ast.Tuple) and isinstance(s.value, ast.Tuple) and len(tg.elts) == len(s.value.elts) \
                and all(isinstance(e, ast.Name) for e in tg.elts):
            vals = [self.expr(v, env) for v in s.value.elts]
            env = dict(env)
            self.origin = dict(self.origin)
            for e, v in zip(tg.elts, vals):
                env[e.id] = v
                self.origin[e.id] = render(v[0], 0) if isinstance(v[0], Term) else None    # what the name was last assigned
            return env
        if self.spec.get('mutself') and isinstance(tg, ast.Subscript):
            # l[i] = e on a list field of self, or on a local that aliases an entry of a dict field of self
            io, it = self.term(tg.slice, env)
            vo, vt = self.as_entry(self.expr(s.value, env), s)
            if it != 'Z':
                raise Problem('subscript store with a %s index: %s' % (it, u(s)))
            env = dict(env)
            if isinstance(tg.value, ast.Attribute) and isinstance(tg.value.value, ast.Name) \
                    and env.get(tg.value.value.id, (None, ''))[1] == 'mutself' and 'self.' + tg.value.attr in env \
                    and env['self.' + tg.value.attr][1] == LIST(vt):
                key = 'self.' + tg.value.attr
                env[key] = (A('list_set', [io, vo, env[key][0]]), env[key][1])
                return env
            if isinstance(tg.value, ast.Name) and tg.value.id in self.aliases and env[tg.value.id][1] == LIST(vt):
                return self.alias_write(env, tg.value.id, A('list_set', [io, vo, env[tg.value.id][0]]))
            raise Problem('subscript store outside the table: %s' % u(s))
        if self.spec.get('mutself') and isinstance(tg, ast.Attribute) and isinstance(tg.value, ast.Name) \
                and env.get(tg.value.id, (None, ''))[1] == 'mutself':
            obj, ty = self.term(s.value, env)
            key = 'self.' + tg.attr
            if key not in env or env[key][1] != ty.replace('own:', ''):
                raise Problem('assignment to self.%s of a %s: %s' % (tg.attr, ty, u(s)))
            env = dict(env)
            env[key] = (obj, env[key][1])
            return env
        if self.spec.get('mutself') and isinstance(tg, ast.Name) and isinstance(s.value, ast.Call) \
                and isinstance(s.value.func, ast.Attribute) and s.value.func.attr == 'setdefault':
            # x = self.d.setdefault(k, []): x ALIASES the list stored under k (inserted empty when absent)
            c = s.value
            do, dt = self.expr(c.func.value, env)
            if dt != 'media' or len(c.args) != 2 or c.keywords or not (isinstance(c.args[1], ast.List) and not c.args[1].elts) \
                    or not (isinstance(c.func.value, ast.Attribute) and isinstance(c.func.value.value, ast.Name)):
                raise Problem('setdefault outside the table: %s' % u(s))
            ko, kt = self.term(c.args[0], env)
            if kt != 'offer':
                raise Problem('setdefault with a %s key' % kt)
            field = 'self.' + c.func.value.attr
            env = dict(env)
            cur = A('media_lookup', [do, ko])
            env[field] = (A('media_store', [do, ko, cur]), 'media')
            env[tg.id] = (cur, LIST('entry'))
            self.aliases = dict(self.aliases)
            self.aliases[tg.id] = (field, ko)
            return env
        if isinstance(tg, ast.Attribute) and isinstance(tg.value, ast.Name) and tg.value.id in env \
                and env[tg.value.id][1] == 'selfinit':
            obj, ty = self.term(s.value, env)              # a field of the object under construction
            env = dict(env)
            env['self.' + tg.attr] = (obj, ty.replace('own:', ''))
            return env
        if not isinstance(tg, ast.Name):
            raise Problem('assignment target outside the subset: %s' % u(s))
        if isinstance(s.value, ast.Constant) and s.value.value is None:
            env = dict(env)
            env[tg.id] = (K('None'), NONE)
            return env
        obj, ty = self.expr(s.value, env)
        env = dict(env)
        old = env.get(tg.id)
        if old is not None and old[1].startswith('opt:') and old[1][4:] == ty and old[1] in self.optvars.get(tg.id, ()):
            obj, ty = A('Some', [obj]), OPT(ty)
        env[tg.id] = (obj, ty)
        self.origin = dict(self.origin)
        self.origin[tg.id] = render(obj, 0) if isinstance(obj, Term) else None
        return env

    origin = {}
    optvars = {}
    aliases = {}

    def as_entry(self, pair, whole):
        """(order, view, phash) tuples are the model's entries"""
        obj, ty = pair
        if ty == TUPLE and [t for _, t in obj] == ['Z', 'reg', 'text']:
            return A('pair', [A('pair', [obj[0][0], obj[1][0]]), obj[2][0]]), 'entry'
        if ty == TUPLE:
            raise Problem('tuple outside the table: %s' % u(whole))
        return obj, ty

    def alias_write(self, env, name, newterm):
        """a mutation of a local that aliases d[k] of a dict field of self is a mutation of that field"""
        field, ko = self.aliases[name]
        env = dict(env)
        env[name] = (newterm, env[name][1])
        env[field] = (A('media_store', [env[field][0], ko, newterm]), env[field][1])
        return env

    def expr_stmt(self, s, env):
        c = s.value
        if self.spec.get('mutself') and isinstance(c, ast.Call) and isinstance(c.func, ast.Attribute):
            got = self.mut_stmt(c, env, s)
            if got is not None:
                return got
        if not (isinstance(c, ast.Call) and isinstance(c.func, ast.Attribute) and isinstance(c.func.value, ast.Name)
                and not c.keywords and len(c.args) == 1):
            raise Problem('expression statement outside the subset: %s' % u(s))
        name, meth = c.func.value.id, c.func.attr
        if name not in env:
            raise Problem('method call on an unbound name: %s' % u(s))
        sobj, sty = env[name]
        aobj, aty = self.expr(c.args[0], env)
        if aty == TUPLE and self.spec.get('pair_as') == 'kvo' and len(aobj) == 2 and aobj[0][1] == 'text' \
                and aobj[1][1] in ('text', NONE):
            # (k, v) with v a str or None: the model's (key, value or None) pair
            aobj, aty = A('pair', [aobj[0][0], K('None') if aobj[1][1] == NONE else A('Some', [aobj[1][0]])]), 'kvo'
        if aty == TUPLE and self.spec.get('pair_as') == 'hdr' and len(aobj) == 3 and aobj[0][1] == 'text':
            # (name, compiled regex or None, its source or None): a compiled regex is identified with its pattern text, so the
            # model keeps (name, source or None); the two must be the same text (or both None)
            (vo, vt), (so, st) = aobj[1], aobj[2]
            if (vt, st) == (NONE, NONE):
                aobj, aty = A('pair', [aobj[0][0], K('None')]), 'kvo'
            elif (vt, st) == ('regex', 'text') and vo.key() == so.key():
                aobj, aty = A('pair', [aobj[0][0], A('Some', [so])]), 'kvo'
            else:
                raise Problem('header triple outside the table: %s' % u(s))
        env = dict(env)
        if meth == 'update' and sty == 'digest':        # sha256 modelled by its input: update = append
            if aty != 'text':
                raise Problem('digest update with a %s' % aty)
            env[name] = (A('app', [sobj, aobj]), 'digest')
            return env
        if not sty.startswith('own:'):
            raise Problem('%s: .%s on a %s (only lists created by [] in this function may be mutated)' % (u(s), meth, sty))
        el = sty[4 + 5:]
        if meth == 'append':
            if el == '?':
                el = aty
            if aty != el:
                raise Problem('%s: appending a %s to a list of %s' % (u(s), aty, el))
            env[name] = (A('app', [sobj, A('cons', [aobj, K('nil')])]), 'own:list:' + el)
        elif meth == 'extend':
            if not aty.startswith('list:') and not aty.startswith('own:list:'):
                raise Problem('%s: extending with a %s' % (u(s), aty))
            ael = aty.split('list:', 1)[1]
            if el == '?':
                el = ael
            if ael != el:
                raise Problem('%s: extending a list of %s with a list of %s' % (u(s), el, ael))
            env[name] = (A('app', [sobj, aobj]), 'own:list:' + el)
        else:
            raise Problem('method outside the table: %s' % u(s))
        return env

    def mut_stmt(self, c, env, s):
        """append / sort on a list field of self or on an alias of a dict entry of self; add on a set of offers"""
        recv, meth = c.func.value, c.func.attr
        if isinstance(recv, ast.Attribute) and isinstance(recv.value, ast.Name) \
                and env.get(recv.value.id, (None, ''))[1] == 'mutself' and 'self.' + recv.attr in env:
            key, alias = 'self.' + recv.attr, None
        elif isinstance(recv, ast.Name) and recv.id in self.aliases and recv.id in env:
            key, alias = recv.id, recv.id
        elif isinstance(recv, ast.Name) and env.get(recv.id, (None, ''))[1] == 'offerset' and meth == 'add' \
                and len(c.args) == 1 and not c.keywords:
            ao, at = self.term(c.args[0], env)
            if at != 'offer':
                raise Problem('adding a %s to a set of offers' % at)
            env = dict(env)
            env[recv.id] = (A('offerset_add', [ao, env[recv.id][0]]), 'offerset')
            return env
        else:
            return None
        cur, ty = env[key]
        if ty != LIST('entry'):
            return None
        if meth == 'append' and len(c.args) == 1 and not c.keywords:
            vo, vt = self.as_entry(self.expr(c.args[0], env), s)
            if vt != 'entry':
                raise Problem('appending a %s to a list of entries' % vt)
            new = A('app', [cur, A('cons', [vo, K('nil')])])
        elif meth == 'sort' and not c.args and len(c.keywords) == 1 and c.keywords[0].arg == 'key' \
                and u(c.keywords[0].value) == 'operator.itemgetter(0)':
            new = A('isort', [K('entry_leb'), cur])      # list.sort is stable; the key is the order of the entry
        else:
            raise Problem('method outside the table: %s' % u(s))
        if alias is not None:
            return self.alias_write(env, alias, new)
        env = dict(env)
        env[key] = (new, ty)
        return env

    def for_loop(self, s, env, k_rest):
        if s.orelse:
            # for .. else: the else block runs when the loop ends without `break`; with no break in the body it is simply
            # what follows the loop
            for st in s.body:
                for n in ast.walk(st):
                    if isinstance(n, ast.Break):
                        raise Problem('for .. else with a break in the body')
            orelse, k_after = list(s.orelse), k_rest

            def k_rest(env2, orelse=orelse, k_after=k_after):
                return self.block(orelse, env2, k_after, None)
        it, tg, use_index, iname = s.iter, s.target, False, None
        if isinstance(it, ast.Call) and isinstance(it.func, ast.Name) and it.func.id == 'enumerate' and len(it.args) == 1 \
                and not it.keywords and isinstance(tg, ast.Tuple) and len(tg.elts) == 2 and isinstance(tg.elts[0], ast.Name):
            use_index, iname, it, tg = True, tg.elts[0].id, it.args[0], tg.elts[1]
        itobj, itty = self.expr(it, env)
        if itty.startswith('own:'):
            itty = itty[4:]
        if not itty.startswith('list:') or itty == 'list:?':
            raise Problem('loop over a %s: %s' % (itty, u(it)))
        self.nloops += 1
        lp = Loop(self.nloops, itty[5:], self.spec['ret'])
        lp.use_index = use_index
        if isinstance(tg, ast.Name):
            lp.x = 'x_%s_%d' % (tg.id, lp.n)
            tbind = {tg.id: (V(lp.x), lp.elem_ty if lp.elem_ty not in ('offerq', 'namefac') else PROJ[lp.elem_ty][0][1])}
        elif isinstance(tg, ast.Tuple) and lp.elem_ty in PROJ and len(tg.elts) == len(PROJ[lp.elem_ty]) \
                and all(isinstance(e, ast.Name) for e in tg.elts):
            lp.x = 'x_%s_%d' % (lp.elem_ty, lp.n)
            tbind = {}
            for e, (pr, ty) in zip(tg.elts, PROJ[lp.elem_ty]):
                if pr == ERASED:
                    tbind[e.id] = (A('factory_of', [V(lp.x)]), ty) if ty == 'factory' else (None, ERASED)
                else:
                    tbind[e.id] = (V(lp.x) if pr is None else A(pr, [V(lp.x)]), ty)
        else:
            raise Problem('loop target outside the table: %s over %s' % (u(tg), lp.elem_ty))
        if use_index:
            tbind[iname] = (V(lp.i), 'Z')
        assigned, occurs = [], []
        for st in s.body:
            for n in ast.walk(st):
                if isinstance(n, ast.Name) and n.id not in occurs:
                    occurs.append(n.id)
                if isinstance(n, ast.Name) and isinstance(n.ctx, ast.Store) and n.id not in assigned:
                    assigned.append(n.id)
                if isinstance(n, ast.Call) and isinstance(n.func, ast.Attribute) and isinstance(n.func.value, ast.Name) \
                        and n.func.attr in ('append', 'extend', 'update', 'pop') and n.func.value.id not in assigned:
                    assigned.append(n.func.value.id)
        # order of first occurrence in the body, in source order
        order = []
        for st in s.body:
            class Vis(ast.NodeVisitor):
                def visit_Name(self_, n):
                    if n.id not in order:
                        order.append(n.id)
            Vis().visit(st)
        carried = []
        env_head = dict(env)
        for nm in order:
            if nm in assigned and nm in env and nm not in tbind:
                obj, ty = env[nm]
                if ty in (ERASED, TUPLE) or obj is None:
                    continue
                if ty == NONE:                       # v = None before the loop, assigned inside: an option
                    ty = self.none_type(nm, s.body, env, tbind, lp)
                    obj = K('None')
                    env[nm] = (obj, ty)
                carried.append([nm, 'c_%s_%d' % (nm, lp.n), ty])
        lp.carried = carried
        for nm in tbind:
            env_head.pop(nm, None)
        for nm, b, ty in carried:
            env_head[nm] = (V(b), ty)

        def cur(env2):
            for k2, v2 in env2.items():
                if k2.startswith('self.') and (k2 not in env_head or env_head[k2][0] is not v2[0]):
                    raise Problem('a field of self is modified inside a loop iteration that goes on (%s)' % k2)
            out = []
            for ent in carried:
                nm, b, ty = ent
                o2, t2 = env2[nm]
                if t2 != ty:
                    if ty.startswith('opt:') and t2 == ty[4:]:
                        o2 = A('Some', [o2])
                    elif ty.startswith('own:list:') and t2.startswith('own:list:') and ty.endswith('?'):
                        ent[2] = ty = t2             # the element type of a list created by [] is fixed by its first append
                    else:
                        raise Problem('loop-carried variable %s changes type inside the loop (%s -> %s)' % (nm, ty, t2))
                out.append(o2)
            return out

        def after(env2):
            out = dict(env_head)
            vals = cur(env2)
            for (nm, b, ty), o2 in zip(carried, vals):
                out[nm] = (o2, ty)
            return out

        def k_continue(env2):
            return Jump(lp, cur(env2))

        def k_break(env2):
            return k_rest(after(env2))

        env_body = dict(env_head)
        env_body.update(tbind)
        self.optvars = dict(self.optvars)
        for nm, b, ty in carried:
            if ty.startswith('opt:'):
                self.optvars.setdefault(nm, set()).add(ty)
        cons = self.block(list(s.body), env_body, k_continue, (k_continue, k_break))
        for nm, b, ty in carried:
            env_head[nm] = (V(b), ty)
        nil = k_rest(dict(env_head))
        init = [env[nm][0] for nm, _, _ in carried]
        return Fix(lp, nil, cons, itobj, init)

    def none_type(self, nm, body, env, tbind, lp):
        """type T of a variable that is None before the loop and assigned inside it (it becomes an option T):
        inferred from the assigned expressions (an `except .. as n` name is a unit; a may-raise call gives its value)"""
        probe = dict(env)
        probe.update(tbind)
        for st in body:
            for n in ast.walk(st):
                if isinstance(n, ast.ExceptHandler) and n.name:
                    probe[n.name] = (K('tt'), 'unit')
        tys = set()
        for st in body:
            for n in ast.walk(st):
                if isinstance(n, ast.Assign) and len(n.targets) == 1 and isinstance(n.targets[0], ast.Name) \
                        and n.targets[0].id == nm:
                    try:
                        _, ty = self.expr(n.value, probe)
                    except Problem as e:
                        raise Problem('cannot type the assignment to %s inside the loop: %s' % (nm, e))
                    if ty.startswith('opt:') and isinstance(n.value, ast.Call) and self.may_raise(n.value, probe):
                        ty = ty[4:]
                    tys.add(ty)
        if len(tys) != 1:
            raise Problem('type of %s (None before the loop, assigned inside) is not determined: %s' % (nm, sorted(tys)))
        return OPT(tys.pop())

    # ------------------------------------------------------------ expressions
    def cond(self, n, env):
        if isinstance(n, ast.BoolOp):
            return ('and' if isinstance(n.op, ast.And) else 'or', [self.cond(v, env) for v in n.values])
        if isinstance(n, ast.UnaryOp) and isinstance(n.op, ast.Not):
            return b_not(self.cond(n.operand, env))
        obj, ty = self.expr(n, env)
        if ty == 'bool':
            return obj if isinstance(obj, tuple) else b_atom(obj)
        if ty.startswith('list:') or ty.startswith('own:list:'):      # truth value of a list: non-empty
            return b_atom(A('nonempty_list', [obj]))
        if ty == 'text':                                               # a str is truthy iff non-empty
            return b_atom(A('nonempty', [obj]))
        if ty == 'kwargs':                                             # a dict is truthy iff it has keys
            return b_atom(A('nonempty_list', [obj]))
        if ty == 'matchdict':                                          # None or an empty dict are falsy
            return b_atom(A('matchdict_truthy', [obj]))
        if ty == OPT('text'):                                          # None or '' are falsy
            return b_atom(A('opt_text_truthy', [obj]))
        raise Problem('truth value of a %s is outside the table: %s' % (ty, u(n)))

    def term(self, n, env):
        obj, ty = self.expr(n, env)
        if isinstance(obj, tuple):
            obj = b_term(obj)
        return obj, ty

    def expr(self, n, env):
        if id(n) in self.repl:
            return self.repl[id(n)]
        if isinstance(n, ast.Name):
            if n.id in env:
                return env[n.id]
            g = self.spec.get('globals', {}).get(n.id) or GLOBALS.get(n.id)
            if g is not None:
                return g
            raise Problem('name %s is unbound here, or outside the table' % n.id)
        if isinstance(n, ast.Constant):
            if isinstance(n.value, bool):
                return ('const', n.value), 'bool'
            if n.value is None:
                return K('None'), NONE
            if isinstance(n.value, int):
                return K('(%d)%%Z' % n.value), 'Z'
            if isinstance(n.value, str):
                if self.spec.get('strings'):
                    return K(text_lit(n.value)), 'text'
                return None, ERASED
        if self.spec.get('strings'):
            got = self.string_expr(n, env)
            if got is not None:
                return got
        if isinstance(n, ast.List) and not n.elts:
            return K('nil'), 'own:list:?'
        if isinstance(n, ast.Tuple):
            parts = [self.expr(e, env) for e in n.elts]
            tys = {t for _, t in parts}
            if len(tys) == 1 and list(tys)[0] == 'vtype':      # a literal tuple of view-type interfaces: a list
                out = K('nil')
                for o, _ in reversed(parts):
                    out = A('cons', [o, out])
                return out, LIST('vtype')
            return parts, TUPLE
        if isinstance(n, (ast.UnaryOp, ast.BoolOp)) and not (isinstance(n, ast.UnaryOp) and isinstance(n.op, ast.USub)):
            return self.cond(n, env), 'bool'
        if isinstance(n, ast.BinOp):
            return self.binop(n, env)
        if isinstance(n, ast.Compare):
            if len(n.ops) != 1:
                raise Problem('chained comparison: %s' % u(n))
            return self.compare(n.ops[0], n.left, n.comparators[0], env, n), 'bool'
        if isinstance(n, ast.Attribute) and isinstance(n.value, ast.Name) and n.value.id in env \
                and env[n.value.id][1] == 'mutself':
            got = env.get('self.' + n.attr)
            if got is None:
                raise Problem('attribute of self outside the table: %s' % u(n))
            return got
        if isinstance(n, ast.Attribute):
            oobj, oty = self.expr(n.value, env)
            if oty in self.spec.get('selfattrs', {}) and n.attr in self.spec['selfattrs'][oty]:
                return self.spec['selfattrs'][oty][n.attr]
            ent = ATTR.get((oty, n.attr))
            if ent is None:
                raise Problem('attribute outside the table: %s (of a %s)' % (u(n), oty))
            return ent[0](oobj), ent[1]
        if isinstance(n, ast.Subscript):
            oobj, oty = self.expr(n.value, env)
            iobj, ity = self.term(n.slice, env)
            if oty == 'media' and ity == 'offer':
                # self.media_views[offer]: every offer of self.accepts has a media_views entry (MultiView.add)
                return A('media_get', [oobj, iobj]), LIST('entry')
            raise Problem('subscript outside the table: %s' % u(n))
        if isinstance(n, ast.Call):
            return self.call(n, env)
        raise Problem('expression outside the table: %s' % u(n))

    # ------------------------------------------------------------ string building (text() / phash() / constructors)
    def fmt_value(self, n, env, conv, whole):
        """the text a value contributes to a %s / {} / {!r} / %r slot"""
        obj, ty = self.term(n, env)
        if ty == 'rawhash':
            ty = 'text'
        if ty == 'text' and conv == 's':
            return obj                                   # str(s) is s
        if ty == 'bool':
            return A('bool_text', [obj])                 # str(True) = repr(True) = 'True'
        if ty == 'objstr' and conv == 's':
            return obj                                   # str() of a class / interface: oracle text shipped with the value
        if ty == 'strtuple' and conv == 's':
            return A('repr_tuple', [obj])                # str() of a tuple of plain str (ASSUMPTIONS: plain names)
        if ty == 'hashint':
            return A('dec', [obj])                       # str / repr of a non-negative int: decimal digits
        raise Problem('formatting a %s with conversion %s is outside the table: %s' % (ty, conv, u(whole)))

    def concat(self, parts):
        parts = [p for p in parts if not (isinstance(p, K) and p.text == EMPTY_TEXT)]
        if not parts:
            return K(EMPTY_TEXT)
        out = parts[-1]
        for p_ in reversed(parts[:-1]):
            out = A('app', [p_, out])
        return out

    def template(self, lit, slot_re, n, args, env):
        """a literal with conversion slots and the values that fill them, left to right"""
        import re as _re
        pieces = _re.split(slot_re, lit)
        convs = _re.findall(slot_re, lit)
        if len(convs) != len(args) or any('%' in x or '{' in x or '}' in x for x in pieces):
            raise Problem('format string outside the subset: %s' % u(n))
        parts = []
        for i, piece in enumerate(pieces):
            if piece:
                parts.append(K(text_lit(piece)))
            if i < len(args):
                parts.append(self.fmt_value(args[i], env, {'%s': 's', '%r': 'r', '{}': 's', '{!r}': 'r', '{!s}': 's'}[convs[i]], n))
        return self.concat(parts), 'text'

    def comprehension(self, n, env):
        if len(n.generators) != 1 or n.generators[0].ifs or n.generators[0].is_async:
            raise Problem('comprehension outside the subset: %s' % u(n))
        g = n.generators[0]
        lo, lt = self.expr(g.iter, env)
        if lt.startswith('own:'):
            lt = lt[4:]
        if not lt.startswith('list:'):
            raise Problem('comprehension over a %s: %s' % (lt, u(n)))
        el = lt[5:]
        x = self.fresh('x_c')
        env2 = dict(env)
        if isinstance(g.target, ast.Tuple) and el == 'split2' and len(g.target.elts) == 2 \
                and all(isinstance(e, ast.Name) for e in g.target.elts):
            # for a, b in <list of s.split(c, 1) results>: a piece list with one element is a ValueError (too few values)
            b = self.fresh('kv')
            env2[g.target.elts[0].id] = (A('fst', [V(b)]), 'text')
            env2[g.target.elts[1].id] = (A('snd', [V(b)]), 'text')
            bo, bt = self.term(n.elt, env2)
            if bt == TUPLE and [t for _, t in bo] == ['text', 'text']:
                bo, bt = A('pair', [bo[0][0], bo[1][0]]), 'kv'
            if bt in (ERASED, TUPLE, NONE):
                raise Problem('comprehension of %s values: %s' % (bt, u(n)))
            return A('map_opt', [Lam(x, el, MOpt(V(x), K('None'), b, A('Some', [bo]))), lo]), 'mayraise:' + LIST(bt)
        if isinstance(g.target, ast.Name):
            env2[g.target.id] = (V(x), el)
        elif isinstance(g.target, ast.Tuple) and el in PROJ and len(g.target.elts) == len(PROJ[el]) \
                and all(isinstance(e, ast.Name) for e in g.target.elts):
            for e, (pr, ty) in zip(g.target.elts, PROJ[el]):
                env2[e.id] = (None, ERASED) if pr == ERASED else (V(x) if pr is None else A(pr, [V(x)]), ty)
        else:
            raise Problem('comprehension target outside the table: %s' % u(n))
        bo, bt = self.term(n.elt, env2)
        if bt in (ERASED, TUPLE, NONE):
            raise Problem('comprehension of %s values: %s' % (bt, u(n)))
        return A('map', [Lam(x, el, bo), lo]), LIST(bt)

    def string_expr(self, n, env):
        if isinstance(n, ast.JoinedStr):
            parts = []
            for v in n.values:
                if isinstance(v, ast.Constant) and isinstance(v.value, str):
                    if v.value:
                        parts.append(K(text_lit(v.value)))
                elif isinstance(v, ast.FormattedValue) and v.format_spec is None and v.conversion in (-1, 114, 115):
                    parts.append(self.fmt_value(v.value, env, 'r' if v.conversion == 114 else 's', n))
                else:
                    raise Problem('f-string part outside the subset: %s' % u(n))
            return self.concat(parts), 'text'
        if isinstance(n, ast.BinOp) and isinstance(n.op, ast.Mod) and isinstance(n.left, ast.Constant) \
                and isinstance(n.left.value, str):
            args = list(n.right.elts) if isinstance(n.right, ast.Tuple) else [n.right]
            return self.template(n.left.value, r'%[sr]', n, args, env)
        if isinstance(n, ast.BinOp) and isinstance(n.op, ast.Add) and isinstance(n.right, ast.Attribute) \
                and isinstance(n.right.value, ast.Name) and env.get(n.right.value.id, (None, ''))[1] == 'parsed':
            x = n.right.value.id
            if u(n) != "%s.type + '/' + %s.subtype" % (x, x):
                raise Problem('expression over a parsed offer outside the table: %s' % u(n))
            return A('o_base', [env[x][0]]), 'text'      # type/subtype of the offer (oracle field)
        if isinstance(n, ast.BinOp) and isinstance(n.op, ast.Add):
            (lo, lt), (ro, rt) = self.term(n.left, env), self.term(n.right, env)
            if lt == 'text' and rt == 'text':
                return self.concat([lo, ro]), 'text'
            if lt == LIST('text') and rt == LIST('text'):
                return A('app', [lo, ro]), LIST('text')           # tuple + tuple
            if lt == TUPLE and rt == LIST('text') and all(t == 'text' for _, t in lo):
                out = ro
                for o, _ in reversed(lo):
                    out = A('cons', [o, out])
                return out, LIST('text')                          # ('lit', ..) + tuple
            if lt == LIST('text') and rt == TUPLE and all(t == 'text' for _, t in ro):
                out = K('nil')
                for o, _ in reversed(ro):
                    out = A('cons', [o, out])
                return A('app', [lo, out]), LIST('text')          # tuple + ('lit', ..)
            return None
        if isinstance(n, ast.Subscript) and isinstance(n.slice, ast.Slice) and n.slice.upper is None and n.slice.step is None \
                and isinstance(n.slice.lower, ast.Constant) and n.slice.lower.value == 1:
            xo, xt = self.term(n.value, env)
            if xt == 'text':
                return A('tl', [xo]), 'text'                      # s[1:]
            return None
        if isinstance(n, ast.Call) and isinstance(n.func, ast.Attribute) and not n.keywords \
                and n.func.attr in ('strip', 'startswith', 'split'):
            xo, xt = self.term(n.func.value, env)
            if xt != 'text':
                return None
            if n.func.attr == 'strip' and not n.args:
                return A('strip_ws', [xo]), 'text'                # str.strip(): characters with str.isspace()
            if n.func.attr == 'startswith' and len(n.args) == 1 and isinstance(n.args[0], ast.Constant) \
                    and isinstance(n.args[0].value, str):
                return A('starts_with', [K(text_lit(n.args[0].value)), xo]), 'bool'
            if n.func.attr == 'split' and len(n.args) == 2 and isinstance(n.args[0], ast.Constant) \
                    and isinstance(n.args[0].value, str) and len(n.args[0].value) == 1 \
                    and isinstance(n.args[1], ast.Constant) and n.args[1].value == 1:
                # s.split(c, 1) kept as a value: two pieces when c occurs (Some (before, after)), else one piece (None)
                return A('split1', [K('%d%%N' % ord(n.args[0].value)), xo]), 'split2'
            if n.func.attr == 'split' and len(n.args) == 1 and isinstance(n.args[0], ast.Constant) \
                    and isinstance(n.args[0].value, str) and len(n.args[0].value) == 1:
                return A('split_on', [K('%d%%N' % ord(n.args[0].value)), xo]), LIST('text')   # s.split('c'): every piece
            raise Problem('str method outside the table: %s' % u(n))
        if isinstance(n, (ast.ListComp, ast.GeneratorExp)):
            return self.comprehension(n, env)
        if isinstance(n, ast.IfExp):
            # `a if y else b` with y a possibly-None str: in the true branch y is a non-empty str
            env_t = env
            if isinstance(n.test, ast.Name) and n.test.id in env and env[n.test.id][1] == OPT('text'):
                env_t = dict(env)
                env_t[n.test.id] = (A('opt_text_get', [env[n.test.id][0]]), 'text')
            c = self.cond(n.test, env)
            (to, tt), (eo, et) = self.term(n.body, env_t), self.term(n.orelse, env)
            if tt != et:
                raise Problem('conditional expression with branches of types %s / %s: %s' % (tt, et, u(n)))
            if c[0] == 'const':
                return (to if c[1] else eo), tt
            return If(b_term(c), to, eo), tt
        if isinstance(n, ast.Call) and isinstance(n.func, ast.Attribute) and isinstance(n.func.value, ast.Constant) \
                and isinstance(n.func.value.value, str) and not n.keywords:
            lit = n.func.value.value
            if n.func.attr == 'join' and len(n.args) == 1:
                lo, lt = self.expr(n.args[0], env)
                if lt.replace('own:', '') != LIST('text'):
                    raise Problem('join of a %s: %s' % (lt, u(n)))
                return A('join', [K(text_lit(lit)), lo]), 'text'      # sep.join(l)
            if n.func.attr == 'format':
                return self.template(lit, r'\{(?:![rs])?\}', n, list(n.args), env)
        return None

    def binop(self, n, env):
        lo, lt = self.term(n.left, env)
        ro, rt = self.term(n.right, env)
        if lt == 'Z' and rt == 'Z':
            fmt = {'LShift': 'Z.shiftl', 'RShift': 'Z.shiftr', 'Add': 'Z.add', 'Sub': 'Z.sub', 'Mult': 'Z.mul',
                   'FloorDiv': 'Z.div', 'BitOr': 'Z.lor', 'BitAnd': 'Z.land'}.get(type(n.op).__name__)
            if fmt is None:
                raise Problem('int operator outside the subset: %s' % u(n))
            return A(fmt, [lo, ro]), 'Z'
        raise Problem('binary operator between a %s and a %s: %s' % (lt, rt, u(n)))

    def compare(self, op, l, r, env, whole):
        lo, lt = self.term(l, env)
        ro, rt = self.term(r, env)
        neg = isinstance(op, (ast.NotEq, ast.NotIn, ast.IsNot))
        b = None
        if isinstance(op, (ast.Eq, ast.NotEq)):
            if lt == 'text' and rt == 'text':
                b = b_atom(A('text_eqb', [lo, ro]))
            elif lt == 'Z' and rt == 'Z':
                b = b_atom(A('Z.eqb', [lo, ro]))
            elif lt == OPT('text') and rt == 'text':          # d.get(k) != v
                b = b_atom(A('opt_text_eqb', [lo, ro]))
            elif lt == 'bool' and rt == 'bool':
                b = b_atom(A('Bool.eqb', [lo, ro]))
            elif lt == LIST('text') and rt == LIST('text'):
                b = b_atom(A('texts_eqb', [lo, ro]))
        elif isinstance(op, (ast.In, ast.NotIn)):
            if lt == 'text' and rt == LIST('text'):
                b = b_atom(A('mem_text', [lo, ro]))
            elif lt == 'text' and rt == 'text' and isinstance(l, ast.Constant) and isinstance(l.value, str) \
                    and len(l.value) == 1:                    # 'c' in s : the character occurs
                b = b_atom(A('memN', [K('%d%%N' % ord(l.value)), ro]))
            elif lt == 'text' and rt == 'headers':            # name in request.headers
                b = b_atom(A('header_present', [RQ, lo]))
        elif isinstance(op, (ast.Is, ast.IsNot)):
            if lt == 'bool' and rt == 'bool':                 # bool(..) is self.val : identity of the two bool singletons
                b = b_atom(A('Bool.eqb', [lo, ro]))
            elif rt == NONE and lt == 'matchres':             # regex.match(s) is None
                b = b_not(b_atom(lo))
            elif rt == NONE and lt == OPT('loc'):
                b = b_not(b_atom(A('is_some', [lo])))
            elif rt == 'marker' and lt == 'namemark':         # getattr(context, '__name__', _marker) is _marker: no __name__
                b = b_not(b_atom(lo))
        if b is None:
            raise Problem('comparison outside the table (%s, %s): %s' % (lt, rt, u(whole)))
        return b_not(b) if neg else b

    def call(self, n, env):
        f = n.func
        args = n.args
        if isinstance(f, ast.Attribute) and u(f) == 'Accept.parse_offer' and 'Accept' not in env and len(args) == 1 \
                and not n.keywords:
            ao, at = self.expr(args[0], env)
            if at != 'offerv':
                raise Problem('Accept.parse_offer of a %s' % at)
            return ao, 'parsed'                       # WebOb (oracle): the model's offer record carries the parsed fields
        if isinstance(f, ast.Name) and f.id in env and env[f.id][1] == 'fn_foi':
            if len(args) != 2 or n.keywords:
                raise Problem('find_order_index(..): %s' % u(n))
            (ao, at), (do, dt) = self.term(args[0], env), self.term(args[1], env)
            if at == 'offerv':
                ao, at = A('o_full', [ao]), 'text'    # the offer as given (its normalised text)
            if at != 'text' or dt != 'Z':
                raise Problem('find_order_index of (%s, %s)' % (at, dt))
            return A('gen_find_order_index', [env['order'][0], ao, do]), 'Z'
        # ---- calls of values
        if isinstance(f, ast.Name) and f.id in env:
            obj, ty = env[f.id]
            if ty in ('comp', 'reg', 'body', 'pred', 'customfn') and len(args) == 2 and not n.keywords:
                a0, a1 = self.expr(args[0], env)[1], self.expr(args[1], env)[1]
                if (a0, a1) != ('context', 'request'):
                    raise Problem('view / predicate called with (%s, %s): %s' % (a0, a1, u(n)))
                if ty == 'comp':       # whatever adapter the lookup returned: a derived view or a MultiView (dispatch in the glue)
                    return A('gen_call_component', [RQ, obj]), OPT('tag')
                if ty == 'reg':        # a registered (derived) view: the callable predicated_view returned
                    return A('gen_predicated_view', [obj, RQ]), OPT('tag')
                if ty == 'body':       # the wrapped view itself: its body runs and answers with its tag
                    return A('Some', [A('r_tag', [obj])]), OPT('tag')
                if ty == 'pred':       # a predicate object: its __call__ (dispatch in the glue gen_eval_pred)
                    return A('gen_eval_pred', [RQ, obj]), 'bool'
                return A('custom_truth', [RQ, obj]), 'bool'      # CustomPredicate.func: a truth table (oracle)
            if ty == 'factory' and len(args) == 2:               # predicate_factory(realval, info): may raise (config error)
                vo, vt = self.expr(args[0], env)
                if vt == 'nval':                      # a value that is not a not_ instance is itself the value
                    vo, vt = A('snd', [vo]), 'pval'
                if vt != 'pval':
                    raise Problem('factory applied to a %s' % vt)
                return A('gen_factory', [obj, vo]), OPT('pred')
            if ty == 'registered':
                return self.call_registered(n, obj, env)
            raise Problem('call of a %s: %s' % (ty, u(n)))
        # ---- method calls
        if isinstance(f, ast.Attribute) and isinstance(f.value, ast.Name) and f.value.id in env \
                and env[f.value.id][1] in self.spec.get('selfattrs', {}) \
                and f.attr in self.spec['selfattrs'][env[f.value.id][1]] \
                and self.spec['selfattrs'][env[f.value.id][1]][f.attr][1] in ('pred', 'customfn'):
            obj, ty = self.spec['selfattrs'][env[f.value.id][1]][f.attr]
            a0, a1 = self.expr(args[0], env)[1], self.expr(args[1], env)[1]
            if len(args) != 2 or (a0, a1) != ('context', 'request'):
                raise Problem('predicate called with unexpected arguments: %s' % u(n))
            return (A('eval_pred', [RQ, obj]), 'bool') if ty == 'pred' else (A('custom_truth', [RQ, obj]), 'bool')
        if isinstance(f, ast.Attribute):
            if self.spec.get('strings') and isinstance(f.value, ast.Name) and f.value.id == 're' and f.attr == 'compile' \
                    and len(args) == 1 and not n.keywords and f.value.id not in env:
                ao, at = self.term(args[0], env)
                if at != 'text':
                    raise Problem('re.compile of a %s' % at)
                return ao, 'regex'                   # a compiled pattern is identified with its source text (oracle: q_regex)
            if isinstance(f.value, ast.Name) and f.value.id == 'itertools' and f.attr == 'product' and len(args) == 2:
                (ao, at), (bo, bt) = self.expr(args[0], env), self.expr(args[1], env)
                if (at, bt) != (LIST('iface'), LIST('iface')):
                    raise Problem('itertools.product of (%s, %s)' % (at, bt))
                return A('list_prod', [ao, bo]), LIST('ifpair')    # product(A, B): for a in A for b in B
            oobj, oty = self.expr(f.value, env)
            h = METHODS.get((oty, f.attr))
            if h is None:
                raise Problem('method outside the table: %s (on a %s)' % (u(n), oty))
            return h(self, n, oobj, env)
        if isinstance(f, ast.Name):
            h = CALLS.get(f.id)
            if h is None:
                raise Problem('call outside the table: %s' % u(n))
            return h(self, n, env)
        raise Problem('call outside the table: %s' % u(n))

    def call_registered(self, n, robj, env):
        """registered((classifier, req_type, ctx_type), view_type, name=view_name) -> R (mkSlot ..) vt"""
        if len(n.args) != 2 or [k.arg for k in n.keywords] != ['name']:
            raise Problem('registered(..) with unexpected arguments: %s' % u(n))
        parts, pty = self.expr(n.args[0], env)
        if pty != TUPLE or [t for _, t in parts] != ['cls', 'iface', 'iface']:
            raise Problem('registered(..): first argument is not (classifier, request iface, context iface): %s' % u(n))
        vo, vt = self.expr(n.args[1], env)
        no, nt = self.expr(n.keywords[0].value, env)
        if vt != 'vtype' or nt != 'viewname':
            raise Problem('registered(..): (%s, name=%s)' % (vt, nt))
        return A('registered_at', [robj, parts[0][0], parts[1][0], parts[2][0], no, vo]), OPT('comp')


GLOBALS = {
    '_marker': (None, 'marker'),
    'MAX_ORDER': (K('max_order'), 'Z'), 'DEFAULT_PHASH': (K('default_phash'), 'text'),
    'IView': (K('IView'), 'vtype'), 'ISecuredView': (K('ISecuredView'), 'vtype'), 'IMultiView': (K('IMultiView'), 'vtype'),
}


def _m_get_views(tr, n, oobj, env):          # self.get_views(request)
    if len(n.args) != 1 or tr.expr(n.args[0], env)[1] != 'request':
        raise Problem('get_views(..): %s' % u(n))
    return A('gen_get_views', [oobj, RQ]), LIST('entry')


def _m_acceptable(tr, n, oobj, env):         # request.accept.acceptable_offers(offers): WebOb (oracle qualities; see ASSUMPTIONS)
    if len(n.args) != 1:
        raise Problem('acceptable_offers(..): %s' % u(n))
    ao, at = tr.expr(n.args[0], env)
    if at == LIST('offer'):
        return A('acceptable_offers', [RQ, ao]), LIST('offerq')
    if at == LIST('text'):
        return A('acceptable_texts', [RQ, ao]), LIST('text')
    raise Problem('acceptable_offers of a %s' % at)


CACHE_KEY_TYPES = sorted(['reqiface', 'ctxiface', 'viewname', 'cls', LIST('vtype')])


def cache_key_ok(tr, key, env):
    """the key must be the tuple of exactly the inputs the lookup result depends on (request iface, context iface,
    view name, classifier, view types): only then is a cache entry a function of the key, which is what C15 / C05 use
    when they grant that reading the cache is a miss or the same list"""
    if not isinstance(key, ast.Tuple) or not all(isinstance(e, ast.Name) for e in key.elts):
        return False
    tys = sorted(tr.expr(e, env)[1] for e in key.elts)
    return tys == CACHE_KEY_TYPES


def _m_cache_get(tr, n, oobj, env):          # CACHE: cache.get(key) -> None (a miss); transparency is C15's theorem
    if len(n.args) != 1 or n.keywords or not cache_key_ok(tr, n.args[0], env):
        raise Problem('cache key is not the tuple of exactly the lookup inputs: %s' % u(n))
    tr.cache_keys = getattr(tr, 'cache_keys', []) + [u(n.args[0])]
    return K('None'), NONE


def _m_predicated(tr, n, oobj, env):         # view.__predicated__(context, request): the checker predicated_view attached
    return A('gen_checker', [RQ, oobj]), 'bool'


def _m_params_get(tr, n, oobj, env):         # request.params.get(k): oracle assoc (WebOb NestedMultiDict)
    ko, kt = tr.expr(n.args[0], env)
    if len(n.args) != 1 or kt != 'text':
        raise Problem('params.get(..): %s' % u(n))
    return A('assoc', [ko, A('q_params', [RQ])]), OPT('text')


def _m_headers_get(tr, n, oobj, env):        # request.headers.get(name): oracle assoc (WebOb EnvironHeaders)
    ko, kt = tr.expr(n.args[0], env)
    if len(n.args) != 1 or kt != 'text':
        raise Problem('headers.get(..): %s' % u(n))
    return A('assoc', [ko, A('q_headers', [RQ])]), OPT('text')


def _m_md_get(tr, n, oobj, env):             # request.matchdict.get(k) on a non-empty matchdict (str-valued entries)
    ko, kt = tr.expr(n.args[0], env)
    if len(n.args) != 1 or kt != 'text':
        raise Problem('matchdict.get(..): %s' % u(n))
    return A('matchdict_get', [oobj, ko]), OPT('text')


def _m_regex_match(tr, n, oobj, env):        # compiled_pattern.match(subject): oracle table
    so, st = tr.expr(n.args[0], env)
    if len(n.args) != 1 or st != 'text':
        raise Problem('regex match of a %s' % st)
    return A('regex_match', [A('q_regex', [RQ]), oobj, so]), 'matchres'


def _m_self_phash(tr, n, oobj, env):         # Notted.phash() of the Notted object itself
    return A('pred_phash', [A('PNot', [oobj])]), 'text'


def _m_sorted(tr, n, oobj, env):             # self.sorter.sorted(): the registered (name, factory) pairs in order (C18)
    return V('names'), LIST('namefac')


def _m_phash(tr, n, oobj, env):              # pred.phash(): the phash()/text() of the predicate's class (glue gen_pred_phash; inside
    return A(tr.spec.get('phash_fn', 'pred_phash'), [oobj]), 'rawhash'   # Notted.phash the inner call stays the model's pred_phash)


def _m_notted_text(tr, n, oobj, env):        # self._notted_text(val) of a Notted
    if len(n.args) != 1 or n.keywords:
        raise Problem('_notted_text(..): %s' % u(n))
    ao, at = tr.term(n.args[0], env)
    if at not in ('text', 'rawhash'):
        raise Problem('_notted_text of a %s' % at)
    return A('gen_notted_text', [ao]), 'text'


def _m_hexdigest(tr, n, oobj, env):          # sha256 modelled as injective: the digest is represented by its input
    return oobj, 'text'


def _m_options_get(tr, n, oobj, env):       # info.options.get(name[, None]): the option add_view was given
    a = n.args[0].value if n.args and isinstance(n.args[0], ast.Constant) else None
    if n.keywords or len(n.args) not in (1, 2) or (len(n.args) == 2 and u(n.args[1]) != 'None'):
        raise Problem('options.get(..): %s' % u(n))
    if a == 'accept':
        return A('r_accept', [oobj]), OPT('offer')
    if a in ('attr', 'permission'):
        return None, ERASED                     # not read by the lookup (permission: property C05)
    raise Problem('option outside the table: %s' % u(n))


METHODS = {
    ('options', 'get'): _m_options_get,
    ('sorter', 'sorted'): _m_sorted,
    ('selfnot', 'phash'): _m_self_phash,
    ('selfnot', '_notted_text'): _m_notted_text,
    ('pred', 'phash'): _m_phash,
    ('digest', 'hexdigest'): _m_hexdigest,
    ('mv', 'get_views'): _m_get_views,
    ('accepthdr', 'acceptable_offers'): _m_acceptable,
    ('cache', 'get'): _m_cache_get,
    ('reg', '__predicated__'): _m_predicated,
    ('params', 'get'): _m_params_get,
    ('headers', 'get'): _m_headers_get,
    ('matchdict', 'get'): _m_md_get,
    ('regex', 'match'): _m_regex_match,
}


def _c_hasattr(tr, n, env):
    oo, ot = tr.expr(n.args[0], env)
    a = n.args[1].value if len(n.args) == 2 and isinstance(n.args[1], ast.Constant) else None
    if ot == 'request' and a == 'accept':
        return ('const', True), 'bool'           # every pyramid Request has .accept
    if ot == 'reg' and a == '__predicated__':
        return A('nonempty_list', [A('r_preds', [oo])]), 'bool'   # predicated_view attaches it iff there are predicates
    raise Problem('hasattr outside the table: %s' % u(n))


def _c_getattr(tr, n, env):
    oo, ot = tr.expr(n.args[0], env)
    a = n.args[1].value if len(n.args) >= 2 and isinstance(n.args[1], ast.Constant) else None
    if ot == 'request' and a == 'request_iface' and len(n.args) == 3 and u(n.args[2]) == 'IRequest':
        return A('q_req_sro', [RQ]), 'reqiface'  # the router sets request.request_iface; its __sro__ is the oracle field
    if ot == 'context' and a == '__name__' and len(n.args) == 3 and u(n.args[2]) == '_marker':
        return A('q_has_name', [RQ]), 'namemark'     # oracle field: the context has a __name__ attribute
    if ot == 'request' and a == 'context' and len(n.args) == 3 and tr.expr(n.args[2], env)[1] == 'context':
        return None, 'context'                       # request.context is the context the router found
    if a == '__name__':
        return None, ERASED
    if ot == 'info' and a == 'order' and len(n.args) == 3 and u(n.args[2]) == 'MAX_ORDER':
        return A('r_order', [oo]), 'Z'
    if ot == 'info' and a == 'phash' and len(n.args) == 3 and u(n.args[2]) == 'DEFAULT_PHASH':
        return A('r_phash', [oo]), 'text'
    raise Problem('getattr outside the table: %s' % u(n))


def _c_find_views(tr, n, env):
    tys = [tr.expr(a, env)[1] for a in n.args]
    kws = {k.arg: tr.expr(k.value, env) for k in n.keywords}
    if tys != ['registry', 'reqiface', 'ctxiface', 'viewname'] or set(kws) != {'view_types', 'view_classifier'} \
            or kws['view_types'][1] != NONE or kws['view_classifier'][1] != 'cls':
        raise Problem('_find_views called with (%s; %s)' % (tys, {k: v[1] for k, v in kws.items()}))
    objs = [tr.expr(a, env)[0] for a in n.args]
    return A('gen_find_views', [objs[0], kws['view_classifier'][0], objs[1], objs[2], objs[3]]), LIST('comp')


def _c_all(tr, n, env):
    g = n.args[0] if len(n.args) == 1 else None
    if not isinstance(g, ast.GeneratorExp) or len(g.generators) != 1 or g.generators[0].ifs \
            or not isinstance(g.generators[0].target, ast.Name):
        raise Problem('all(..) outside the subset: %s' % u(n))
    lo, lt = tr.expr(g.generators[0].iter, env)
    if not lt.startswith('list:'):
        raise Problem('all(..) over a %s' % lt)
    x = tr.fresh('x_' + g.generators[0].target.id)
    env2 = dict(env)
    env2[g.generators[0].target.id] = (V(x), lt[5:])
    bo, bt = tr.term(g.elt, env2)
    if bt != 'bool':
        raise Problem('all(..) of %s values' % bt)
    return A('forallb', [Lam(x, lt[5:], bo), lo]), 'bool'


def _c_bool(tr, n, env):
    oo, ot = tr.expr(n.args[0], env)
    if ot == 'bool':
        return oo, 'bool'
    if ot.startswith('list:'):
        return A('nonempty_list', [oo]), 'bool'
    raise Problem('bool(..) of a %s' % ot)


def _c_len(tr, n, env):
    oo, ot = tr.expr(n.args[0], env)
    if 'list:' not in ot:
        raise Problem('len of a %s' % ot)
    return A('Z.of_nat', [A('length', [oo])]), 'Z'


def _c_sha256(tr, n, env):
    if n.args or n.keywords:
        raise Problem('sha256 with arguments')
    return K('nil'), 'digest'


def _c_hash(tr, n, env):                     # hash(self.func): a custom predicate is identified by its hash (Model: PCustom id)
    oo, ot = tr.expr(n.args[0], env)
    if len(n.args) != 1 or n.keywords or ot != 'customfn':
        raise Problem('hash(..) outside the table: %s' % u(n))
    return oo, 'hashint'


def _c_as_sorted_tuple(tr, n, env):          # util.as_sorted_tuple (pinned): a str becomes a 1-tuple (done by the glue: as_tuple), then sorted
    oo, ot = tr.term(n.args[0], env)
    if len(n.args) != 1 or n.keywords or ot.replace('own:', '') != LIST('text'):
        raise Problem('as_sorted_tuple outside the table: %s' % u(n))
    return A('sorted_texts', [oo]), LIST('text')


def _c_tuple(tr, n, env):                    # tuple(l) of a tuple / list of str: the same sequence
    oo, ot = tr.term(n.args[0], env)
    if len(n.args) != 1 or n.keywords or ot.replace('own:', '') != LIST('text'):
        raise Problem('tuple(..) outside the table: %s' % u(n))
    return oo, LIST('text')


def _c_filter(tr, n, env):                   # filter(None, l): the truthy (= non-empty) strings of l
    if len(n.args) != 2 or n.keywords or not (isinstance(n.args[0], ast.Constant) and n.args[0].value is None):
        raise Problem('filter(..) outside the table: %s' % u(n))
    oo, ot = tr.term(n.args[1], env)
    if ot.replace('own:', '') != LIST('text'):
        raise Problem('filter over a %s' % ot)
    return A('filter', [K('nonempty'), oo]), LIST('text')


def _c_list(tr, n, env):                     # list(l): a copy (values are immutable in the model)
    oo, ot = tr.expr(n.args[0], env)
    if len(n.args) != 1 or n.keywords or not ot.replace('own:', '').startswith('list:'):
        raise Problem('list(..) outside the table: %s' % u(n))
    return oo, ot.replace('own:', '')


def _c_set(tr, n, env):                      # set(self.accepts): the offers without repetition (ASSUMPTIONS: iteration order
    oo, ot = tr.expr(n.args[0], env)         # is irrelevant when the sort keys are distinct); kept in list order
    if len(n.args) != 1 or n.keywords or ot != LIST('offer'):
        raise Problem('set(..) outside the table: %s' % u(n))
    return oo, 'offerset'


def _c_sort_accept_offers(tr, n, env):       # config.predicates.sort_accept_offers (pinned): the model's function
    if len(n.args) != 2 or n.keywords:
        raise Problem('sort_accept_offers(..): %s' % u(n))
    (oo, ot), (ro, rt) = tr.expr(n.args[0], env), tr.expr(n.args[1], env)
    if ot not in ('offerset', LIST('offer')) or rt != OPT(LIST('text')):
        raise Problem('sort_accept_offers of (%s, %s)' % (ot, rt))
    return A('gen_sort_accept_offers', [oo, A('opt_list_get', [ro])]), LIST('offer')


def _c_next(tr, n, env):                     # next((i for i, x in enumerate(L) if x == v), default): first index of v in L
    g = n.args[0] if len(n.args) == 2 and not n.keywords else None
    if not isinstance(g, ast.GeneratorExp) or len(g.generators) != 1:
        raise Problem('next(..) outside the table: %s' % u(n))
    c = g.generators[0]
    it = c.iter
    if not (isinstance(it, ast.Call) and isinstance(it.func, ast.Name) and it.func.id == 'enumerate' and len(it.args) == 1
            and isinstance(c.target, ast.Tuple) and len(c.target.elts) == 2 and all(isinstance(e, ast.Name) for e in c.target.elts)
            and isinstance(g.elt, ast.Name) and g.elt.id == c.target.elts[0].id and len(c.ifs) == 1
            and isinstance(c.ifs[0], ast.Compare) and len(c.ifs[0].ops) == 1 and isinstance(c.ifs[0].ops[0], ast.Eq)):
        raise Problem('next(..) outside the table: %s' % u(n))
    xname = c.target.elts[1].id
    l, r = c.ifs[0].left, c.ifs[0].comparators[0]
    other = r if (isinstance(l, ast.Name) and l.id == xname) else l if (isinstance(r, ast.Name) and r.id == xname) else None
    if other is None or any(isinstance(m, ast.Name) and m.id in (xname, g.elt.id) for m in ast.walk(other)):
        raise Problem('next(..) outside the table: %s' % u(n))
    (lo, lt), (vo, vt), (do, dt) = tr.expr(it.args[0], env), tr.term(other, env), tr.term(n.args[1], env)
    if lt != LIST('text') or vt != 'text' or dt != 'Z':
        raise Problem('next(..) over (%s, %s, %s)' % (lt, vt, dt))
    b = tr.fresh('ix')
    return MOpt(A('index_of', [vo, lo, K('0%Z')]), do, b, V(b)), 'Z'


def _c_sorted(tr, n, env):                   # sorted(l, key=f): stable, ascending by the key tuples (lexicographic)
    if len(n.args) != 1 or [k.arg for k in n.keywords] != ['key'] or not isinstance(n.keywords[0].value, ast.Name) \
            or n.keywords[0].value.id != 'offer_sort_key' or 'offer_sort_key' not in tr.nested:
        raise Problem('sorted(..) outside the table: %s' % u(n))
    lo, lt = tr.expr(n.args[0], env)
    if lt != LIST('offer') or 'order' not in env or 'max_weight' not in env:
        raise Problem('sorted(..) of a %s' % lt)
    o, w = paren(env['order'][0], 0), paren(env['max_weight'][0], 0)
    return A('isort', [K('(fun a b : offer => key_leb (gen_offer_sort_key %s %s a) (gen_offer_sort_key %s %s b))' % (o, w, o, w)),
                       lo]), LIST('offer')


def _c_erased(tr, n, env):
    return None, ERASED


def _c_notted(tr, n, env):
    oo, ot = tr.expr(n.args[0], env)
    if len(n.args) != 1 or ot != 'pred':
        raise Problem('Notted(..) of a %s' % ot)
    return A('PNot', [oo]), 'pred'


def _c_bytes(tr, n, env):                    # bytes_(h): latin-1 bytes of the text (ASSUMPTIONS: predicate texts are latin-1)
    oo, ot = tr.expr(n.args[0], env)
    if len(n.args) != 1 or ot != 'text':
        raise Problem('bytes_ of a %s' % ot)
    return oo, 'text'


def _c_isinstance(tr, n, env):
    oo, ot = tr.expr(n.args[0], env)
    if len(n.args) == 2 and ot == 'nval' and u(n.args[1]) == 'not_':
        return A('fst', [oo]), 'bool'            # the model's value pairs carry the not_ flag
    raise Problem('isinstance outside the table: %s' % u(n))


def _c_find_interface(tr, n, env):           # traversal.find_interface (pinned): first location of the lineage that is / provides it
    if len(n.args) != 2 or tr.expr(n.args[0], env)[1] != 'context':
        raise Problem('find_interface(..): %s' % u(n))
    io, it = tr.expr(n.args[1], env)
    if it != 'ifaceid':
        raise Problem('find_interface of a %s' % it)
    return A('find_iface', [RQ, io]), OPT('loc')


def _c_rpt(tr, n, env):                      # traversal.resource_path_tuple (pinned): names along the lineage, root first
    if len(n.args) != 1 or tr.expr(n.args[0], env)[1] != 'context':
        raise Problem('resource_path_tuple(..): %s' % u(n))
    return A('rev', [A('map', [K('fst'), A('q_lineage', [RQ])])]), LIST('text')


CALLS = {'find_interface': _c_find_interface, 'resource_path_tuple': _c_rpt, 'sha256': _c_sha256, 'PredicateInfo': _c_erased, 'Notted': _c_notted, 'bytes_': _c_bytes,
         'isinstance': _c_isinstance, 'hasattr': _c_hasattr, 'getattr': _c_getattr, '_find_views': _c_find_views, 'all': _c_all, 'bool': _c_bool,
         'len': _c_len, 'hash': _c_hash, 'as_sorted_tuple': _c_as_sorted_tuple, 'tuple': _c_tuple,
         'filter': _c_filter, 'list': _c_list, 'set': _c_set, 'sort_accept_offers': _c_sort_accept_offers, 'next': _c_next, 'sorted': _c_sorted}


# ------------------------------------------------------------------ the translated functions
def conv_opt(ty):
    """functions whose Python result is `value or raise`: return e -> Some e"""
    def f(obj, t):
        if t == ty:
            return A('Some', [obj])
        if t == OPT(ty):
            return obj
        return None
    return f


def conv_id(ty):
    def f(obj, t):
        if t == ty or (t.startswith('own:') and t[4:] == ty):
            return b_term(obj) if isinstance(obj, tuple) else obj
        return None
    return f


def conv_result(obj, t):
    """_call_view: the router turns a None response into NotFound; a response is identified by the tag of its body"""
    if t == OPT('tag'):
        return A('result_of_response', [obj])
    if t == 'tag':
        return A('Ran', [obj])
    if t == NONE:
        return K('NotFoundNone')
    return None


def _closure_predicated(outer):
    """names of predicated_view visible in its nested functions: its first parameter (the wrapped view) and the
    local assigned from info.predicates"""
    env = {outer.args.args[0].arg: (V('v'), 'body')}
    for st in outer.body:
        if isinstance(st, ast.Assign) and len(st.targets) == 1 and isinstance(st.targets[0], ast.Name) \
                and u(st.value) == '%s.predicates' % outer.args.args[1].arg:
            env[st.targets[0].id] = (A('r_preds', [V('v')]), LIST('pred'))
    return env


CTXP = (None, 'context')
REQP = (RQ, 'request')
PM = {'PredicateMismatch': K('None')}

FUNCS = [
    dict(file='pyramid/config/views.py', qual='predicated_view.checker', gen='gen_checker', sig='(rq : request) (v : reg) : bool',
         ret='bool', params=[CTXP, REQP], closure=_closure_predicated, ret_conv=conv_id('bool')),
    dict(file='pyramid/config/views.py', qual='predicated_view.predicate_wrapper', gen='gen_predicate_wrapper',
         sig='(rq : request) (v : reg) : option N', ret=OPT('tag'), params=[CTXP, REQP], closure=_closure_predicated,
         ret_conv=conv_opt('tag'), **{'raise': PM}),
    dict(file='pyramid/config/views.py', qual='predicated_view', gen='gen_predicated_view',
         sig='(v : reg) : request -> option N', ret='call', params=[(V('v'), 'body'), (V('v'), 'info')],
         ret_conv=lambda obj, t: Lam('rq', 'request', A('Some', [A('r_tag', [obj])])) if t == 'body' else None,
         ret_nested=lambda name: {'predicate_wrapper': Lam('rq', 'request', A('gen_predicate_wrapper', [RQ, V('v')]))}[name]),
    dict(file='pyramid/config/views.py', qual='MultiView.get_views', gen='gen_get_views', sig='(m : mview) (rq : request) : list entry',
         ret=LIST('entry'), params=[(V('m'), 'mv'), REQP], ret_conv=conv_id(LIST('entry'))),
    dict(file='pyramid/config/views.py', qual='attr_wrapped_view', gen='gen_attr_wrapped', sig='(v : reg) : bool', ret='bool',
         params=[(V('v'), 'body'), (V('v'), 'info')],
         ret_conv=lambda obj, t: K('false') if t == 'body' else None,      # the view itself: no attribute exists on it
         ret_nested=lambda name: {'attr_view': K('true')}[name],            # the wrapper, carrying the three attributes
         nested_attrs={'__accept__': 'r_accept v', '__order__': 'r_order v', '__phash__': 'r_phash v'}),
    dict(file='pyramid/config/views.py', qual='MultiView.add', gen='gen_mv_add',
         sig='(m : mview) (v : reg) (order : Z) (phash : text) (accept : option offer) (ao : option (list text)) : mview',
         ret='mview', mutself=True, never_none=('phash',), sorter_params=True, listcomp_ok=True,
         params=[(V('m'), 'mutself'), (V('v'), 'reg'), (V('order'), 'Z'), (V('phash'), 'text'), (V('accept'), OPT('offer')),
                 (V('ao'), OPT(LIST('text')))],
         defaults={3: 'None', 4: 'None', 5: 'None'}, ret_conv=lambda obj, t: None,
         init_env={'self.views': (A('mv_views', [V('m')]), LIST('entry')), 'self.media_views': (A('mv_media', [V('m')]), 'media'),
                   'self.accepts': (A('mv_accepts', [V('m')]), LIST('offer'))},
         end_fn=lambda env: A('mkMV', [env['self.views'][0], env['self.media_views'][0], env['self.accepts'][0]])),
    dict(file='pyramid/config/views.py', qual='MultiView.match', gen='gen_mv_match', sig='(m : mview) (rq : request) : option reg',
         ret=OPT('reg'), params=[(V('m'), 'mv'), CTXP, REQP], ret_conv=conv_opt('reg'), **{'raise': PM}),
    dict(file='pyramid/config/views.py', qual='MultiView.__call__', gen='gen_mv_call', sig='(m : mview) (rq : request) : option N',
         ret=OPT('tag'), params=[(V('m'), 'mv'), CTXP, REQP], ret_conv=conv_opt('tag'), catch=('PredicateMismatch',),
         **{'raise': PM}),
    dict(glue='''(* GLUE (table): calling whatever adapter the lookup returned dispatches on its kind -- a derived view is the
   callable predicated_view returned, a MultiView its __call__ *)
Definition gen_call_component (rq : request) (c : component) : option N :=
  match c with CView v => gen_predicated_view v rq | CMulti m => gen_mv_call m rq end.
'''),
    dict(file='pyramid/view.py', qual='_find_views', gen='gen_find_views',
         sig='(R : registry) (cls : N) (rsro csro : list N) (name : text) : list component', ret=LIST('comp'),
         params=[(V('R'), 'registry'), (V('rsro'), 'reqiface'), (V('csro'), 'ctxiface'), (V('name'), 'viewname'),
                 (K('None'), NONE), (V('cls'), 'cls')],
         defaults={4: 'None', 5: 'None'}, defaulted={'cls': 'IViewClassifier'}, ret_conv=conv_id(LIST('comp'))),
    dict(file='pyramid/view.py', qual='_call_view', gen='gen_call_view',
         sig='(R : registry) (cls : N) (rq : request) : result', ret='result',
         params=[(V('R'), 'registry'), REQP, CTXP, (A('q_ctx_sro', [RQ]), 'ctxiface'), (A('q_view_name', [RQ]), 'viewname'),
                 (K('None'), NONE), (V('cls'), 'cls'), (('const', True), 'bool'), (K('None'), NONE)],
         defaults={5: 'None', 6: 'None', 7: 'True', 8: 'None'}, ret_conv=conv_result, catch=('PredicateMismatch',),
         **{'raise': {'<caught>': K('NotFoundPme')}}),
]

def _conv_make(obj, t):
    if t == TUPLE and [x[1].replace('own:', '') for x in obj] == ['Z', LIST('pred'), 'text']:
        return A('Some', [A('pair', [A('pair', [obj[0][0], obj[1][0]]), obj[2][0]])])
    return None


FUNCS.append(dict(
    file='pyramid/config/predicates.py', qual='PredicateList.make', gen='gen_make',
    sig='(names : list text) (kw : kwargs) : option (Z * list pred * text)', ret=OPT('triple'),
    params=[(None, 'plist'), (None, ERASED)], kwarg=(V('kw'), 'kwargs'), ret_conv=_conv_make, listcomp_ok=True,
    error_branch_erased=True, propagate=K('None'), phash_fn='gen_pred_phash', **{'raise': {'ConfigurationError': K('None')}}))

def _pred(cls, gen, sig, attrs, selfty='self'):
    return dict(file='pyramid/predicates.py', qual=cls + '.__call__', gen=gen, sig=sig + ' (rq : request) : bool', ret='bool',
                params=[(V('p') if selfty == 'selfnot' else None, selfty), CTXP, REQP], selfattrs={selfty: attrs},
                ret_conv=conv_id('bool'))


_PRED_FUNCS = [
    _pred('XHRPredicate', 'gen_pred_xhr', '(b : bool)', {'val': (V('b'), 'bool')}),
    _pred('RequestMethodPredicate', 'gen_pred_request_method', '(vals : list text)', {'val': (V('vals'), LIST('text'))}),
    _pred('PathInfoPredicate', 'gen_pred_path_info', '(pat : text)', {'val': (V('pat'), 'regex')}),
    _pred('RequestParamPredicate', 'gen_pred_request_param', '(reqs : list (text * option text))',
          {'reqs': (V('reqs'), LIST('kvo'))}),
    _pred('HeaderPredicate', 'gen_pred_header', '(vals : list (text * option text))', {'val': (V('vals'), LIST('hdr3'))}),
    _pred('AcceptPredicate', 'gen_pred_accept', '(values : list text)', {'values': (V('values'), LIST('text'))}),
    _pred('ContainmentPredicate', 'gen_pred_containment', '(i : N)', {'val': (V('i'), 'ifaceid')}),
    _pred('MatchParamPredicate', 'gen_pred_match_param', '(reqs : list (text * text))', {'reqs': (V('reqs'), LIST('kv'))}),
    _pred('PhysicalPathPredicate', 'gen_pred_physical_path', '(val : list text)', {'val': (V('val'), LIST('text'))}),
    _pred('IsAuthenticatedPredicate', 'gen_pred_is_authenticated', '(b : bool)', {'val': (V('b'), 'bool')}),
    _pred('CustomPredicate', 'gen_pred_custom', '(i : N)', {'func': (V('i'), 'customfn')}),
    _pred('Notted', 'gen_pred_not', '(p : pred)', {'predicate': (V('p'), 'pred')}, selfty='selfnot'),
]


def _text(cls, meth, gen, sig, attrs, selfty='self', extra=()):
    return dict(file='pyramid/predicates.py', qual='%s.%s' % (cls, meth), gen=gen, sig=sig + ' : text', ret='text',
                params=[(V('p') if selfty == 'selfnot' else None, selfty)] + list(extra), selfattrs={selfty: attrs},
                ret_conv=lambda obj, t: (b_term(obj) if isinstance(obj, tuple) else obj) if t in ('text', 'rawhash') else None,
                strings=True, listcomp_ok=True)


# text() of the stock predicate classes (their phash() is the same function: `phash = text`, CLASS_HEADERS), the phash() of
# CustomPredicate and of Notted: the identity of a registration inside its slot is the digest of these texts
_TEXT_FUNCS = [
    _text('XHRPredicate', 'text', 'gen_text_xhr', '(b : bool)', {'val': (V('b'), 'bool')}),
    _text('RequestMethodPredicate', 'text', 'gen_text_request_method', '(vals : list text)', {'val': (V('vals'), LIST('text'))}),
    _text('PathInfoPredicate', 'text', 'gen_text_path_info', '(orig : text)', {'orig': (V('orig'), 'text')}),
    _text('RequestParamPredicate', 'text', 'gen_text_request_param', '(reqs : list (text * option text))',
          {'reqs': (V('reqs'), LIST('kvo'))}),
    _text('HeaderPredicate', 'text', 'gen_text_header', '(vals : list (text * option text))', {'val': (V('vals'), LIST('hdr3t'))}),
    _text('AcceptPredicate', 'text', 'gen_text_accept', '(values : list text)', {'values': (V('values'), LIST('text'))}),
    _text('ContainmentPredicate', 'text', 'gen_text_containment', '(s : text)', {'val': (V('s'), 'objstr')}),
    _text('MatchParamPredicate', 'text', 'gen_text_match_param', '(reqs : list (text * text))', {'reqs': (V('reqs'), LIST('kv'))}),
    _text('PhysicalPathPredicate', 'text', 'gen_text_physical_path', '(val : list text)', {'val': (V('val'), 'strtuple')}),
    _text('IsAuthenticatedPredicate', 'text', 'gen_text_is_authenticated', '(b : bool)', {'val': (V('b'), 'bool')}),
    _text('CustomPredicate', 'phash', 'gen_phash_custom', '(i : N)', {'func': (V('i'), 'customfn')}),
    _text('Notted', '_notted_text', 'gen_notted_text', '(val : text)', {}, selfty='selfnt', extra=[(V('val'), 'text')]),
    _text('Notted', 'phash', 'gen_phash_not', '(p : pred)', {'predicate': (V('p'), 'pred')}, selfty='selfnot'),
    dict(glue='''(* GLUE (table): phash() of a predicate object is the phash of its class (for the stock classes `phash = text`:
   class-level statement lists are checked); a third-party predicate brings its own text; the inner call of Notted.phash
   stays pred_phash *)
Definition gen_pred_phash (p : pred) : text :=
  match p with
  | PXhr v => gen_text_xhr v
  | PMethod vals => gen_text_request_method vals
  | PPathInfo o => gen_text_path_info o
  | PParam reqs => gen_text_request_param reqs
  | PHeader vals => gen_text_header vals
  | PAccept values => gen_text_accept values
  | PContainment _ s => gen_text_containment s
  | PMatchParam reqs => gen_text_match_param reqs
  | PPhysPath val => gen_text_physical_path val
  | PIsAuth v => gen_text_is_authenticated v
  | PCustom i => gen_phash_custom i
  | PThird _ ph => ph
  | PNot q => gen_phash_not q
  end.
'''),
]

def _init(cls, gen, fields, ctor, sig='(l : list text) : option pred', param=None, **kw):
    def end_fn(env):
        args = []
        for f, ty in fields:
            got = env.get('self.' + f)
            if got is None or got[1] != ty:
                raise Problem('%s.__init__: field %s is %s at the end, expected a %s' % (cls, f, got[1] if got else 'unset', ty))
            args.append(got[0])
        return A('Some', [A(ctor, args)])
    return dict(file='pyramid/predicates.py', qual=cls + '.__init__', gen=gen, sig=sig, ret=OPT('pred'),
                params=[(None, 'selfinit'), param or (V('l'), LIST('text')), (None, ERASED)], ret_conv=lambda obj, t: None,
                end_fn=end_fn, strings=True, raise_value=K('None'), **kw)


# constructors of the predicate classes that normalise their value (the glue hands them the value as a tuple of str:
# as_tuple of the model = `if not is_nonstr_iter(val): val = (val,)` of the pinned util.as_sorted_tuple)
_INIT_FUNCS = [
    _init('RequestMethodPredicate', 'gen_mk_request_method', [('val', LIST('text'))], 'PMethod'),
    _init('RequestParamPredicate', 'gen_mk_request_param', [('reqs', LIST('kvo'))], 'PParam', pair_as='kvo'),
    _init('PhysicalPathPredicate', 'gen_mk_physical_path', [('val', LIST('text'))], 'PPhysPath',
          sig='(v : pval) : option pred', param=(V('v'), 'pval')),
    _init('MatchParamPredicate', 'gen_mk_match_param', [('reqs', LIST('kv'))], 'PMatchParam', listcomp_ok=True),
    _init('HeaderPredicate', 'gen_mk_header', [('val', LIST('kvo'))], 'PHeader', pair_as='hdr', catch_unmodelled=('re.error',)),
    dict(glue='''(* GLUE (table): the factory registered under a predicate name is the constructor of its class
   (add_default_view_predicates, pinned); constructors that are not translated stay the model's *)
Definition gen_factory (name : text) (v : pval) : option pred :=
  if text_eqb name nm_request_method then match as_tuple v with Some l => gen_mk_request_method l | None => None end
  else if text_eqb name nm_request_param then match as_tuple v with Some l => gen_mk_request_param l | None => None end
  else if text_eqb name nm_header then match as_tuple v with Some l => gen_mk_header l | None => None end
  else if text_eqb name nm_match_param then match as_tuple v with Some l => gen_mk_match_param l | None => None end
  else if text_eqb name nm_physical_path then gen_mk_physical_path v
  else factory name v.
'''),
]

def _conv_key2(obj, t):
    if t == TUPLE and [x[1] for x in obj] == ['Z', 'Z']:
        return A('pair', [obj[0][0], obj[1][0]])
    return None


_CP = 'pyramid/config/predicates.py'
_SORT_FUNCS = [
    dict(file=_CP, qual='sort_accept_offers.find_order_index', gen='gen_find_order_index',
         sig='(order : list text) (value : text) (default : Z) : Z', ret='Z', params=[(V('value'), 'text'), (V('default'), 'Z')],
         defaults={1: 'None'}, closure=lambda outer: {'order': (V('order'), LIST('text'))}, ret_conv=conv_id('Z')),
    dict(file=_CP, qual='sort_accept_offers.offer_sort_key', gen='gen_offer_sort_key',
         sig='(order : list text) (maxw : Z) (o : offer) : Z * Z', ret='key2', params=[(V('o'), 'offerv')], strings=True,
         closure=lambda outer: {'order': (V('order'), LIST('text')), 'max_weight': (V('maxw'), 'Z'),
                                'find_order_index': (None, 'fn_foi')}, ret_conv=_conv_key2),
    dict(file=_CP, qual='sort_accept_offers', gen='gen_sort_accept_offers',
         sig='(offers : list offer) (order : list text) : list offer', ret=LIST('offer'),
         params=[(V('offers'), LIST('offer')), (V('order'), LIST('text'))], defaults={1: 'None'},
         defaulted={LIST('text'): '[]'}, ret_conv=conv_id(LIST('offer'))),
]

FUNCS = _TEXT_FUNCS + _INIT_FUNCS + _SORT_FUNCS + _PRED_FUNCS + [dict(glue='''(* GLUE (table): calling a predicate object runs the __call__ of its class (the constructor of the model's [pred]);
   third-party predicates are truth tables (nothing to translate); the inner call of Notted stays eval_pred *)
Definition gen_eval_pred (rq : request) (p : pred) : bool :=
  match p with
  | PXhr v => gen_pred_xhr v rq
  | PMethod vals => gen_pred_request_method vals rq
  | PPathInfo o => gen_pred_path_info o rq
  | PParam reqs => gen_pred_request_param reqs rq
  | PHeader vals => gen_pred_header vals rq
  | PAccept values => gen_pred_accept values rq
  | PContainment i _ => gen_pred_containment i rq
  | PMatchParam reqs => gen_pred_match_param reqs rq
  | PPhysPath val => gen_pred_physical_path val rq
  | PIsAuth v => gen_pred_is_authenticated v rq
  | PCustom i => gen_pred_custom i rq
  | PThird i ph => eval_pred rq (PThird i ph)
  | PNot q => gen_pred_not q rq
  end.
''')] + FUNCS

PRELUDE = '''(* GENERATED by harness/c03/translate.py from /repo/src on every run -- do not edit.
   Control flow translated mechanically; leaves through the primitive table of that file. *)
From Coq Require Import List NArith ZArith Bool.
Import ListNotations.
Require Import Verif.Lib.Wire Verif.Lib.Text Verif.Gen.Facts_C03 Verif.Model.C03.

(* ---- primitives of the table that are not already definitions of Model/C03.v *)
Definition nonempty_list {A} (l : list A) : bool := match l with [] => false | _ => true end.
Definition media_get (m : mview) (o : offer) : list entry :=
  match assoc (o_full o) (mv_media m) with Some s => s | None => [] end.
Definition registered_at (R : registry) (cls r c : N) (name : text) (vt : vtype) : option component :=
  R (mkSlot cls r c name) vt.
Definition result_of_response (o : option N) : result := match o with Some t => Ran t | None => NotFoundNone end.
Definition matchdict_truthy (md : option (list (text * text))) : bool :=
  match md with None | Some [] => false | Some _ => true end.
Definition matchdict_get (md : option (list (text * text))) (k : text) : option text :=
  match md with Some l => assoc k l | None => None end.
Definition opt_text_truthy (o : option text) : bool := match o with Some (_ :: _) => true | _ => false end.
Definition header_present (rq : request) (n : text) : bool :=
  match assoc n (q_headers rq) with Some _ => true | None => false end.
Definition is_some {A} (o : option A) : bool := match o with Some _ => true | None => false end.
Definition custom_truth (rq : request) (i : N) : bool := memN i (q_truth rq).
Definition acceptable_texts (rq : request) (l : list text) : list text := filter (fun o => N.ltb 0 (offer_q rq o)) l.
Definition factory_of (name : text) : text := name.
Definition find_iface (rq : request) (i : N) : option (text * list N) := find (fun loc => memN i (snd loc)) (q_lineage rq).
Definition kw_del (k : text) (kw : kwargs) : kwargs := filter (fun e => negb (text_eqb (fst e) k)) kw.
Definition opt_text_get (o : option text) : text := match o with Some t => t | None => [] end.
Definition media_lookup (md : list (text * list entry)) (o : offer) : list entry :=
  match assoc (o_full o) md with Some s => s | None => [] end.
Definition media_store (md : list (text * list entry)) (o : offer) (v : list entry) : list (text * list entry) :=
  media_set (o_full o) v md.
Fixpoint list_set {A} (i : Z) (x : A) (l : list A) : list A :=
  match l with [] => [] | y :: r => if Z.eqb i 0 then x :: r else y :: list_set (i - 1)%Z x r end.
Definition offerset_add (a : offer) (l : list offer) : list offer := if offer_mem a l then l else l ++ [a].
Definition opt_list_get {A} (o : option (list A)) : list A := match o with Some l => l | None => [] end.
Fixpoint starts_with (pre s : text) : bool :=
  match pre, s with
  | [], _ => true
  | a :: pre', b :: s' => N.eqb a b && starts_with pre' s'
  | _ :: _, [] => false
  end.

'''


def find_qual(tree, qual):
    node = tree
    for part in qual.split('.'):
        nxt = [c for c in node.body if isinstance(c, (ast.FunctionDef, ast.ClassDef)) and c.name == part]
        if len(nxt) != 1:
            return None, None
        outer, node = node, nxt[0]
    return node, outer


def load_fallback():
    try:
        with open(FALLBACK) as f:
            return json.load(f)
    except (OSError, ValueError):
        return {}


def translate_tree(src_root, only=None):
    problems, out, summary = [], [PRELUDE], {}
    fb = load_fallback()
    trees = {}
    for spec in FUNCS:
        if 'glue' in spec:
            out.append(spec['glue'])
            continue
        gen = spec['gen']
        body = None
        rel = spec['file']
        if rel not in trees:
            try:
                with open(os.path.join(src_root, rel)) as f:
                    trees[rel] = ast.parse(f.read())
            except (OSError, SyntaxError) as e:
                trees[rel] = None
                problems.append('translator: cannot parse %s: %s' % (rel, e))
        tree = trees[rel]
        if tree is not None:
            fn, outer = find_qual(tree, spec['qual'])
            if fn is None:
                problems.append('translator: %s not found (exactly once) in %s' % (spec['qual'], rel))
            else:
                tr = FnTranslator(fn, spec, outer)
                try:
                    body = render(tr.translate(), 2)
                except Problem as e:
                    problems.append('translator: %s: %s' % (spec['qual'], e))
                except RecursionError:
                    problems.append('translator: %s: nesting too deep' % spec['qual'])
        if body is None:
            summary[gen] = 'FALLBACK (stored translation of the reference text)'
            body = fb.get(gen)
            if body is None:
                problems.append('translator: no stored fallback for %s' % gen)
                body = spec.get('dummy', 'None')
        else:
            summary[gen] = 'translated from source (%d lines of Gallina)' % (body.count('\n') + 1)
        out.append('Definition %s %s :=\n  %s.\n' % (gen, spec['sig'], body))
    for rel in {r for r, _, _ in BINDINGS} | {r for r, _ in CLASS_HEADERS}:
        if rel not in trees:
            try:
                with open(os.path.join(src_root, rel)) as f:
                    trees[rel] = ast.parse(f.read())
            except (OSError, SyntaxError):
                trees[rel] = None
    check_bindings(trees, problems)
    return '\n'.join(out), problems, summary


# ------------------------------------------------------------------ class bodies and module-level bindings the table relies on
BINDINGS = [   # (file, name, module it must be imported from -- and bound nowhere else at module level)
    ('pyramid/view.py', 'IView', 'pyramid.interfaces'), ('pyramid/view.py', 'ISecuredView', 'pyramid.interfaces'),
    ('pyramid/view.py', 'IMultiView', 'pyramid.interfaces'), ('pyramid/view.py', 'IViewClassifier', 'pyramid.interfaces'),
    ('pyramid/view.py', 'IRequest', 'pyramid.interfaces'), ('pyramid/view.py', 'PredicateMismatch', 'pyramid.exceptions'),
    ('pyramid/config/views.py', 'PredicateMismatch', 'pyramid.exceptions'),
    ('pyramid/config/views.py', 'IMultiView', 'pyramid.interfaces'),
    ('pyramid/config/predicates.py', 'Notted', 'pyramid.predicates'), ('pyramid/config/predicates.py', 'predvalseq', 'pyramid.registry'),
    ('pyramid/config/predicates.py', 'is_nonstr_iter', 'pyramid.util'), ('pyramid/config/predicates.py', 'bytes_', 'pyramid.util'),
    ('pyramid/config/predicates.py', 'sha256', 'hashlib'),
    ('pyramid/predicates.py', 'find_interface', 'pyramid.traversal'), ('pyramid/predicates.py', 'resource_path_tuple', 'pyramid.traversal'),
]
# class -> (decorators, bases, class-level statements other than defs/docstrings) as unparsed text
CLASS_HEADERS = {
    ('pyramid/config/views.py', 'MultiView'): (['implementer(IMultiView)'], [], []),
    ('pyramid/config/predicates.py', 'PredicateList'): ([], [], []),
    ('pyramid/config/predicates.py', 'not_'): ([], [], []),
    ('pyramid/predicates.py', 'CustomPredicate'): ([], [], []),
    ('pyramid/predicates.py', 'Notted'): ([], [], []),
    # classes whose attributes the table reads or whose state the lookup uses: exact class-level statements, so that
    # no mutable (shared) class-level attribute and no rebinding can appear unnoticed
    ('pyramid/registry.py', 'Registry'): ([], ['Components', 'dict'],
                                          ['has_listeners = False', '_settings = None',
                                           'settings = property(_get_settings, _set_settings)']),
    ('pyramid/router.py', 'Router'): (['implementer(IRouter)'], [], ['debug_notfound = False', 'debug_routematch = False']),
    ('pyramid/security.py', 'SecurityAPIMixin'): ([], [], []),
    ('pyramid/request.py', 'Request'): (['implementer(IRequest)'],
                                        ['BaseRequest', 'URLMethodsMixin', 'CallbackMethodsMixin', 'InstancePropertyMixin',
                                         'LocalizerRequestMixin', 'SecurityAPIMixin', 'AuthenticationAPIMixin',
                                         'ViewMethodsMixin'],
                                        ['exception = None', 'exc_info = None', 'matchdict = None', 'matched_route = None',
                                         'request_iface = IRequest', 'ResponseClass = Response']),
}
for _c in ('XHRPredicate', 'RequestMethodPredicate', 'PathInfoPredicate', 'RequestParamPredicate', 'HeaderPredicate',
           'AcceptPredicate', 'ContainmentPredicate', 'MatchParamPredicate', 'PhysicalPathPredicate',
           'IsAuthenticatedPredicate'):
    CLASS_HEADERS[('pyramid/predicates.py', _c)] = ([], [], ['phash = text'])   # phash() is text(): the model's pred_phash


def check_bindings(trees, problems):
    for rel, name, module in BINDINGS:
        tree = trees.get(rel)
        if tree is None:
            continue
        got = []
        for st in ast.walk(tree):
            if isinstance(st, ast.ImportFrom):
                for al in st.names:
                    if (al.asname or al.name) == name:
                        got.append('from %s import %s' % (st.module, al.name))
        for st in tree.body:
            if isinstance(st, (ast.FunctionDef, ast.ClassDef)) and st.name == name:
                got.append('def/class')
            if isinstance(st, (ast.Assign, ast.AnnAssign, ast.AugAssign)):
                for tg in (st.targets if isinstance(st, ast.Assign) else [st.target]):
                    if any(isinstance(n, ast.Name) and n.id == name for n in ast.walk(tg)):
                        got.append('assign')
        if got != ['from %s import %s' % (module, name)]:
            problems.append('translator: binding of %s in %s is %s, expected exactly `from %s import %s`'
                            % (name, rel, got or 'missing', module, name))
    for (rel, cname), (decs, bases, stmts) in CLASS_HEADERS.items():
        tree = trees.get(rel)
        if tree is None:
            continue
        cls = [c for c in tree.body if isinstance(c, ast.ClassDef) and c.name == cname]
        if len(cls) != 1:
            problems.append('translator: class %s not found exactly once in %s' % (cname, rel))
            continue
        c = cls[0]
        other = [u(st) for st in c.body if not isinstance(st, ast.FunctionDef)
                 and not (isinstance(st, ast.Expr) and isinstance(st.value, ast.Constant) and isinstance(st.value.value, str))]
        got = ([u(d) for d in c.decorator_list], [u(b) for b in c.bases] + [u(k) for k in c.keywords], other)
        if got != (decs, bases, stmts):
            problems.append('translator: header / class-level statements of %s in %s are %s, expected %s'
                            % (cname, rel, got, (decs, bases, stmts)))


if __name__ == '__main__':
    import sys
    root = sys.argv[1] if len(sys.argv) > 1 and not sys.argv[1].startswith('--') else '/repo/src'
    coq, problems, summary = translate_tree(root)
    if '--write-fallback' in sys.argv:
        if problems:
            print('refusing to write a fallback with problems:', problems)
            sys.exit(1)
        fbs = {}
        import re
        for m in re.finditer(r'Definition (gen_\w+) [^\n]*:=\n  (.*?)\.\n(?=\n|\Z)', coq, flags=re.S):
            fbs[m.group(1)] = m.group(2)
        with open(FALLBACK, 'w') as f:
            json.dump(fbs, f, indent=1, sort_keys=True)
        print('wrote', FALLBACK, sorted(fbs))
    else:
        print(coq)
        for p in problems:
            print('PROBLEM:', p)
        print(summary)
