"""C03 call-closure audit (fail-closed structural fact).

The coverage audit (tools/coverage_map.py) only looks at the anchor files.  Rounds 4 and 6 showed the other way a
change can escape every tie: a function of ANOTHER module that a tied function calls (Registry's class body,
SecurityAPIMixin.is_authenticated, location.lineage behind find_interface / resource_path_tuple).  This module follows
the calls: for every function the check ties (pins.json, pins_audit.json, translate.TRANSLATED) it resolves each global
name the body loads -- `from pyramid.x import y`, `import pyramid.x as m; m.y`, module-level defs of the same file -- and
demands that a pyramid FUNCTION or CLASS reached that way is itself tied (pinned / translated), declared in
untied_ok.json, or declared in callees_ok.json with the reason.  Anything else is a Problem: the check then fails closed
until the callee is triaged.  Functions reached this way are then followed in turn (closure).
"""
import ast
import os


def _mod_path(src, dotted):
    rel = dotted.replace('.', '/')
    for cand in (rel + '.py', rel + '/__init__.py'):
        if os.path.exists(os.path.join(src, cand)):
            return cand
    return None


class _Mod:
    def __init__(self, src, rel):
        with open(os.path.join(src, rel)) as f:
            self.tree = ast.parse(f.read())
        self.rel = rel
        self.defs, self.imports, self.modalias = {}, {}, {}
        pkg = rel[:-3].replace('/', '.')
        if pkg.endswith('.__init__'):
            pkg = pkg[:-9]
        else:
            pkg = pkg.rsplit('.', 1)[0]
        for st in ast.walk(self.tree):
            if isinstance(st, ast.ImportFrom):
                base = st.module or ''
                if st.level:
                    parts = pkg.split('.')
                    parts = parts[:len(parts) - (st.level - 1)]
                    base = '.'.join(parts + ([st.module] if st.module else []))
                if not base.startswith('pyramid'):
                    continue
                for al in st.names:
                    sub = _mod_path_cache(base + '.' + al.name)
                    if sub is not None:
                        self.modalias[al.asname or al.name] = sub
                    else:
                        self.imports[al.asname or al.name] = (base, al.name)
            elif isinstance(st, ast.Import):
                for al in st.names:
                    if al.name.startswith('pyramid'):
                        sub = _mod_path_cache(al.name)
                        if sub is not None and al.asname:
                            self.modalias[al.asname] = sub
        for st in self.tree.body:
            if isinstance(st, (ast.FunctionDef, ast.ClassDef)):
                self.defs[st.name] = st

    def find(self, qual):
        node = self.tree
        for part in qual.split('.'):
            nxt = [c for c in node.body if isinstance(c, (ast.FunctionDef, ast.ClassDef)) and c.name == part]
            if len(nxt) != 1:
                return None
            node = nxt[0]
        return node


_SRC = [None]
_PATHS = {}


def _mod_path_cache(dotted):
    k = (_SRC[0], dotted)
    if k not in _PATHS:
        _PATHS[k] = _mod_path(_SRC[0], dotted)
    return _PATHS[k]


def audit(src, tied, declared):
    """tied: iterable of 'rel:qual' the check pins or translates; declared: dict 'rel:qual' or 'rel:Class' -> reason.
    Returns (problems, reached) where reached is the sorted list of callee targets found."""
    _SRC[0] = src
    mods = {}

    def mod(rel):
        if rel not in mods:
            try:
                mods[rel] = _Mod(src, rel)
            except (OSError, SyntaxError):
                mods[rel] = None
        return mods[rel]

    def resolve(m, name, hops=0):
        """-> (rel, name) of a pyramid function / class definition, or None"""
        if m is None or hops > 4:
            return None
        if name in m.defs:
            return (m.rel, name)
        if name in m.imports:
            base, orig = m.imports[name]
            rel = _mod_path_cache(base)
            if rel is None:
                return None
            return resolve(mod(rel), orig, hops + 1)
        return None

    tied = set(tied)
    tied_classes = {t.split(':')[0] + ':' + t.split(':')[1].split('.')[0] for t in tied if '.' in t.split(':')[1]}
    problems, reached = [], set()
    todo = sorted(tied)
    seen = set()
    while todo:
        t = todo.pop()
        if t in seen:
            continue
        seen.add(t)
        rel, qual = t.split(':', 1)
        m = mod(rel)
        node = m.find(qual) if m is not None else None
        if node is None:
            continue
        for n in ast.walk(node):
            tgt = None
            if isinstance(n, ast.Name) and isinstance(n.ctx, ast.Load):
                tgt = resolve(m, n.id)
            elif isinstance(n, ast.Attribute) and isinstance(n.value, ast.Name) and n.value.id in m.modalias:
                tgt = resolve(mod(m.modalias[n.value.id]), n.attr)
            if tgt is None:
                continue
            key = '%s:%s' % tgt
            if key == t or key == '%s:%s' % (rel, qual.split('.')[0]):
                continue
            reached.add(key)
            tm = mod(tgt[0])
            is_class = isinstance(tm.defs.get(tgt[1]), ast.ClassDef)
            ok = key in tied or key in declared or (is_class and key in tied_classes) \
                or tgt[0] == 'pyramid/interfaces.py'        # interface declarations (zope.interface objects, no behaviour)
            if not ok:
                problems.append('call closure: %s uses %s, which is neither pinned, translated nor declared '
                                '(harness/c03/callees_ok.json)' % (t, key))
            elif key in tied and key not in seen:
                todo.append(key)
    return sorted(set(problems)), sorted(reached)
