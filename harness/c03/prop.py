"""C03 -- view lookup invokes the most specific view whose predicates all hold."""
import os
import re
import warnings
from harness.common import facts as F
from harness.c03 import c03facts, translate

ID = 'C03'
HERE = os.path.dirname(os.path.abspath(__file__))
CASES = {'quick': 450, 'thorough': 20000}
PARALLEL = True
PROOF_TIMEOUT = 1500
ALLOWED_AXIOMS = ()
RULE = ('one case = one Configurator (2-10 add_view calls: context in class tree A>B>C / interface / unrelated / none, '
        'view name, global or route-bound with and without use_global_views, 0-3 predicates drawn from every built-in '
        'incl. accept, custom, third-party and not_, occasional same-phash re-registrations and secured views) x 10-20 '
        'requests through Router.__call__ (30 % of the cases on a tree whose root is named None, 8 % of the bodies raise HTTPNotFound '
        'themselves, the security policy\'s identity() independent of authenticated_userid(), value twins = two views of one slot whose '
        'predicate values differ in one NEAR value (containment classes / interfaces of another module with the same short name, '
        'k vs k=, X-Foo vs X-Foo:, GET vs HEAD ...), 30 % of the cases on container-style resources (an empty one is falsy), a '
        'ContextFound subscriber that marks the context with an interface views are registered for, add_view given for_= or positional '
        'arguments, custom predicates that raise when evaluated although the request_method predicate before them failed (any exception '
        'leaving the router is an observation that fits no specification), header regexes containing colons with matching header values, '
        '35 % of the cases with extra Not Found views carrying containment= / match_param= (the one that answers must qualify and have the most predicates: harness-side judge), '
        '40 % of the cases with a second '
        'application alive in the process that is asked first in the last phase), each sent at a chosen moment of the commit history (warm lookup cache) and compared with the model on the registrations committed so far; non-trivial = the case has >= 3 registrations, at least one request on which '
        'a view body ran after the lookup had at least two name-matching registrations in range, and at least one request '
        'that ended in Not Found or ran a different body; distinct by full case')
ASSUMPTIONS = [
    'the lookup is a function of the registrations of its own registry and of the request: the model keeps no state across '
    'calls or between registries (tied by exact class-level statement lists of Registry / Request / Router / MultiView / the '
    'predicate classes, pins of Registry.__init__ / _clear_view_lookup_cache, and two-application histories)',
    'zope.interface resolution orders (request_iface.__sro__, providedBy(context).__sro__) are oracle inputs, assumed duplicate-free',
    'adapters.registered/registerAdapter/unregister behave as an exact-key map on (classifier, request iface, context iface, provided, name)',
    'WebOb: request.params.get, request.headers.get, Accept.parse_offer are oracle inputs; acceptable_offers(list) is modelled as '
    '"offers of positive quality, stable-sorted by decreasing quality" from per-offer qualities taken from WebOb',
    're.compile(p).match(s) for user-supplied patterns (path_info=, header=) is an oracle input',
    'sha256 is modelled as injective: a phash is represented by the byte string fed to the digest (so concatenation collisions are kept)',
    'TopologicalSorter without constraints keeps insertion order (predicate names, accept order) -- validated by the observed order values',
    'set iteration order in sort_accept_offers is irrelevant when offers have distinct sort keys (generator keeps them distinct)',
    'custom / third-party predicates are pure truth tables over the request; predicate string values are latin-1, physical-path names plain',
    'a third-party predicate with an empty phash text (pseudo-predicate) is generated only in a slot of its own',
    'request_type= and the deprecated effective_principals= predicates are not covered',
]
TRUSTED = [
    'translator harness/c03/translate.py: its PRIMITIVE TABLE (ATTR / METHODS / CALLS / PROJ / idioms / glue: which Python leaf '
    'means which primitive of Model/C03.v or of the prelude of Gen/Facts_C03_gen.v) and its mechanical statement-to-term rules',
    'call-closure audit harness/c03/closure.py: global names only (calls through object attributes are table entries, triaged by hand)',
    'hand-written model coq/Model/C03.v of the functions that are still shape-pinned (register_view, normalize_accept_offer, one-line constructors): the predicate constructors (__init__) other '
    'than RequestMethod / RequestParam / Header / MatchParam / PhysicalPath (those five are regenerated: gen_factory_is_model), '
    'register_view, normalize_accept_offer (the lookup, make, MultiView.add, sort_accept_offers, attr_wrapped_view, the predicate __call__ and the '
    'text()/phash() bodies are regenerated and proved equal to the model)',
    'the prefix / separator literals the reference model reads from text() (c03facts) are accepted only while they keep the texts '
    'of different predicates apart (non-empty not_ mark, no prefix a prefix of another); otherwise the reference literals stay',
    'attribute propagation through the view derivers (only the outermost attr_wrapped_view / predicated_view wrappers are modelled)',
]
TECHNIQUE = ('Coq proof about a Gallina program whose control flow is translated from the Python source on every run '
             '(harness/c03/translate.py -> Gen/Facts_C03_gen.v: _find_views, _call_view, MultiView.add/get_views/match/__call__, '
             'sort_accept_offers (+ nested), attr_wrapped_view, '
             'predicated_view and its wrappers, PredicateList.make, the __call__ of the 12 stock predicate classes, the text()/phash() of '
             'the 10 stock classes + CustomPredicate.phash + Notted.phash/_notted_text -- f-strings, % and str.format templates, join, '
             'comprehensions; the constructors of the RequestMethod, RequestParam, Header, MatchParam and PhysicalPath predicates -- split unpacking as a may-raise match, '
             'strip, startswith, slices), proved equal to '
             'the hand-written reference model (Proofs/C03_gen.v), with the property theorems (induction over registration lists and '
             'resolution orders; Z arithmetic) restated about the regenerated lookup + extracted-model differential correspondence '
             'through Router.__call__ (the runner answers with the regenerated program)')
LEVEL_TEXT = ('Machine-checked theorems over the executable model, for registration lists, requests and resolution orders of '
              'any size: the body that runs belongs to a registration of the looked-up name whose interfaces lie in the two '
              'resolution orders and whose predicates all hold; no qualifying registration is strictly more specific '
              '(earlier request interface, earlier context interface, same slot with more predicates) -- proved for '
              'configurations without accept= and refuted by a witness with accept= (open finding); Not Found exactly when '
              'nothing qualifies; a MultiView is sorted by order; more predicates give a smaller order within the stated '
              'arithmetic bound (tightness refuted beyond it); one characterisation lemma per built-in predicate; the regenerated '
              'phash texts equal the model\'s, two containment values share a key iff their str() agree, not_(P) never shares P\'s key; '
              'the accept-aware lookup theorem holds for registrations as add_view makes them without a premise on predicate lists '
              '(accept_wf proved of make\'s output); the regenerated MultiView.add, sort_accept_offers and attr_wrapped_view equal the model; '
              'registration is local to a slot (the adapter at a slot, and every lookup, depend only on the per-slot subsequences of '
              'add_view calls; a slot key computed two ways is refuted by a witness); overrides replace in place and keep ties in '
              'first-registration order, also when interleaved with new registrations.')
LEVEL_NOTE = ('Trusted: Coq kernel; the translator\'s primitive table (control flow of the lookup, make and the predicate bodies is '
              'regenerated, not pinned; so are the text()/phash() bodies and five constructors); the hand-written model of the functions that are still pinned (register_view, '
              'normalize_accept_offer, the one-line predicate constructors; validated by correspondence); Python harness; '
              'zope.interface, WebOb and re as oracles. The specificity theorem assumes duplicate-free resolution orders, '
              'no two registrations with the same (slot, phash), orders computed by make within the bound, and no accept=.')

OFFERS = ['text/html', 'application/json', 'text/plain', 'text/html;level=1', 'application/x-foo']
ACCEPT_HEADERS = [None, 'text/html', 'application/json', 'text/*;q=0.5, application/json', '*/*',
                  'text/html;q=0', 'application/json;q=0.3, text/html;q=0.7', 'text/plain, text/html;level=1;q=0.9',
                  'application/x-foo, text/html;q=0.1', 'image/png', 'garbage;;']
CTXS = [None, 'A', 'B', 'C', 'U', 'I', 'Root', 'M']      # M: a marker interface a ContextFound subscriber puts on the context
CONT = ['A', 'B', 'C', 'U', 'Root', 'I', 'A2', 'I2']     # A2 / I2: another module's class / interface NAMED 'A' / 'I'
PATHS = [[], ['a'], ['a', 'b'], ['a', 'b', 'c'], ['u'], ['u', 'c'], ['u', 'i'], ['x'], ['u', 'd']]
VNAMES = ['', 'v', 'w']
ROUTES = ['r1', 'r2']
METHODS = ['GET', 'POST', 'HEAD', 'PUT', 'DELETE']
METHOD_VALS = ['GET', 'POST', 'HEAD', 'PUT', ['GET', 'POST'], ['POST', 'HEAD'], ['PUT', 'GET', 'HEAD'], ['POST'], ['GET', 'GET']]
PARAM_VALS = ['k', 'k=v', '=k', '=k=v', ' k = v ', 'j=w', ['k', 'j=w'], ['j', 'k=v'], 'k=', '=', 'k=v=w', 'k = v',
              'aheader b', ['a'], 'j', '\xa0k\xa0=\xa0v\xa0', '=k=']
HEADER_VALS = ['X-Foo', 'X-Foo:ba.', 'X-Foo:', ['X-Foo', 'X-Bar:\\d+'], 'X-Bar:^1', 'x-foo', 'X-Foo:bar$', 'b', 'X-Bar', 'X-Foo:a:b',
               ['X-Foo:', 'X-Foo'], 'X-Bar:h:\\d+$', 'X-Foo:https?://', ['X-Bar:h:80', 'X-Foo']]
PATHINFO_VALS = ['/a', '.*b', '/u/', '/r1', '.*v$', '/$', '/a/b/c', '(?i)/A', '/x|/u', '.*/w']
MATCH_VALS = ['mp=1', ' mp = 1 ', ['mp=1', 'mp=2'], 'mp=2', 'mp=', 'zz=1', 'mp=1=1']
PHYS_VALS = ['/a/b', ['', 'a'], '/', 'a/b/', '/u/c', ['', 'u', 'i'], '//a//', [''], [], ['a'], '/a/b/c', '/x', '']
PARAM_KEYS = ['k', 'j', '=k', 'aheader b', 'a']
HDR_NAMES = ['X-Foo', 'X-Bar', 'b']


# ------------------------------------------------------------------ facts
def facts(src):
    problems = []
    summary = F.check_shapes(src, os.path.join(HERE, 'pins.json'), problems)
    summary.update(F.check_shapes(src, os.path.join(HERE, 'pins_audit.json'), problems))   # coverage audit: see NOTES.md
    summary.update(F.check_shapes(src, os.path.join(HERE, 'pins_closure.json'), problems))  # callees outside the anchor files
    # call-closure audit (fail-closed): every pyramid function / class a tied function uses is tied or declared
    import json
    from harness.c03 import closure
    tied = set(translate.TRANSLATED)
    for f in ('pins.json', 'pins_audit.json', 'pins_closure.json'):
        with open(os.path.join(HERE, f)) as fh:
            for rel, quals in json.load(fh).items():
                tied.update('%s:%s' % (rel, q) for q in quals)
    declared = {}
    for f in ('untied_ok.json', 'callees_ok.json'):
        with open(os.path.join(HERE, f)) as fh:
            declared.update(json.load(fh))
    cproblems, reached = closure.audit(src, tied, declared)
    problems += cproblems
    summary['call_closure'] = {'tied': len(tied), 'callees_reached': len(reached)}
    v = c03facts.extract(src, problems)
    summary.update({'max_order': v['max_order'], 'weight': v['weight'], 'order_of': v['order_of'],
                    'score_step': v['score_step'], 'pred_names': v['pred_names'],
                    'find_view_types': v['find_view_types'], 'accept_order': v['accept_order']})
    # the control flow of the lookup / make / predicate bodies, regenerated from the source (harness/c03/translate.py)
    from harness.common import build as B
    gen, tproblems, tsummary = translate.translate_tree(src)
    problems += tproblems
    B.write_if_changed(os.path.join(B.COQ, 'Gen', 'Facts_C03_gen.v'), gen)
    summary['translated'] = tsummary
    return {'coq': c03facts.emit(v), 'summary': summary, 'problems': problems}


# ------------------------------------------------------------------ generation
def gen_pred(rng, name):
    if name in ('xhr', 'is_authenticated'):
        return rng.random() < 0.5
    if name == 'request_method':
        return rng.choice(METHOD_VALS)
    if name == 'request_param':
        return rng.choice(PARAM_VALS)
    if name == 'header':
        return rng.choice(HEADER_VALS)
    if name == 'path_info':
        return rng.choice(PATHINFO_VALS)
    if name == 'match_param':
        return rng.choice(MATCH_VALS[:6] if rng.random() < 0.97 else MATCH_VALS)
    if name == 'physical_path':
        return rng.choice(PHYS_VALS)
    if name == 'containment':
        return rng.choice(CONT)
    if name == 'custom':
        return [[rng.randrange(6), rng.random() < 0.2] for _ in range(rng.choice([1, 1, 2, 3]))]
    if name in ('zthird', 'ythird'):
        return [rng.randrange(6, 10), rng.choice(['t1', 't2', '', 't1'])]
    raise KeyError(name)


PRED_POOL = ['xhr', 'request_method', 'request_method', 'request_param', 'request_param', 'header', 'path_info',
             'match_param', 'physical_path', 'containment', 'is_authenticated', 'custom', 'custom']


def gen_view(rng, tag, routes, third, focus):
    pool = PRED_POOL + (['zthird', 'ythird'] if third else [])
    k = rng.choice([0, 0, 1, 1, 1, 2, 2, 3, 4])
    names = rng.sample(sorted(set(pool)), min(k, len(set(pool)))) if rng.random() < 0.3 else \
        list(dict.fromkeys(rng.choice(pool) for _ in range(k)))
    preds, nots = {}, []
    for n in names:
        preds[n] = gen_pred(rng, n)
        if n != 'custom' and rng.random() < 0.15:
            nots.append(n)
    r = rng.random()
    route = None if (not routes or r < 0.55) else rng.choice(routes)['name']
    if focus and rng.random() < 0.7:
        ctx, name = focus
    else:
        ctx, name = rng.choice(CTXS), rng.choice(['', '', '', 'v', 'v', 'w'])
    return {'ctx': ctx, 'name': name, 'route': route, 'preds': preds, 'nots': sorted(nots),
            'accept': rng.choice(OFFERS) if rng.random() < 0.12 else None,
            'perm': rng.random() < 0.12, 'tag': tag, 'raises404': rng.random() < 0.08,
            'style': rng.choice(['kw'] * 7 + ['for_', 'for_', 'pos']),
            'fragile': 'custom' in preds and 'request_method' in preds and 'request_method' not in nots and rng.random() < 0.6}


CTX_PATHS = {'A': [['a'], ['a', 'b'], ['a', 'b', 'c'], ['u', 'i'], ['u', 'c']], 'B': [['a', 'b'], ['a', 'b', 'c'], ['u', 'c']],
             'C': [['a', 'b', 'c'], ['u', 'c']], 'U': [['u']], 'I': [['u', 'i']], 'Root': [[]], None: PATHS, 'M': PATHS}


# paths whose lineage contains an instance / provider of the containment value
CONT_PATHS = {'A': [['a'], ['a', 'b'], ['a', 'b', 'c'], ['u', 'i']], 'B': [['a', 'b'], ['a', 'b', 'c'], ['u', 'c']],
              'C': [['a', 'b', 'c'], ['u', 'c']], 'U': [['u'], ['u', 'c'], ['u', 'i'], ['u', 'd']], 'Root': PATHS,
              'I': [['u', 'i']], 'A2': [['u', 'd']], 'I2': [['u', 'd']]}


def gen_request(rng, case):
    views = case['views']
    tidx = rng.randrange(len(views))                # aim most requests at a registered view
    target = views[tidx]
    aimed = rng.random() < 0.7
    vname = target['name'] if aimed else rng.choice([v['name'] for v in views] * 3 + VNAMES)
    route = None
    if aimed and target['route'] is not None and rng.random() < 0.9:
        route = target['route']
    elif case['routes'] and rng.random() < 0.35:
        route = rng.choice(case['routes'])['name']
    qs, post = [], []
    for _ in range(rng.choice([0, 0, 1, 1, 2, 3])):
        kv = [rng.choice(PARAM_KEYS), rng.choice(['v', 'w', '', 'v=w', '1', ' v'])]
        (qs if rng.random() < 0.6 else post).append(kv)
    headers = []
    for _ in range(rng.choice([0, 0, 1, 1, 2])):
        headers.append([rng.choice(['X-Foo', 'X-Bar', 'x-foo', 'B']),
                        rng.choice(['bar', 'baz', '12', '', 'xbar', 'ba', 'a:b', 'a:b', 'h:80', 'https://x'])])
    method = rng.choice(METHODS + ['GET', 'GET', 'POST'])
    if post and method in ('GET', 'HEAD', 'DELETE'):
        method = 'POST'
    paths = CTX_PATHS[target['ctx']] if aimed else PATHS
    cont = target['preds'].get('containment')
    if aimed and cont is not None and rng.random() < 0.6:
        paths = [p for p in paths if p in CONT_PATHS[cont]] or paths
    return tidx, {'method': method, 'qs': qs, 'post': post, 'headers': headers, 'xhr': rng.random() < 0.35,
            'accept': rng.choice(ACCEPT_HEADERS), 'route': route, 'mp': rng.choice(['1', '1', '2', ' 1']),
            'path': rng.choice(paths), 'vname': vname, 'user': rng.random() < 0.4,
            'ident': rng.random() < 0.4,
            'mark': rng.random() < (0.85 if aimed and target['ctx'] == 'M' else 0.2),
            'truth': sorted(rng.sample(range(10), rng.choice([0, 2, 4, 5, 7, 10])))}


def _empty_phash(v):
    return any(n in v['preds'] and v['preds'][n][1] == '' for n in ('zthird', 'ythird'))


def _shares_slot(v, views):
    return sum(1 for w in views if (w['ctx'], w['name'], w['route']) == (v['ctx'], v['name'], v['route'])) > 1


def _not_sibling(rng, o, tag, third):
    """copy of view o (same slot, same predicate values) with not_() toggled around exactly one value; the
    copy may come before or after o in commit order since generation order is registration order"""
    preds = {k: (list(map(list, v)) if k == 'custom' else v) for k, v in o['preds'].items()}
    nots = list(o['nots'])
    if not preds:
        n = rng.choice(['request_method', 'xhr', 'request_param', 'header', 'is_authenticated', 'match_param'])
        preds[n] = gen_pred(rng, n)
        o['preds'] = dict(preds)          # the original gets the predicate, the sibling its negation
    n = rng.choice(sorted(preds))
    if n == 'custom':
        i = rng.randrange(len(preds[n]))
        preds[n][i] = [preds[n][i][0], not preds[n][i][1]]
    else:
        if n in ('zthird', 'ythird') and preds[n][1] == '':
            return None
        nots = sorted(set(nots) ^ {n})
    return dict(o, preds=preds, nots=nots, tag=tag, perm=False)


# values of one predicate that print alike, normalise alike or differ in one boundary character: two registrations of one
# slot that differ in exactly such a pair are two registrations (unless the documented normal form is the same)
NEAR = {
    'containment': {'A': 'A2', 'A2': 'A', 'I': 'I2', 'I2': 'I', 'B': 'A', 'C': 'B', 'U': 'A2', 'Root': 'U'},
    'request_param': {'k': 'k=', 'k=': 'k', 'k=v': 'k=v=w', 'k=v=w': 'k=v', 'j': 'j=w', 'j=w': 'j', '=k': '=k=v',
                      '=k=v': '=k', ' k = v ': 'k = v', 'k = v': 'k=v', '=': 'k='},
    'header': {'X-Foo': 'X-Foo:', 'X-Foo:': 'X-Foo', 'X-Foo:bar$': 'X-Foo:ba.', 'X-Foo:ba.': 'X-Foo:bar$',
               'X-Bar': 'X-Bar:^1', 'X-Bar:^1': 'X-Bar', 'x-foo': 'X-Foo', 'b': 'X-Bar'},
    'request_method': {'GET': 'HEAD', 'HEAD': 'GET', 'POST': ['POST', 'HEAD'], 'PUT': ['PUT', 'GET', 'HEAD']},
    'physical_path': {'/': [''], '': '/', '/a/b': '/a/b/c', '/a/b/c': '/a/b', 'a/b/': '//a//', '//a//': ['', 'a'],
                      '/x': '/', '/u/c': '/a/b/c'},
    'match_param': {'mp=1': 'mp=2', 'mp=2': 'mp=1', 'mp=': 'mp=1', ' mp = 1 ': 'mp=2', 'zz=1': 'mp=1'},
    'path_info': {'/a': '/a/b/c', '/a/b/c': '/a', '/$': '/u/', '/u/': '/$', '.*b': '.*v$', '.*v$': '.*/w', '.*/w': '.*v$',
                  '/r1': '/x|/u', '/x|/u': '/u/', '(?i)/A': '/a'},
}


def _near_twin(rng, o, tag, third):
    """copy of view o (same slot) in which exactly one predicate value is replaced by a NEAR value of the same predicate
    (else by another value from the pool); either may be registered first"""
    cand = sorted(n for n in o['preds'] if n not in ('zthird', 'ythird'))
    if not cand:
        return None
    preds = {k: (list(map(list, v)) if k == 'custom' else v) for k, v in o['preds'].items()}
    near = [n for n in cand if n in NEAR and isinstance(preds[n], str) and preds[n] in NEAR[n]]
    n = rng.choice(near) if near and rng.random() < 0.8 else rng.choice(cand)
    if n in near and rng.random() < 0.9:
        preds[n] = NEAR[n][preds[n]]
    elif n in ('xhr', 'is_authenticated'):
        preds[n] = not preds[n]
    else:
        preds[n] = gen_pred(rng, n)
    return dict(o, preds=preds, tag=tag, perm=False)


def gen_case(rng):
    nroutes = rng.choice([0, 1, 1, 2, 2])
    routes = [{'name': ROUTES[i], 'ugv': rng.random() < 0.55} for i in range(nroutes)]
    third = rng.random() < 0.3
    nv = rng.choice([2, 3, 4, 5, 6, 7, 8, 10])
    focus = (rng.choice(CTXS), rng.choice(['', '', 'v'])) if rng.random() < 0.75 else None
    views = []
    need = set()
    for t in range(nv):
        v = gen_view(rng, t, routes, third, focus)
        if views and rng.random() < 0.08:         # same slot and predicates again: an override (in a later commit)
            o = rng.choice(views)
            v = dict(o, tag=t, perm=(rng.random() < 0.45))
            need.add(t - 1)
        elif views and rng.random() < 0.14:       # a sibling differing only by not_() around one predicate value
            sib = _not_sibling(rng, rng.choice(views), t, third)
            if sib is not None:
                v = sib
        elif views and rng.random() < 0.12:       # a twin differing in one predicate VALUE (same names, near values)
            sib = _near_twin(rng, rng.choice(views), t, third)
            if sib is not None:
                v = sib
        views.append(v)
    for v in views:                               # an empty phash text (a pseudo-predicate) only where the slot is not shared
        if _empty_phash(v) and _shares_slot(v, views):
            for n in ('zthird', 'ythird'):
                if n in v['preds']:
                    v['preds'][n] = [v['preds'][n][0], v['preds'][n][1] or 't3']
    commits = None                                # None: autocommit, one commit per add_view
    if rng.random() < 0.5:                        # else: 1-3 explicit commits
        commits = sorted(need | set(rng.sample(range(nv), rng.choice([0, 1, 2]))))
    case = {'routes': routes, 'third': third, 'views': views, 'commits': commits, 'requests': [],
            'rootnone': rng.random() < 0.3, 'twoapps': rng.random() < 0.4, 'falsy': rng.random() < 0.3}
    if rng.random() < 0.35:       # extra Not Found views with predicates, competing with the predicate-less one
        combos = []
        for _ in range(rng.choice([1, 2, 2])):
            nfd = {'cont': rng.choice([None, 'A', 'B', 'U', 'Root', 'A2']), 'cont_not': rng.random() < 0.25,
                   'mp': rng.choice([None, '1', '2'])}
            if (nfd['cont'] is not None or nfd['mp'] is not None) and nfd not in combos:
                combos.append(nfd)
        if combos:
            case['nfviews'] = combos
    points = _points(case)
    for _ in range(rng.choice([10, 12, 14])):
        tidx, r = gen_request(rng, case)
        later = [p for p in points if p > tidx] or [nv]      # moments at which the aimed-at view is registered
        r['after'] = nv if rng.random() < 0.4 else rng.choice(later if rng.random() < 0.85 else points)
        case['requests'].append(r)
        if rng.random() < 0.45:                   # the same request again at another moment of the history
            case['requests'].append(dict(r, after=rng.choice(later if rng.random() < 0.85 else points)))
    case['requests'].sort(key=lambda r: r['after'])
    return case


def _points(case):
    """numbers of committed registrations at which requests can be sent"""
    n = len(case['views'])
    if case['commits'] is None:
        return list(range(n + 1))
    return sorted({0, n} | {c + 1 for c in case['commits']})


def generate(rng, tier, n):
    for _ in range(n):
        yield gen_case(rng)


def valid(case):
    try:
        if not isinstance(case, dict) or set(case) - {'rootnone', 'twoapps', 'falsy', 'nfviews'} != {'routes', 'third', 'views', 'requests', 'commits'}:
            return False
        if not case['views'] or not case['requests']:
            return False
        if case['commits'] is not None and not (isinstance(case['commits'], list) and all(
                isinstance(c, int) and not isinstance(c, bool) and 0 <= c < len(case['views']) for c in case['commits'])
                and case['commits'] == sorted(set(case['commits']))):
            return False
        rn = [r['name'] for r in case['routes']]
        if len(set(rn)) != len(rn) or any(n not in ROUTES for n in rn):
            return False
        nfv = case.get('nfviews', [])
        if not isinstance(nfv, list) or any(
                not isinstance(nv, dict) or set(nv) != {'cont', 'cont_not', 'mp'} or nv['cont'] not in [None] + CONT
                or nv['mp'] not in (None, '1', '2') or (nv['cont'] is None and nv['mp'] is None) for nv in nfv) \
                or any(nfv[i] == nfv[j] for i in range(len(nfv)) for j in range(i)):
            return False
        tags = [v['tag'] for v in case['views']]
        if len(set(tags)) != len(tags):
            return False
        if any(_empty_phash(v) and _shares_slot(v, case['views']) for v in case['views']):
            return False      # outside the property's quantifier: see NOTES.md (empty phash collides with "no predicates")
        for v in case['views']:
            if v['ctx'] not in CTXS or v['name'] not in VNAMES or not (v['route'] is None or v['route'] in rn):
                return False
            if v['accept'] is not None and v['accept'] not in OFFERS:
                return False
            if v.get('style', 'kw') not in ('kw', 'for_', 'pos'):
                return False
            if not isinstance(v.get('fragile', False), bool):
                return False
            for n, val in v['preds'].items():
                if n in ('zthird', 'ythird'):
                    if not case['third'] or not (isinstance(val, list) and len(val) == 2 and isinstance(val[1], str)):
                        return False
                elif n == 'custom':
                    if not (isinstance(val, list) and all(isinstance(c, list) and len(c) == 2 for c in val)):
                        return False
                elif n in ('xhr', 'is_authenticated'):
                    if not isinstance(val, bool):
                        return False
                elif n == 'containment':
                    if val not in CONT:
                        return False
                elif n == 'path_info':
                    if val not in PATHINFO_VALS:
                        return False
                elif n == 'header':
                    if val not in HEADER_VALS:
                        return False
                elif n in ('request_method', 'request_param', 'match_param', 'physical_path'):
                    if not (isinstance(val, str) or (isinstance(val, list) and all(isinstance(x, str) for x in val))):
                        return False
                    if n != 'physical_path' and val in ('', []):
                        return False
                else:
                    return False
            if not set(v['nots']) <= set(v['preds']) - {'custom'}:
                return False
        for r in case['requests']:
            if _after(r, len(case['views'])) not in _points(case):
                return False
            if not (r['route'] is None or r['route'] in rn) or r['path'] not in PATHS or r['vname'] not in VNAMES:
                return False
            if r['method'] not in METHODS or r['accept'] not in ACCEPT_HEADERS or r['mp'] not in ('1', '2', ' 1'):
                return False
            if r['post'] and r['method'] in ('GET', 'HEAD', 'DELETE'):
                return False
            if not isinstance(r.get('mark', False), bool):
                return False
            for kv in r['qs'] + r['post'] + r['headers']:
                if not (isinstance(kv, list) and len(kv) == 2 and all(isinstance(x, str) and x.isprintable() for x in kv)):
                    return False
            if any(k not in PARAM_KEYS for k, _ in r['qs'] + r['post']) or \
                    any(k not in ('X-Foo', 'X-Bar', 'x-foo', 'B') for k, _ in r['headers']):
                return False
        return True
    except Exception:
        return False


def shrinks(case):
    l = case['requests']
    if len(l) > 1:
        for i in range(len(l)):
            yield dict(case, requests=l[:i] + l[i + 1:])
    l = case['views']
    if len(l) > 1:
        for i in range(len(l)):
            cm = case['commits']
            if cm is not None:
                cm = sorted({c - 1 if c >= i else c for c in cm} - {-1})
            n = len(l)
            rs = [dict(r, after=(_after(r, n) - 1 if _after(r, n) > i else _after(r, n))) for r in case['requests']]
            yield dict(case, views=l[:i] + l[i + 1:], commits=cm, requests=rs)
    if case['commits']:
        for i in range(len(case['commits'])):
            yield dict(case, commits=case['commits'][:i] + case['commits'][i + 1:])
    if case['commits'] is not None:
        yield dict(case, commits=None)
    if case.get('rootnone'):
        yield dict(case, rootnone=False)
    if case.get('twoapps'):
        yield dict(case, twoapps=False)
    if case.get('falsy'):
        yield dict(case, falsy=False)
    if case.get('nfviews'):
        yield {k: v for k, v in case.items() if k != 'nfviews'}
        for i in range(len(case['nfviews'])):
            if len(case['nfviews']) > 1:
                yield dict(case, nfviews=case['nfviews'][:i] + case['nfviews'][i + 1:])
    n = len(case['views'])
    for i, r in enumerate(case['requests']):
        if _after(r, n) != n:
            yield dict(case, requests=case['requests'][:i] + [dict(r, after=n)] + case['requests'][i + 1:])
    for i, v in enumerate(case['views']):
        for n in sorted(v['preds']):
            p = dict(v['preds'])
            del p[n]
            yield dict(case, views=case['views'][:i] + [dict(v, preds=p, nots=[x for x in v['nots'] if x != n])]
                       + case['views'][i + 1:])
        for k, simple in (('accept', None), ('perm', False), ('route', None), ('nots', []), ('raises404', False), ('style', 'kw'), ('fragile', False)):
            if v.get(k, simple) != simple:
                yield dict(case, views=case['views'][:i] + [dict(v, **{k: simple})] + case['views'][i + 1:])
    for i, r in enumerate(case['requests']):
        for k, simple in (('qs', []), ('post', []), ('headers', []), ('xhr', False), ('accept', None), ('route', None),
                          ('user', False), ('ident', False), ('mark', False), ('truth', []), ('path', []), ('method', 'GET'), ('mp', '1')):
            if r.get(k, simple) != simple:
                yield dict(case, requests=case['requests'][:i] + [dict(r, **{k: simple})] + case['requests'][i + 1:])
    if case['third'] and not any(n in v['preds'] for v in case['views'] for n in ('zthird', 'ythird')):
        yield dict(case, third=False)
    used = {v['route'] for v in case['views']} | {r['route'] for r in case['requests']}
    for i, rt in enumerate(case['routes']):
        if rt['name'] not in used:
            yield dict(case, routes=case['routes'][:i] + case['routes'][i + 1:])


# ------------------------------------------------------------------ the world of one case
_P = {}


def setup(tier):
    if _P:
        return
    warnings.simplefilter('ignore')
    from zope.interface import Interface, implementer, alsoProvides, implementedBy, providedBy
    from pyramid.config import Configurator, not_
    from pyramid.interfaces import IRequest, IRouteRequest
    from pyramid.response import Response
    from pyramid.request import Request
    from pyramid.exceptions import PredicateMismatch
    from pyramid.security import Allowed
    from webob.acceptparse import Accept, create_accept_header

    class I(Interface):
        pass

    flags = {'falsy': False}          # set per case: container-style resources (an EMPTY one is falsy), see World

    class Node:
        def __init__(self, name, parent):
            self.__name__, self.__parent__, self.kids = name, parent, {}
            if parent is not None:
                parent.kids[name] = self

        def __bool__(self):               # `class Folder(dict)` style: a resource without children is falsy
            return bool(self.kids) if flags['falsy'] else True

        def __getitem__(self, k):
            return self.kids[k]

    class Root(Node):
        pass

    class A(Node):
        pass

    class B(A):
        pass

    class C(B):
        pass

    class U(Node):
        pass

    class M(Interface):                    # marker put on the context of a request by a ContextFound subscriber
        pass

    class X:                               # a leaf without __name__
        def __init__(self, parent):
            self.__parent__ = parent

        def __bool__(self):
            return not flags['falsy']

        def __getitem__(self, k):
            raise KeyError(k)

    for cls in (Root, A, B, C, U, X):
        cls.__module__ = 'c03'
    # the models of another package: a class and an interface with the SAME short names as A and I (their str()
    # differs by the module only); two predicates values that print alike must still be two values
    A2 = type('A', (Node,), {'__module__': 'c03b'})
    from zope.interface.interface import InterfaceClass
    I2 = InterfaceClass('I', (Interface,), {}, __module__='c03b')
    def build_tree(rootname):
        root = Root(rootname, None)
        a = A('a', root)
        b = B('b', a)
        C('c', b)
        u = U('u', root)
        C('c', u)
        alsoProvides(A('i', u), I)
        alsoProvides(A2('d', u), I2)
        root.kids['x'] = X(root)
        return root
    root = build_tree('')
    root_none = build_tree(None)             # a root whose __name__ is None (pyramid's DefaultRootFactory spelling)
    classes = {'A': A, 'B': B, 'C': C, 'U': U, 'Root': Root, 'I': I, 'A2': A2, 'I2': I2, 'M': M}
    from zope.interface import noLongerProvides
    from pyramid.events import ContextFound

    class Custom:
        def __init__(self, i, guard=None):
            self.i = i
            self.guard = guard          # request methods under which the predicate may be evaluated (None: always)

        def __hash__(self):
            return self.i

        def __eq__(self, o):
            return isinstance(o, Custom) and o.i == self.i

        def __call__(self, context, request):
            if self.guard is not None and request.method not in self.guard:
                # a predicate that is only safe behind the view's request_method predicate (reads a body only POST has ...)
                raise KeyError('custom predicate %d evaluated although the guarding predicate before it failed' % self.i)
            return self.i in request.environ['c03.truth']

    class Third:
        def __init__(self, val, config):
            self.i, self.ph = val

        def text(self):
            return self.ph

        phash = text

        def __call__(self, context, request):
            return self.i in request.environ['c03.truth']

    class Policy:
        def identity(self, request):          # deliberately independent of authenticated_userid (a guest record / a
            return request.environ.get('c03.ident')   # suspended account): is_authenticated is about the userid only

        def authenticated_userid(self, request):
            return request.environ.get('c03.user')

        def permits(self, request, context, permission):
            return Allowed('ok')

        def remember(self, request, userid, **kw):
            return []

        def forget(self, request, **kw):
            return []

    _P.update(locals())


def _find_resource(path, rootnone=False):
    node = _P['root_none' if rootnone else 'root']
    for seg in path:
        node = node[seg]
    return node


class World:
    """Real Configurator + app for a case, and everything the model needs as oracle input."""

    def __init__(self, case, serve=False):
        """serve=True: requests are sent as soon as the registrations they wait for ('after') are committed,
        so later commits happen against a warm view-lookup cache; results in self.results."""
        if not _P:
            setup('quick')
        P = _P
        self.case = case
        self.serve = serve
        self.batched = case.get('commits') is not None
        self._build(case, self.batched)
        if self.conflict:                 # a batch held two views with one discriminator: replay one commit per add_view
            self._build(case, False)

    def _shadow(self, case):
        """a second application alive in the same process, configured completely before the first request: the same
        contexts and view names, other bodies (tag 'shadow'), its own Not Found view; requests of the last phase are sent
        to it first, then to the application under test (state shared between registries would leak its views)"""
        P = _P
        the_root = P['root_none' if case.get('rootnone') else 'root']
        cfg = P['Configurator'](autocommit=True, root_factory=lambda request: the_root)
        cfg.set_security_policy(P['Policy']())

        def shadow_body(context, request):
            resp = P['Response']('shadow')
            resp.headers['X-Tag'] = 'shadow'
            return resp

        def shadow_nf(request):
            resp = P['Response']('shadow-nf')
            resp.headers['X-Tag'] = 'shadow-nf'
            return resp
        cfg.add_notfound_view(shadow_nf)
        for ctx, name in sorted({(v['ctx'], v['name']) for v in case['views']}, key=repr):
            cfg.add_view(shadow_body, context=None if ctx is None else P['classes'][ctx], name=name)
        return cfg.make_wsgi_app()

    def _send(self, k, final=False):
        """send the requests waiting for exactly k committed registrations (all the remaining ones when final)"""
        if not self.serve:
            return
        n = len(self.case['views'])
        for i, r in enumerate(self.case['requests']):
            if self.results[i] is None and (final or _after(r, n) == k):
                self.results[i] = self.run(r)

    def _build(self, case, batched):
        P = _P
        self.made, self.failed, self.conflict = {}, set(), False
        self.results = [None] * len(case['requests'])
        world = self
        self.shadow_app = self._shadow(case) if case.get('twoapps') else None
        the_root = P['root_none' if case.get('rootnone') else 'root']
        cfg = P['Configurator'](autocommit=not batched, root_factory=lambda request: the_root)
        cfg.set_security_policy(P['Policy']())

        def recorder(view, info):
            t = getattr(info.original_view, 'c03_tag', None)
            if t is not None and not info.exception_only:
                world.made[t] = (info.order, info.phash, len(info.predicates))
            return view
        cfg.add_view_deriver(recorder, 'c03_recorder')
        self.extra = []
        if case['third']:
            cfg.add_view_predicate('zthird', P['Third'])
            cfg.add_view_predicate('ythird', P['Third'])
            self.extra = ['zthird', 'ythird']
        for r in case['routes']:
            cfg.add_route(r['name'], '/%s/{mp}/*traverse' % r['name'], use_global_views=r['ugv'])

        def notfound(request):
            resp = P['Response']('nf')
            resp.headers['X-Tag'] = 'nf-pme' if isinstance(request.exception, P['PredicateMismatch']) else 'nf-none'
            return resp
        cfg.add_notfound_view(notfound)
        if batched:
            cfg.commit()
        for k, nv in enumerate(case.get('nfviews', [])):      # Not Found views with predicates (each in its own commit)
            def nf_k(request, k=k):
                resp = P['Response']('nf')
                resp.headers['X-Tag'] = 'nf%d-%s' % (k, 'pme' if isinstance(request.exception, P['PredicateMismatch']) else 'none')
                return resp
            nkw = {}
            if nv['cont'] is not None:
                nkw['containment'] = P['not_'](P['classes'][nv['cont']]) if nv['cont_not'] else P['classes'][nv['cont']]
            if nv['mp'] is not None:
                nkw['match_param'] = 'mp=%s' % nv['mp']
            cfg.add_notfound_view(nf_k, **nkw)
            if batched:
                cfg.commit()

        def on_context_found(event):        # a per-request marker (workflow state ...) decided when the context is known
            rq = event.request
            if rq.environ.get('c03.mark'):
                P['alsoProvides'](rq.context, P['M'])
                rq.environ['c03.marked'] = rq.context
        cfg.add_subscriber(on_context_found, P['ContextFound'])
        if batched:
            cfg.commit()
        self.ids = {}
        self.iid(P['Interface'])
        self.iid(P['IRequest'])
        self.route_iface = {}
        for r in case['routes']:
            self.route_iface[r['name']] = cfg.registry.getUtility(P['IRouteRequest'], name=r['name'])
        self.cfg = cfg
        self.args = []
        self.app = cfg.make_wsgi_app()       # one Router for the whole history; the registry (and its cache) is shared
        self._send(0)
        for i, v in enumerate(case['views']):
            self.args.append(self._add_view(v))
            if batched and i in case['commits']:
                try:
                    cfg.commit()
                except Exception:       # conflict, or a predicate factory rejecting its value at commit time
                    self.conflict = True
                    return
            if not batched or i in case['commits']:
                self._send(i + 1)
        try:
            cfg.commit()
        except Exception:
            if not batched:
                raise
            self.conflict = True
            return
        self._send(len(case['views']), final=True)

    def iid(self, spec):
        return self.ids.setdefault(spec, len(self.ids))

    def ctx_spec(self, name):
        P = _P
        if name is None:
            return P['Interface']
        if name in ('I', 'M'):
            return P[name]
        return P['implementedBy'](P['classes'][name])

    def _add_view(self, v):
        P = _P
        tag = v['tag']

        raises = bool(v.get('raises404'))

        def body(context, request):
            request.environ['c03.log'].append(tag)
            if raises:                      # the body ran and itself answers Not Found (not a predicate mismatch)
                from pyramid.httpexceptions import HTTPNotFound
                raise HTTPNotFound('body of v%d' % tag)
            resp = P['Response']('ok')
            resp.headers['X-Tag'] = 'v%d' % tag
            return resp
        body.c03_tag = tag
        kw, mkw = {}, []
        for n in sorted(v['preds']):
            val = v['preds'][n]
            notted = n in v['nots']
            if n == 'custom':
                vals, wv = [], []
                guard = None
                if v.get('fragile') and 'request_method' in v['preds'] and 'request_method' not in v['nots']:
                    ms = v['preds']['request_method']
                    guard = set([ms] if isinstance(ms, str) else ms)
                    if 'GET' in guard:
                        guard.add('HEAD')           # the documented condition of request_method: GET implies HEAD
                for i, nt in val:
                    c = P['Custom'](i, guard)
                    vals.append(P['not_'](c) if nt else c)
                    wv.append([nt, [3, i, '']])
                kw['custom_predicates'] = tuple(vals)
                mkw.append(['custom', wv])
                continue
            if n in ('zthird', 'ythird'):
                pv, wv = (val[0], val[1]), [4, val[0], val[1]]
            elif n == 'containment':
                pv = P['classes'][val]
                wv = [3, CONT.index(val), str(pv)]
            elif isinstance(val, bool):
                pv, wv = val, [0, val]
            elif isinstance(val, str):
                pv, wv = val, [1, val]
            else:
                pv, wv = tuple(val), [2, list(val)]
            kw[n] = P['not_'](pv) if notted else pv
            mkw.append([n, [[notted, wv]]])
        acc = None
        if v['accept'] is not None:
            kw['accept'] = v['accept']
            po = P['Accept'].parse_offer(v['accept'])
            acc = [str(po), po.type + '/' + po.subtype, bool(po.params)]
        ctxobj = None if v['ctx'] is None else P['classes'][v['ctx']]
        style = v.get('style', 'kw')
        try:
            if style == 'for_':              # the documented alias of context=
                self.cfg.add_view(body, for_=ctxobj, name=v['name'], route_name=v['route'],
                                  permission='view' if v['perm'] else None, **kw)
            elif style == 'pos':             # add_view(view, name, for_, permission, ...) given positionally
                self.cfg.add_view(body, v['name'], ctxobj, 'view' if v['perm'] else None, route_name=v['route'], **kw)
            else:
                self.cfg.add_view(body, context=ctxobj, name=v['name'], route_name=v['route'],
                                  permission='view' if v['perm'] else None, **kw)
        except Exception as e:
            self.failed.add(tag)
            self.fail_kind = type(e).__name__
        req_id = self.iid(P['IRequest'] if v['route'] is None else self.route_iface[v['route']])
        return [req_id, self.iid(self.ctx_spec(v['ctx'])), v['name'], mkw, [acc] if acc else [], v['perm'], tag]

    # ---- requests
    def environ(self, r):
        P = _P
        segs = list(r['path']) + ([r['vname']] if r['vname'] else [])
        if r['route'] is None:
            url = '/' + '/'.join(segs)
        else:
            url = '/%s/%s/%s' % (r['route'], r['mp'].replace(' ', '%20'), '/'.join(segs))
        if r['qs']:
            from urllib.parse import urlencode
            url += '?' + urlencode([tuple(kv) for kv in r['qs']])
        kw = {}
        if r['post']:
            kw['POST'] = [tuple(kv) for kv in r['post']]
        req = P['Request'].blank(url, **kw)
        req.method = r['method']
        for k, val in r['headers']:
            req.headers[k] = val
        if r['xhr']:
            req.headers['X-Requested-With'] = 'XMLHttpRequest'
        if r['accept'] is not None:
            req.headers['Accept'] = r['accept']
        req.environ['c03.truth'] = set(r['truth'])
        req.environ['c03.log'] = []
        if r['user']:
            req.environ['c03.user'] = 'bob'
        if r.get('ident', r['user']):
            req.environ['c03.ident'] = {'record': 'guest-or-bob'}
        if r.get('mark'):
            req.environ['c03.mark'] = True
        return req

    def oracle(self, r):
        """The request as the model sees it; every library-dependent part computed by the library."""
        P = _P
        req = self.environ(r)
        P['flags']['falsy'] = bool(self.case.get('falsy'))
        ctx = _find_resource(r['path'], self.case.get('rootnone'))
        if r.get('mark'):
            P['alsoProvides'](ctx, P['M'])
        try:
            return self._oracle(r, req, ctx)
        finally:
            if r.get('mark'):
                P['noLongerProvides'](ctx, P['M'])

    def _oracle(self, r, req, ctx):
        P = _P
        params = [[k, req.params.get(k)] for k in PARAM_KEYS + ['='] if req.params.get(k) is not None]
        hnames = set(HDR_NAMES)
        pats = set()
        for v in self.case['views']:
            h = v['preds'].get('header')
            if h is not None:
                for item in ([h] if isinstance(h, str) else h):
                    hnames.add(item.split(':', 1)[0])
                    if ':' in item:
                        pats.add(('h', item.split(':', 1)[1], item.split(':', 1)[0]))
            p = v['preds'].get('path_info')
            if p is not None:
                pats.add(('p', p, None))
        headers = [[n, req.headers.get(n)] for n in sorted(hnames) if req.headers.get(n) is not None]
        rx = []
        for kind, pat, hn in sorted(pats, key=repr):
            subj = req.upath_info if kind == 'p' else req.headers.get(hn)
            if subj is not None:
                e = [pat, subj, re.compile(pat).match(subj) is not None]
                if e not in rx:
                    rx.append(e)
        lin = []
        loc = ctx
        while loc is not None:
            ids = [i for i, c in enumerate(CONT)
                   if (P['classes'][c].providedBy(loc) if c in ('I', 'I2') else isinstance(loc, P['classes'][c]))]
            lin.append([getattr(loc, '__name__', '') or '', ids])
            loc = getattr(loc, '__parent__', None)
        accq = []
        for o in OFFERS:
            got = req.accept.acceptable_offers([o])
            if got:
                accq.append([o, int(round(got[0][1] * 1000))])
        md = []
        if r['route'] is not None:
            md = [[['mp', r['mp']]]]
        riface = P['IRequest'] if r['route'] is None else self.route_iface[r['route']]
        rsro = [self.iid(i) for i in riface.__sro__]
        csro = [self.iid(i) for i in P['providedBy'](ctx).__sro__]
        return [r['method'], params, headers, r['xhr'], md, r['user'], req.upath_info, lin, hasattr(ctx, '__name__'),
                rx, accq, sorted(r['truth']), rsro, csro, r['vname']]

    def run(self, r):
        if self.shadow_app is not None and _after(r, len(self.case['views'])) == len(self.case['views']):
            self.environ(r).get_response(self.shadow_app)          # the other application is asked first
        req = self.environ(r)
        _P['flags']['falsy'] = bool(self.case.get('falsy'))
        try:
            resp = req.get_response(self.app)
        except Exception as e:                  # nothing the lookup does may escape from the router
            return ['EXCEPTION-ESCAPED-FROM-ROUTER', type(e).__name__]
        finally:
            marked = req.environ.get('c03.marked')
            if marked is not None:
                _P['noLongerProvides'](marked, _P['M'])
        tag = resp.headers.get('X-Tag')
        if tag is not None and tag.startswith('nf') and self.case.get('nfviews'):
            # which Not Found view answered: it must be one whose documented predicate conditions hold for this request, and
            # no qualifying Not Found view may have more predicates (they all live in one slot)
            ran = None if tag.startswith('nf-') else int(tag[2:tag.index('-')])
            allowed = self._nf_allowed(r)
            if ran not in allowed:
                return ['WRONG-NOTFOUND-VIEW-RAN', ran, sorted(allowed, key=repr)]
            tag = 'nf-' + tag.split('-', 1)[1]
        if tag is not None and tag.startswith('shadow'):
            return ['VIEW-OF-ANOTHER-APPLICATION-RAN', tag]
        log = req.environ['c03.log']
        if tag is None:
            return ['ODD', resp.status_int]
        if tag.startswith('v'):
            if log != [int(tag[1:])]:
                return ['MULTI', log]
            return [1, int(tag[1:])]
        if log:
            if len(log) == 1 and any(v['tag'] == log[0] and v.get('raises404') for v in self.case['views']):
                return [2, log[0]]          # exactly that body ran, and raised HTTPNotFound itself
            return ['BODY-RAN-BUT-404', log]
        return [0, 1 if tag == 'nf-pme' else 0]

    def _nf_allowed(self, r):
        P = _P
        ctx = _find_resource(r['path'], self.case.get('rootnone'))
        lin = []
        while ctx is not None:                   # the harness's own walk up the lineage
            lin.append(ctx)
            ctx = getattr(ctx, '__parent__', None)
        scored = [(None, 0)]                     # the predicate-less Not Found view always qualifies
        for k, nv in enumerate(self.case['nfviews']):
            ok, n = True, 0
            if nv['cont'] is not None:
                c = P['classes'][nv['cont']]
                inside = any((c.providedBy(x) if nv['cont'] in ('I', 'I2') else isinstance(x, c)) for x in lin)
                ok = ok and (inside != bool(nv['cont_not']))
                n += 1
            if nv['mp'] is not None:
                ok = ok and r['route'] is not None and r['mp'] == nv['mp']
                n += 1
            if ok:
                scored.append((k, n))
        best = max(n for _, n in scored)
        return {k for k, n in scored if n == best}

    def mades(self):
        digests = []
        out = []
        for v in self.case['views']:
            t = v['tag']
            if t in self.failed or t not in self.made:
                out.append([])
                digests.append(None)
                continue
            order, ph, n = self.made[t]
            digests.append(ph)
            out.append([order, digests.index(ph), n])
        return out


_WCACHE = {}


def world(case):
    import json
    k = json.dumps(case, sort_keys=True)
    w = _WCACHE.get(k)
    if w is None:
        if len(_WCACHE) > 64:
            _WCACHE.clear()
        w = _WCACHE[k] = World(case)
    return w


# ------------------------------------------------------------------ wire
def _after(r, n):
    a = r.get('after')
    return n if a is None else a


def to_wire(case):
    w = world(case)
    n = len(case['views'])
    return [w.extra, w.args, [[_after(r, n), w.oracle(r)] for r in case['requests']]]


def from_wire(case, raw):
    if raw == [['bad']] or not (isinstance(raw, list) and len(raw) == 3):
        return {'model': ['MODEL-BAD', raw], 'spec': None}
    gmades, mades, per = raw
    raising = {v['tag'] for v in case['views'] if v.get('raises404')}

    def ran(res):      # the lookup's answer "this body runs"; a body that raises HTTPNotFound is observed as [2, tag]
        return [2, res[1]] if res and res[0] == 1 and res[1] in raising else res
    per = [[ran(p[0])] + list(p[1:6]) + [ran(p[6])] for p in per]
    model = [gmades, [p[0] for p in per]]           # the answers of the program regenerated from the source
    if gmades != mades or any(p[0] != p[6] for p in per):
        model = ['REGENERATED-PROGRAM-DIFFERS-FROM-REFERENCE-MODEL', model, [mades, [p[6] for p in per]]]
    return {'model': model, 'spec': [[sorted(p[1]), sorted(p[2]), sorted(p[3]), sorted(p[4]), p[5]] for p in per]}


# ------------------------------------------------------------------ implementation
def run_impl(case):
    w = World(case, serve=True)          # always a fresh registry: the history of served requests matters
    return [w.mades(), w.results]


# ------------------------------------------------------------------ judging
def _fits(res, winners):
    if res and res[0] in (1, 2):
        return res[1] in winners
    if res and res[0] == 0:
        return winners == []
    return False


def spec_holds(case, obs, spec):
    """The property on the implementation's own outcome: the body that ran is one of the registrations the
    declarative specification (Coq: spec_winners) allows; Not Found exactly when it allows none."""
    if spec is None or not (isinstance(obs, list) and len(obs) == 2 and len(obs[1]) == len(spec)):
        return None
    return all(_fits(res, sp[0]) for res, sp in zip(obs[1], spec))


def _collision(case, obs):
    """two registrations in one slot whose digests are equal although their predicate arguments differ"""
    mades = obs[0]
    vs = case['views']
    for i in range(len(vs)):
        for j in range(i + 1, len(vs)):
            if mades[i] and mades[j] and mades[i][1] == mades[j][1] \
                    and (vs[i]['ctx'], vs[i]['name'], vs[i]['route']) == (vs[j]['ctx'], vs[j]['name'], vs[j]['route']) \
                    and (vs[i]['preds'], vs[i]['nots'], vs[i]['accept']) != (vs[j]['preds'], vs[j]['nots'], vs[j]['accept']):
                return True
    return False


def _stale_override(case, obs, bad):
    """every deviating request ran an unsecured view that a later secured registration with the same slot
    and predicates had overridden"""
    vs = {v['tag']: (i, v) for i, v in enumerate(case['views'])}
    for res, sp in bad:
        if not (res and res[0] == 1 and res[1] in vs):
            return False
        i, old = vs[res[1]]
        if old['perm'] or not any(
                new['perm'] and (new['ctx'], new['name'], new['route'], new['preds'], new['nots'], new['accept'])
                == (old['ctx'], old['name'], old['route'], old['preds'], old['nots'], old['accept'])
                for new in case['views'][i + 1:]):
            return False
    return True


def classify(case, obs, spec):
    if spec is None:
        return None
    bad = [(res, sp) for res, sp in zip(obs[1], spec) if not _fits(res, sp[0])]
    if not bad:
        return None
    if all(_fits(res, sp[1]) for res, sp in bad) and any(v['accept'] is not None for v in case['views']):
        return 'C03-accept-first'
    if all(_fits(res, sp[3]) for res, sp in bad) and _stale_override(case, obs, bad):
        return 'C03-override-keeps-old-iface'
    if all(_fits(res, sp[2]) for res, sp in bad) and _collision(case, obs):
        return 'C03-phash-collision'
    return None


def nontrivial(case, obs):
    if len(case['views']) < 3 or not isinstance(obs, list) or len(obs) != 2:
        return False
    ran = set()
    other = False
    contested = False
    for r, res in zip(case['requests'], obs[1]):
        if res and res[0] in (1, 2):
            ran.add(res[1])
            n = sum(1 for v in case['views'] if v['name'] == r['vname'] and (v['route'] is None or v['route'] == r['route']))
            contested = contested or n >= 2
        elif res and res[0] == 0:
            other = True
    return contested and (other or len(ran) >= 2)


def _differs_by_one_not(a, b):
    if set(a['preds']) != set(b['preds']):
        return False
    d = 0
    for n in a['preds']:
        if n == 'custom':
            ca, cb = a['preds'][n], b['preds'][n]
            if len(ca) != len(cb) or [x[0] for x in ca] != [x[0] for x in cb]:
                return False
            d += sum(1 for x, y in zip(ca, cb) if x[1] != y[1])
        else:
            if a['preds'][n] != b['preds'][n]:
                return False
            d += (n in a['nots']) != (n in b['nots'])
    return d == 1


def kinds(case, obs):
    k = []
    if not (isinstance(obs, list) and len(obs) == 2):
        return ['odd']
    nviews = len(case['views'])
    for r, res in zip(case['requests'], obs[1]):
        if _after(r, nviews) < nviews:
            k.append('req:sent-between-commits')
            if res and res[0] == 1:
                k.append('req:ran-between-commits')
    for res in obs[1]:
        k.append({1: 'req:ran', 2: 'req:ran-body-raised-404', 0: 'req:notfound'}.get(res[0], 'req:odd') if res else 'req:odd')
        if res and res[0] == 0:
            k.append('req:notfound-pme' if res[1] else 'req:notfound-noview')
    names = set()
    for v in case['views']:
        names |= set(v['preds'])
        if v['nots']:
            names.add('not_')
        if v['accept']:
            names.add('accept')
        if v['perm']:
            names.add('secured')
        if v['route']:
            names.add('route-bound')
        k.append('view:npreds%d' % min(len(v['preds']), 4))
    k += ['cfg:uses-' + n for n in sorted(names)]
    k.append('cfg:views%d' % len(case['views']))
    if any(not m for m in obs[0]):
        k.append('cfg:add_view-raised')
    slots = [(v['ctx'], v['name'], v['route']) for v in case['views']]
    if len(set(slots)) < len(slots):
        k.append('cfg:multiview')
    if any(r['ugv'] for r in case['routes']):
        k.append('cfg:use_global_views')
    if case.get('rootnone'):
        k.append('cfg:root-named-None')
    if case.get('twoapps'):
        k.append('cfg:two-applications-interleaved')
    if case.get('falsy'):
        k.append('cfg:falsy-empty-resources')
    if case.get('nfviews'):
        k.append('cfg:notfound-views-with-predicates')
    if any(r.get('mark') for r in case['requests']):
        k.append('cfg:context-marked-by-subscriber')
    if any(v['ctx'] == 'M' for v in case['views']):
        k.append('cfg:view-on-marker-interface')
    if any(v.get('fragile') and 'custom' in v['preds'] and 'request_method' in v['preds'] and 'request_method' not in v['nots']
           for v in case['views']):
        k.append('cfg:custom-predicate-safe-only-behind-request_method')
    for st in sorted({v.get('style', 'kw') for v in case['views']} - {'kw'}):
        k.append('cfg:add_view-' + ('for_-alias' if st == 'for_' else 'positional-arguments'))
    if any(r.get('ident', r['user']) != r['user'] for r in case['requests']):
        k.append('cfg:identity-differs-from-userid')
    k.append('cfg:autocommit' if case['commits'] is None else 'cfg:commits%d' % (len(case['commits']) + 1))
    vs = case['views']
    for i in range(len(vs)):
        for j in range(i + 1, len(vs)):
            if all(vs[i][f] == vs[j][f] for f in ('ctx', 'name', 'route', 'accept')) and _differs_by_one_not(vs[i], vs[j]):
                k.append('cfg:not_-sibling-' + ('autocommit' if case['commits'] is None else
                                               'same-commit' if not any(i <= c < j for c in case['commits']) else 'later-commit'))
            if all(vs[i][f] == vs[j][f] for f in ('ctx', 'name', 'route', 'nots', 'accept')) \
                    and set(vs[i]['preds']) == set(vs[j]['preds']) \
                    and sum(1 for n in vs[i]['preds'] if vs[i]['preds'][n] != vs[j]['preds'][n]) == 1:
                k.append('cfg:value-twin')
                ca, cb = vs[i]['preds'].get('containment'), vs[j]['preds'].get('containment')
                if ca != cb and {ca, cb} in ({'A', 'A2'}, {'I', 'I2'}):
                    k.append('cfg:containment-twin-same-short-name')
            if all(vs[i][f] == vs[j][f] for f in ('ctx', 'name', 'route', 'preds', 'nots', 'accept')):
                k.append('cfg:override-%s-to-%s' % ('secured' if vs[i]['perm'] else 'plain', 'secured' if vs[j]['perm'] else 'plain'))
    return k


def describe(case):
    return {'routes': case['routes'], 'views': case['views'], 'commits': case['commits'], 'requests': case['requests'][:3]}


# ------------------------------------------------------------------ violation search
def targeted(broken, disagreements, rng):
    """Configurations concentrated on one slot (many competing views, every predicate count), on GET/HEAD, on
    the fall-through after mismatches in a more specific slot, and on route-bound vs global."""
    out = []
    for _ in range(150):                      # P / not_(P) siblings in one slot, every commit regime
        c = gen_case(rng)
        o = c['views'][0]
        sib = _not_sibling(rng, o, max(v['tag'] for v in c['views']) + 1, c['third'])
        if sib is None:
            continue
        c['views'] = ([o, sib] if rng.random() < 0.5 else [sib, o]) + c['views'][1:3]
        c['commits'] = rng.choice([None, [], [0], [0, 1]])
        n = len(c['views'])
        for r in c['requests']:
            r['after'] = n
            r['vname'], r['route'] = o['name'], o['route']
            r['path'] = rng.choice(CTX_PATHS[o['ctx']])
        if valid(c):
            out.append(c)
    for _ in range(150):                      # value twins (one predicate value replaced by a near value) in one slot
        c = gen_case(rng)
        o = c['views'][0]
        if not o['preds']:
            n = rng.choice(sorted(NEAR))
            o['preds'] = {n: rng.choice(sorted(NEAR[n]))}
            o['nots'] = []
        sib = _near_twin(rng, o, max(v['tag'] for v in c['views']) + 1, c['third'])
        if sib is None:
            continue
        c['views'] = ([o, sib] if rng.random() < 0.5 else [sib, o]) + c['views'][1:3]
        c['commits'] = rng.choice([None, [], [0], [0, 1]])
        n = len(c['views'])
        for r in c['requests']:
            r['after'] = n
            r['vname'], r['route'] = o['name'], o['route']
            r['path'] = rng.choice(CTX_PATHS[o['ctx']])
        if valid(c):
            out.append(c)
    for _ in range(250):
        c = gen_case(rng)
        focus = (rng.choice(['A', 'B', None]), '')
        for v in c['views']:
            if rng.random() < 0.85:
                v['ctx'], v['name'] = focus
                if rng.random() < 0.8:
                    v['route'] = None
            if rng.random() < 0.5:
                v['preds'] = dict(v['preds'], request_method=rng.choice(['GET', 'POST', ['GET', 'POST']]))
                v['nots'] = [n for n in v['nots'] if n != 'request_method']
        for r in c['requests']:
            r['vname'] = ''
            r['path'] = rng.choice([['a', 'b'], ['a', 'b', 'c'], ['a']])
            r['method'] = rng.choice(['GET', 'HEAD', 'POST'])
            r['post'] = []
        if valid(c):
            out.append(c)
    return out
