"""Facts extractor for C03: order arithmetic of PredicateList.make (translated
expression by expression), predicate names, view-type tuples, predicate text
literals, default accept order.  Fail closed: anything unrecognised goes to
`problems` and a default is emitted so the generated file still type-checks."""
import ast
import os
from harness.common import facts as F

HERE = os.path.dirname(os.path.abspath(__file__))


class Unk(Exception):
    pass


def zexpr(node, env):
    """Python int expression -> Coq Z expression (string).  env: python name -> coq name;
    ('len', 'x') -> coq name for len(x)."""
    if isinstance(node, ast.Constant) and isinstance(node.value, int) and not isinstance(node.value, bool):
        return '(%d)' % node.value
    if isinstance(node, ast.Name):
        if node.id in env:
            return env[node.id]
        raise Unk('free name %s' % node.id)
    if isinstance(node, ast.Call) and isinstance(node.func, ast.Name) and node.func.id == 'len' \
            and len(node.args) == 1 and isinstance(node.args[0], ast.Name) and not node.keywords:
        k = ('len', node.args[0].id)
        if k in env:
            return env[k]
        raise Unk('len(%s)' % node.args[0].id)
    if isinstance(node, ast.BinOp):
        a, b = zexpr(node.left, env), zexpr(node.right, env)
        op = type(node.op).__name__
        fmt = {'LShift': '(Z.shiftl %s %s)', 'RShift': '(Z.shiftr %s %s)', 'Add': '(%s + %s)', 'Sub': '(%s - %s)',
               'Mult': '(%s * %s)', 'FloorDiv': '(Z.div %s %s)', 'BitOr': '(Z.lor %s %s)', 'BitAnd': '(Z.land %s %s)',
               'BitXor': '(Z.lxor %s %s)', 'Mod': '(Z.modulo %s %s)'}.get(op)
        if fmt is None:
            raise Unk('operator %s' % op)
        return fmt % (a, b)
    if isinstance(node, ast.UnaryOp) and isinstance(node.op, ast.USub):
        return '(- %s)' % zexpr(node.operand, env)
    raise Unk(ast.dump(node)[:80])


def _assigns(fn, name):
    out = []
    for n in ast.walk(fn):
        if isinstance(n, ast.Assign) and len(n.targets) == 1 and isinstance(n.targets[0], ast.Name) \
                and n.targets[0].id == name:
            out.append(n.value)
    return out


def _names_tuple(node):
    if isinstance(node, ast.Tuple) and all(isinstance(e, ast.Name) for e in node.elts):
        return [e.id for e in node.elts]
    raise Unk('not a tuple of names: %s' % ast.dump(node)[:80])


def _text_consts(cls, meth='text'):
    """(first string literal reached in the method's return expr cut at its first % or {, first 'sep'.join literal)"""
    fn = None
    for st in cls.body:
        if isinstance(st, ast.FunctionDef) and st.name == meth:
            fn = st
    if fn is None:
        raise Unk('%s.%s missing' % (cls.name, meth))
    prefix, sep = None, None
    for n in ast.walk(fn):
        if isinstance(n, ast.Return) and n.value is not None:
            for m in ast.walk(n.value):
                if isinstance(m, ast.Call) and isinstance(m.func, ast.Attribute) and m.func.attr == 'join' \
                        and isinstance(m.func.value, ast.Constant) and isinstance(m.func.value.value, str) and sep is None:
                    sep = m.func.value.value
            v = n.value
            if isinstance(v, ast.BinOp) and isinstance(v.op, ast.Mod) and isinstance(v.left, ast.Constant):
                prefix = v.left.value.split('%')[0]
            elif isinstance(v, ast.JoinedStr) and v.values and isinstance(v.values[0], ast.Constant):
                prefix = v.values[0].value
            elif isinstance(v, ast.Call) and isinstance(v.func, ast.Attribute) and v.func.attr == 'format' \
                    and isinstance(v.func.value, ast.Constant):
                prefix = v.func.value.value.split('{')[0]
            elif isinstance(v, ast.Call) and isinstance(v.func, ast.Name) and v.func.id == 'getattr' and len(v.args) == 3 \
                    and isinstance(v.args[2], ast.BinOp) and isinstance(v.args[2].left, ast.Constant):
                prefix = v.args[2].left.value.split('%')[0]
    if not isinstance(prefix, str):
        raise Unk('%s.%s: no leading literal' % (cls.name, meth))
    return prefix, sep


PRED_CLASSES = [  # (coq stem, class, method carrying the literal, needs separator)
    ('xhr', 'XHRPredicate', 'text', False), ('request_method', 'RequestMethodPredicate', 'text', True),
    ('path_info', 'PathInfoPredicate', 'text', False), ('request_param', 'RequestParamPredicate', 'text', True),
    ('header', 'HeaderPredicate', 'text', True), ('accept', 'AcceptPredicate', 'text', True),
    ('containment', 'ContainmentPredicate', 'text', False), ('match_param', 'MatchParamPredicate', 'text', True),
    ('physical_path', 'PhysicalPathPredicate', 'text', False), ('is_authenticated', 'IsAuthenticatedPredicate', 'text', False),
    ('custom', 'CustomPredicate', 'phash', False)]

DEFAULTS = {
    'max_order': '(Z.shiftl (1) (30))', 'weight': '(Z.shiftl (1) (n + (1)))', 'score_init': '(0)',
    'score_step': '(Z.lor score bit)', 'order_of': '(Z.div (max_order - score) (npreds + (1)))',
    'pred_names': ['xhr', 'request_method', 'path_info', 'request_param', 'header', 'accept', 'containment',
                   'request_type', 'match_param', 'physical_path', 'is_authenticated', 'effective_principals', 'custom'],
    'find_view_types': ['IView', 'ISecuredView', 'IMultiView'],
    'register_view_types': ['IView', 'ISecuredView', 'IMultiView'],
    'unregister_view_types': ['IView', 'ISecuredView'],
    'override_unregister_view_types': ['IView', 'ISecuredView'],
    'accept_order': ['text/html', 'application/xhtml+xml', 'application/xml', 'text/xml', 'text/plain', 'application/json'],
    'rm_get': 'GET', 'rm_head': 'HEAD', 'not_mark': '!', 'phash_of_final_pred': True,
    'pfx': {'xhr': ('xhr = ', None), 'request_method': ('request_method = ', ','), 'path_info': ('path_info = ', None),
            'request_param': ('request_param ', ','), 'header': ('header ', ', '), 'accept': ('accept = ', ', '),
            'containment': ('containment = ', None), 'match_param': ('match_param ', ','),
            'physical_path': ('physical_path = ', None), 'is_authenticated': ('is_authenticated = ', None),
            'custom': ('custom:', None)},
}


def extract(src, problems):
    v = {k: (dict(x) if isinstance(x, dict) else x) for k, x in DEFAULTS.items()}

    def attempt(what, fn):
        try:
            fn()
        except Exception as e:
            problems.append('%s unrecognised: %s' % (what, e))

    try:
        mp = F.Module(src, 'pyramid/config/predicates.py')
        mv = F.Module(src, 'pyramid/config/views.py')
        mw = F.Module(src, 'pyramid/view.py')
        mq = F.Module(src, 'pyramid/predicates.py')
    except Exception as e:
        problems.append('cannot parse anchored modules: %r' % e)
        return v

    def f_max():
        v['max_order'] = zexpr(mp.const_expr('MAX_ORDER'), {})
    attempt('MAX_ORDER', f_max)

    def f_dph():
        e = mp.const_expr('DEFAULT_PHASH')
        if ast.dump(e) != ast.dump(ast.parse('sha256().hexdigest()').body[0].value):
            raise Unk('DEFAULT_PHASH is no longer the digest of the empty string')
    attempt('DEFAULT_PHASH', f_dph)

    make = mp.find('PredicateList.make')

    def f_make():
        """name-independent: the arithmetic is found by its SHAPE (the names of make's locals do not matter; the control
        flow of make itself is regenerated by the translator and proved equal to the model)"""
        if make is None:
            raise Unk('PredicateList.make missing')
        loops = [n for n in ast.walk(make) if isinstance(n, ast.For) and isinstance(n.iter, ast.Call)
                 and isinstance(n.iter.func, ast.Name) and n.iter.func.id == 'enumerate']
        if len(loops) != 1 or not (isinstance(loops[0].target, ast.Tuple) and isinstance(loops[0].target.elts[0], ast.Name)):
            raise Unk('the enumerate loop')
        nvar = loops[0].target.elts[0].id
        apps = []
        for n in ast.walk(loops[0]):
            if isinstance(n, ast.Call) and isinstance(n.func, ast.Attribute) and n.func.attr == 'append' and len(n.args) == 1 \
                    and any(isinstance(m, ast.Name) and m.id == nvar for m in ast.walk(n.args[0])):
                apps.append(n)
        if len(apps) != 1 or not isinstance(apps[0].func.value, ast.Name):
            raise Unk('the append of the weight')
        wlist = apps[0].func.value.id
        v['weight'] = zexpr(apps[0].args[0], {nvar: 'n'})
        fl = [n for n in ast.walk(make) if isinstance(n, ast.For) and isinstance(n.iter, ast.Name) and n.iter.id == wlist]
        if len(fl) != 1 or not isinstance(fl[0].target, ast.Name) or len(fl[0].body) != 1 \
                or not isinstance(fl[0].body[0], ast.Assign) or len(fl[0].body[0].targets) != 1 \
                or not isinstance(fl[0].body[0].targets[0], ast.Name):
            raise Unk('the score loop')
        svar = fl[0].body[0].targets[0].id
        v['score_step'] = zexpr(fl[0].body[0].value, {svar: 'score', fl[0].target.id: 'bit'})
        inits = [st for st in make.body if isinstance(st, ast.Assign) and len(st.targets) == 1
                 and isinstance(st.targets[0], ast.Name) and st.targets[0].id == svar]
        if len(inits) != 1:
            raise Unk('the initial score')
        v['score_init'] = zexpr(inits[0].value, {})
        ret = [n for n in ast.walk(make) if isinstance(n, ast.Return)]
        if len(ret) != 1 or not isinstance(ret[0].value, ast.Tuple) or len(ret[0].value.elts) != 3 \
                or not all(isinstance(e, ast.Name) for e in ret[0].value.elts[:2]):
            raise Unk('return of make')
        ovar, pvar = ret[0].value.elts[0].id, ret[0].value.elts[1].id
        od = [st for st in make.body if isinstance(st, ast.Assign) and len(st.targets) == 1
              and isinstance(st.targets[0], ast.Name) and st.targets[0].id == ovar]
        if len(od) != 1:
            raise Unk('order assignment')
        v['order_of'] = zexpr(od[0].value, {'MAX_ORDER': 'max_order', svar: 'score', ('len', pvar): 'npreds'})
    attempt('PredicateList.make arithmetic', f_make)

    v['phash_of_final_pred'] = True     # superseded: the statement order of make is regenerated (translate.py, gen_make_is_model)

    def f_names():
        fn = mv.find('ViewsConfiguratorMixin.add_default_view_predicates')
        loops = [n for n in ast.walk(fn) if isinstance(n, ast.For)]
        if len(loops) != 1 or not isinstance(loops[0].iter, ast.Tuple):
            raise Unk('loop over a literal tuple')
        names = []
        for e in loops[0].iter.elts:
            if not (isinstance(e, ast.Tuple) and len(e.elts) == 2 and isinstance(e.elts[0], ast.Constant)
                    and isinstance(e.elts[1], ast.Attribute)):
                raise Unk('entry shape')
            names.append((e.elts[0].value, e.elts[1].attr))
        v['pred_names'] = [n for n, _ in names]
        v['pred_classes'] = dict(names)
        want = {s: c for s, c, _, _ in PRED_CLASSES}
        for s, c in want.items():
            if dict(names).get(s) != c:
                raise Unk('predicate %s is no longer built by %s' % (s, c))
    attempt('default view predicate names', f_names)

    def f_acc():
        fn = mv.find('ViewsConfiguratorMixin.add_default_accept_view_order')
        loops = [n for n in ast.walk(fn) if isinstance(n, ast.For)]
        if len(loops) != 1:
            raise Unk('loop')
        v['accept_order'] = list(ast.literal_eval(loops[0].iter))
    attempt('default accept order', f_acc)

    def f_types():
        fv = mw.find('_find_views')
        vt = _assigns(fv, 'view_types')
        if len(vt) != 1:
            raise Unk('view_types default in _find_views')
        v['find_view_types'] = _names_tuple(vt[0])
        rv = mv.find('ViewsConfiguratorMixin.add_view.register_view')
        top = [n for n in rv.body if isinstance(n, ast.For) and isinstance(n.target, ast.Name)
               and n.target.id == 'view_type']
        if len(top) != 1:
            raise Unk('the lookup loop of register_view')
        v['register_view_types'] = _names_tuple(top[0].iter)
        branch = [n for n in rv.body if isinstance(n, ast.If) and ast.unparse(n.test) == 'not want_multiview']
        if len(branch) != 1:
            raise Unk('if not want_multiview')

        def unreg_loops(stmts):
            out = []
            for n in stmts:
                if isinstance(n, ast.For) and isinstance(n.target, ast.Name) and n.target.id == 'view_type':
                    calls = [c for c in ast.walk(n) if isinstance(c, ast.Call) and isinstance(c.func, ast.Attribute)]
                    if len(n.body) != 1 or len(calls) != 1 or calls[0].func.attr != 'unregister' \
                            or 'view_type' not in ast.unparse(calls[0]):
                        raise Unk('body of a view_type loop')
                    out.append(_names_tuple(n.iter))
            return out

        def reg_calls(stmts):
            return [i for i, n in enumerate(stmts) if isinstance(n, ast.Expr) and isinstance(n.value, ast.Call)
                    and isinstance(n.value.func, ast.Attribute) and n.value.func.attr == 'registerAdapter']
        single, multi = branch[0].body, branch[0].orelse
        if len(reg_calls(single)) != 1 or len(reg_calls(multi)) != 1:
            raise Unk('one registerAdapter per branch')
        for stmts in (single, multi):       # every unregister loop must come before the registerAdapter call
            k = reg_calls(stmts)[0]
            if any(isinstance(n, ast.For) for n in stmts[k + 1:]):
                raise Unk('loop after registerAdapter')
        lo = unreg_loops(single)
        if len(lo) > 1:
            raise Unk('more than one unregister loop in the single-view branch')
        v['override_unregister_view_types'] = lo[0] if lo else []
        lm = unreg_loops(multi)
        if len(lm) != 1:
            raise Unk('unregister loop of the multiview branch')
        v['unregister_view_types'] = lm[0]
        known = {'IView', 'ISecuredView', 'IMultiView'}
        for k in ('find_view_types', 'register_view_types', 'unregister_view_types', 'override_unregister_view_types'):
            if not set(v[k]) <= known:
                raise Unk('%s names an unknown view type' % k)
    attempt('view type tuples', f_types)

    def f_rm():
        # RequestMethodPredicate.__init__ is TRANSLATED (gen_mk_request_method, theorem gen_factory_is_model): a shape this
        # reader does not know is no alarm by itself.  What it does read must be the documented pair: "GET implies HEAD"
        # is the property's condition, not a parameter the specification may follow the code on.
        init = mq.find('RequestMethodPredicate.__init__')
        tests = [n for n in ast.walk(init) if isinstance(n, ast.If)] if init is not None else []
        if len(tests) != 1:
            return
        t = tests[0].test
        if not (isinstance(t, ast.BoolOp) and isinstance(t.op, ast.And) and len(t.values) == 2
                and isinstance(t.values[0], ast.Compare) and isinstance(t.values[0].ops[0], ast.In)
                and isinstance(t.values[1], ast.Compare) and isinstance(t.values[1].ops[0], ast.NotIn)
                and isinstance(t.values[0].left, ast.Constant) and isinstance(t.values[1].left, ast.Constant)):
            return
        got = (t.values[0].left.value, t.values[1].left.value)
        if got != (DEFAULTS['rm_get'], DEFAULTS['rm_head']):
            raise Unk('the request methods tested are %r, the documented rule is GET implies HEAD' % (got,))
    attempt('GET implies HEAD', f_rm)

    def f_pfx():
        for stem, cls, meth, needsep in PRED_CLASSES:
            node = mq.find(cls)
            if node is None:
                raise Unk(cls + ' missing')
            # text() / phash() are TRANSLATED (harness/c03/translate.py, theorem gen_pred_phash_is_model): the literals read
            # here only let the reference model follow a changed prefix / separator; a shape this reader does not know
            # keeps the reference literal and is no alarm by itself -- the equality theorem is the tie
            try:
                p, s = _text_consts(node, meth)
            except Unk:
                continue
            if needsep and s is None:
                continue
            v['pfx'][stem] = (p, s)
        nt = mq.find('Notted._notted_text')
        lits = [n.value for n in ast.walk(nt) if isinstance(n, ast.Constant) and isinstance(n.value, str)
                and len(n.value) <= 3] if nt is not None else []
        if len(lits) == 1:
            v['not_mark'] = lits[0]
        # the declarative specification identifies a registration by these texts ("same slot and same predicates"): it may
        # follow the code's literals only as long as they keep different predicates apart.  Otherwise the reference literals
        # stay (and the equality theorems / the correspondence report the difference)
        pf = [p for p, _ in v['pfx'].values()]
        if v['not_mark'] == '' or any(not a or (a != b and b.startswith(a)) for a in pf for b in pf) or len(set(pf)) != len(pf) \
                or any(a.startswith(v['not_mark']) for a in pf):
            v['pfx'] = {k: tuple(x) for k, x in DEFAULTS['pfx'].items()}
            v['not_mark'] = DEFAULTS['not_mark']
            raise Unk('the prefixes / the not_ mark read from the source no longer keep the texts of different predicates apart')
    attempt('predicate text literals', f_pfx)
    return v


def emit(v):
    T = F.coq_text
    out = [F.HEADER, 'Open Scope Z_scope.\n',
           '(* --- translated from pyramid/config/predicates.py *)\n',
           'Definition max_order : Z := %s.\n' % v['max_order'],
           'Definition weight (n : Z) : Z := %s.\n' % v['weight'],
           'Definition score_init : Z := %s.\n' % v['score_init'],
           'Definition score_step (score bit : Z) : Z := %s.\n' % v['score_step'],
           'Definition order_of (score npreds : Z) : Z := %s.\n' % v['order_of'],
           'Definition default_phash : text := [].  (* sha256 of no input; digests are modelled by their input *)\n',
           'Definition pred_names : list text := %s.\n' % F.coq_texts(v['pred_names']),
           'Definition accept_order_default : list text := %s.\n' % F.coq_texts(v['accept_order']),
           'Definition find_view_type_names : list text := %s.\n' % F.coq_texts(v['find_view_types']),
           'Definition register_view_type_names : list text := %s.\n' % F.coq_texts(v['register_view_types']),
           'Definition unregister_view_type_names : list text := %s.\n' % F.coq_texts(v['unregister_view_types']),
           'Definition override_unregister_view_type_names : list text := %s.\n' % F.coq_texts(v['override_unregister_view_types']),
           'Definition rm_get : text := %s.\nDefinition rm_head : text := %s.\n' % (T(v['rm_get']), T(v['rm_head'])),
           'Definition not_mark : text := %s.\n' % T(v['not_mark']),
           '(* make hashes and keeps the final (possibly Notted) predicate object *)\n',
           'Definition phash_of_final_pred : bool := %s.\n' % F.coq_bool(v['phash_of_final_pred'])]
    for stem, (p, s) in sorted(v['pfx'].items()):
        out.append('Definition pfx_%s : text := %s.\n' % (stem, T(p)))
        if s is not None:
            out.append('Definition sep_%s : text := %s.\n' % (stem, T(s)))
    out.append('(* --- names and Python-level literals (not Pyramid source) *)\n')
    for n in ('xhr', 'request_method', 'path_info', 'request_param', 'header', 'accept', 'containment', 'match_param',
              'physical_path', 'is_authenticated', 'custom', 'IView', 'ISecuredView', 'IMultiView'):
        out.append('Definition nm_%s : text := %s.\n' % (n, T(n)))
    for n, s in (('true', 'True'), ('false', 'False'), ('eq', '='), ('colon', ':'), ('slash', '/')):
        out.append('Definition lit_%s : text := %s.\n' % (n, T(s)))
    return ''.join(out)
