"""C18 directive translator: the ARGUMENT PROCESSING of the two configurator directives whose hand model was only
shape-pinned so far -- ViewsConfiguratorMixin.add_view_deriver (config/views.py) and
TweensConfiguratorMixin._add_tween / add_tween (config/tweens.py) -- is regenerated into Gallina on every run
(appended to coq/Gen/Facts_C18.v).  Proofs/C18_args.v proves gen_deriver_args = deriver_args and
gen_add_tween = add_tween_model with scripts that never mention the generated text.

Fail-closed: any statement / expression outside the tables below is a Problem; the caller reports the broken tie and
emits the stored fallback text (gen_fallback_args.json) so that the Coq files still type-check.

=== TYPES =====================================================================================================
  name / tween_factory (before maybe_dotted)   node (a str; `isinstance(x, str)` is statically true, `x is None` false)
  deriver / tween_factory after maybe_dotted   val  (opaque object id; maybe_dotted(x) of a node = the extra parameter
                                               `resolved`, of a val = itself)
  under / over as passed                       hint (None | one name | iterable of names)
  under / over after as_sorted_tuple           nodes (list node)
  explicit                                     bool
=== STATEMENTS (straight-line, in source order; mutation = re-binding `let`) ===================================
  if C: raise ConfigurationError(MSG)          if <C> then inl <code of MSG> else <rest>        (codes: MESSAGES)
  if x is None: x = 'lit'      (x : hint)      let v_x := if hint_is_none v_x then HOne <lit> else v_x in
  if C: x = E                                  let v_x := if <C> then <E> else v_x in
  x = E                                        let v_x := <E> in
  name = tween_factory                         alias
  if name is None: name = deriver.__name__     skipped (name : node is never None -- the harness always names derivers)
  if not isinstance(x, str): raise ..          skipped (x : node)
  for t, p in [('over', over), ('under', under)]:
      if p is not None:
          if not is_string_or_iterable(p): raise ..     skipped (p : hint is None, a str or an iterable by typing)
  PLUMBING (no effect on tracked variables; targets must be untracked): registry = self.registry;
      introspectables = []; x = registry.queryUtility(I); if x is None: x = K(..); registry.registerUtility(x, I);
      discriminator = ..; tween_type = ..; intr = self.introspectable(..); intr[k] = ..; introspectables.append(intr)
  def register(): ..                           remembered; tracked variables it reads must not be re-bound afterwards
                                               (a closure sees the LATEST binding when the action runs)
  self.action(discriminator, register, ..)     the action runs register(): its body is translated here (must be last)
  return self._add_tween(a.., k=v..)           (add_tween) gen_add_tween with arguments bound by parameter name
=== register() bodies ===========================================================================================
  derivers = self.registry.queryUtility(IViewDerivers); if derivers is None: derivers = TopologicalSorter(..);
      self.registry.registerUtility(derivers, IViewDerivers)       plumbing (constructor arguments: value fact)
  derivers.add(name, deriver, before=B, after=A)                   inr (<A>, <B>)   bound by TopologicalSorter.add's
                                                                   parameter names (read from util.py)
  if explicit: tweens.add_explicit(name, f) else: tweens.add_implicit(name, f, under=U, over=O)
                                                                   inr (if v_explicit then TRExplicit n f
                                                                        else TRImplicit n f <U> <O>)  bound by the
                                                                   parameter names of Tweens.add_explicit/add_implicit
=== EXPRESSIONS / CONDITIONS ====================================================================================
  'lit'                     text literal          INGRESS / VIEW / MAIN (module constants)   the fact constants
  (a, b) / (a,)             [a; b] / [a]          x + y (nodes)      x ++ y
  as_sorted_tuple(h : hint) as_sorted_tuple h     as_sorted_tuple(l : nodes)   sort_texts l
  a in L (L : nodes)        mem_text a L          a == b / a != b (nodes)      text_eqb / negb
  h is None (h : hint)      hint_is_none h        h is C (h : hint, C constant)   hint_is_one C h  (identity modelled as
                                                  equality of a bare hint: the harness hands over the constants)
  is_nonstr_iter(h)         hint_is_many h        C in h (h : hint) ONLY to the right of `is_nonstr_iter(h) and`:
                                                  hint_many_has C h     (unguarded `in` on a hint is a substring test
                                                  for bare strings: outside the table)
  and / or / not            && / || / negb        explicit (bool)    v_explicit
"""
import ast
import json
import os

HERE = os.path.dirname(os.path.abspath(__file__))
FALLBACK = os.path.join(HERE, 'gen_fallback_args.json')

TRANSLATED = [
    'pyramid/config/views.py:ViewsConfiguratorMixin.add_view_deriver',
    'pyramid/config/views.py:ViewsConfiguratorMixin.add_view_deriver.register',
    'pyramid/config/tweens.py:TweensConfiguratorMixin._add_tween',
    'pyramid/config/tweens.py:TweensConfiguratorMixin._add_tween.register',
    'pyramid/config/tweens.py:TweensConfiguratorMixin.add_tween',
    'pyramid/config/predicates.py:PredicateList.add',
    'pyramid/config/predicates.py:PredicateConfiguratorMixin._add_predicate',
    'pyramid/config/predicates.py:PredicateConfiguratorMixin._add_predicate.register',
    'pyramid/config/views.py:ViewsConfiguratorMixin.add_view_predicate',
    'pyramid/config/routes.py:RoutesConfiguratorMixin.add_route_predicate',
    'pyramid/config/adapters.py:AdaptersConfiguratorMixin.add_subscriber_predicate',
]
GEN_NAMES = ['gen_deriver_args', 'gen_add_tween', 'gen_add_tween_directive', 'gen_pl_add', 'gen_add_predicate',
             'gen_pred_directive_view', 'gen_pred_directive_route', 'gen_pred_directive_subscriber']

# ConfigurationError messages -> the small codes of the model / harness (by literal fragment)
MESSAGES = {
    'deriver': [('is a reserved view deriver name', 1), ('cannot be over INGRESS', 2), ('cannot be under VIEW', 3),
                ('cannot be under "mapped_view"', 4)],
    'tween': [('is a reserved tween name', 1), ('cannot be over INGRESS', 2), ('cannot be under MAIN', 3)],
}


class Problem(Exception):
    pass


def u(n):
    try:
        return ast.unparse(n)
    except Exception:
        return '<%s>' % type(n).__name__


def coq_text(s):
    return '[' + '; '.join(str(ord(c)) for c in s) + ']%N'


def par(t):
    return t if (' ' not in t or (t[0] in '([' and t[-1] in ')]' and _balanced(t))) else '(' + t + ')'


def _balanced(t):
    d = 0
    for i, c in enumerate(t):
        if c in '([':
            d += 1
        elif c in ')]':
            d -= 1
            if d == 0 and i != len(t) - 1:
                return False
    return d == 0


def _params(fn):
    a = fn.args
    if a.vararg or a.kwarg or a.kwonlyargs or a.posonlyargs:
        raise Problem('%s: unexpected parameter kinds' % fn.name)
    return [x.arg for x in a.args][1:]


def _bind(call, params, what):
    got = {}
    for i, a in enumerate(call.args):
        if isinstance(a, ast.Starred) or i >= len(params):
            raise Problem('%s: cannot bind positional argument %d' % (what, i))
        got[params[i]] = a
    for kw in call.keywords:
        if kw.arg is None or kw.arg not in params or kw.arg in got:
            raise Problem('%s: cannot bind keyword %r' % (what, kw.arg))
        got[kw.arg] = kw.value
    return got


def _is_none(e):
    return isinstance(e, ast.Constant) and e.value is None


class Dir:
    def __init__(self, fn, kind, consts, sigs, types, tracked_extra=()):
        self.fn, self.kind, self.consts, self.sigs = fn, kind, consts, sigs
        self.env = {}
        for p, ty in types.items():
            self.env[p] = ('v_' + p, ty)
        self.register = None
        self.plumb = []          # source text of every statement NOT translated (masked pin)
        self.selfname = fn.args.args[0].arg

    # ---------------------------------------------------------------- expressions
    def expr(self, e, env):
        if isinstance(e, ast.Name):
            if e.id in env:
                return env[e.id]
            if e.id in self.consts:
                return self.consts[e.id], 'node'
            raise Problem('unknown name %s' % e.id)
        if isinstance(e, ast.Constant) and isinstance(e.value, str):
            return coq_text(e.value), 'node'
        if isinstance(e, ast.Tuple) and e.elts:
            parts = [self.expr(x, env) for x in e.elts]
            if any(t != 'node' for _, t in parts):
                raise Problem('tuple %s' % u(e))
            return '[%s]' % '; '.join(p for p, _ in parts), 'nodes'
        if isinstance(e, ast.BinOp) and isinstance(e.op, ast.Add):
            a, ta = self.expr(e.left, env)
            b, tb = self.expr(e.right, env)
            if ta != 'nodes' or tb != 'nodes':
                raise Problem('%s + %s' % (ta, tb))
            return '%s ++ %s' % (par(a), par(b)), 'nodes'
        if isinstance(e, ast.Call) and isinstance(e.func, ast.Name) and e.func.id == 'as_sorted_tuple' \
                and len(e.args) == 1 and not e.keywords:
            a, ta = self.expr(e.args[0], env)
            if ta == 'hint':
                return 'as_sorted_tuple %s' % par(a), 'nodes'
            if ta == 'nodes':
                return 'sort_texts %s' % par(a), 'nodes'
            raise Problem('as_sorted_tuple(%s)' % ta)
        raise Problem('expression outside the table: %s' % u(e))

    def cond(self, c, env, guards=()):
        if isinstance(c, ast.BoolOp):
            parts, g = [], list(guards)
            for v in c.values:
                parts.append(par(self.cond(v, env, tuple(g))))
                if isinstance(c.op, ast.And) and isinstance(v, ast.Call) and isinstance(v.func, ast.Name) \
                        and v.func.id == 'is_nonstr_iter' and len(v.args) == 1 and isinstance(v.args[0], ast.Name):
                    g.append(v.args[0].id)
            return (' && ' if isinstance(c.op, ast.And) else ' || ').join(parts)
        if isinstance(c, ast.UnaryOp) and isinstance(c.op, ast.Not):
            return 'negb %s' % par(self.cond(c.operand, env, ()))
        if isinstance(c, ast.Name) and c.id in env and env[c.id][1] == 'bool':
            return env[c.id][0]
        if isinstance(c, ast.Call) and isinstance(c.func, ast.Name) and c.func.id == 'is_nonstr_iter' \
                and len(c.args) == 1 and not c.keywords:
            a, ta = self.expr(c.args[0], env)
            if ta != 'hint':
                raise Problem('is_nonstr_iter(%s)' % ta)
            return 'hint_is_many %s' % par(a)
        if isinstance(c, ast.Compare) and len(c.ops) == 1:
            op, l, r = c.ops[0], c.left, c.comparators[0]
            if isinstance(op, (ast.Is, ast.IsNot)):
                a, ta = self.expr(l, env)
                if ta != 'hint':
                    raise Problem('identity test on %s (%s)' % (ta, u(c)))
                if _is_none(r):
                    t = 'hint_is_none %s' % par(a)
                else:
                    b, tb = self.expr(r, env)
                    if not (isinstance(r, ast.Name) and r.id in self.consts):
                        raise Problem('identity test against %s' % u(r))
                    t = 'hint_is_one %s %s' % (par(b), par(a))
                return t if isinstance(op, ast.Is) else 'negb (%s)' % t
            if isinstance(op, (ast.In, ast.NotIn)):
                a, ta = self.expr(l, env)
                b, tb = self.expr(r, env)
                if ta != 'node':
                    raise Problem('membership of %s' % ta)
                if tb == 'nodes':
                    t = 'mem_text %s %s' % (par(a), par(b))
                elif tb == 'hint' and isinstance(r, ast.Name) and r.id in guards:
                    t = 'hint_many_has %s %s' % (par(a), par(b))
                else:
                    raise Problem('membership in %s without an is_nonstr_iter guard: %s' % (tb, u(c)))
                return t if isinstance(op, ast.In) else 'negb (%s)' % t
            if isinstance(op, (ast.Eq, ast.NotEq)):
                a, ta = self.expr(l, env)
                b, tb = self.expr(r, env)
                if ta != 'node' or tb != 'node':
                    raise Problem('comparison of %s and %s' % (ta, tb))
                t = 'text_eqb %s %s' % (par(a), par(b))
                return t if isinstance(op, ast.Eq) else 'negb (%s)' % t
        raise Problem('condition outside the table: %s' % u(c))

    # ---------------------------------------------------------------- messages
    def code(self, exc):
        if not (isinstance(exc, ast.Call) and isinstance(exc.func, ast.Name) and exc.func.id == 'ConfigurationError'
                and len(exc.args) == 1 and not exc.keywords):
            raise Problem('raise %s' % u(exc))
        a = exc.args[0]
        if isinstance(a, ast.BinOp) and isinstance(a.op, ast.Mod) and isinstance(a.left, ast.Constant):
            lit = a.left.value
        elif isinstance(a, ast.Constant):
            lit = a.value
        elif isinstance(a, ast.JoinedStr):
            lit = ''.join(v.value for v in a.values if isinstance(v, ast.Constant))
        else:
            raise Problem('error message %s' % u(a))
        if not isinstance(lit, str):
            raise Problem('error message %s' % u(a))
        hits = [c for frag, c in MESSAGES[self.kind] if frag in lit]
        if len(hits) != 1:
            raise Problem('error message not in the table: %r' % lit)
        return hits[0]

    # ---------------------------------------------------------------- statements
    def tracked(self, env):
        return {k for k, (_, ty) in env.items() if ty in ('node', 'val', 'hint', 'nodes', 'bool')}

    def is_plumbing(self, st, env):
        """statements that cannot change a tracked variable"""
        tr = self.tracked(env)

        def untracked_target(t):
            return isinstance(t, ast.Name) and t.id not in tr

        if isinstance(st, ast.Assign) and len(st.targets) == 1:
            t, v = st.targets[0], st.value
            if untracked_target(t):
                src = u(v)
                if t.id in ('registry', 'introspectables', 'discriminator', 'tween_type', 'intr', 'tweens', 'derivers'):
                    ok = (src in ('self.registry', '[]') or isinstance(v, ast.Tuple) or isinstance(v, ast.BoolOp)
                          or src.startswith('self.introspectable(') or src.startswith('registry.queryUtility(')
                          or src.startswith('self.registry.queryUtility(') or src in ('Tweens()',)
                          or src.startswith('TopologicalSorter('))
                    if ok:
                        return True
            if isinstance(t, ast.Subscript) and isinstance(t.value, ast.Name) and t.value.id == 'intr' \
                    and 'intr' not in tr and isinstance(t.slice, ast.Constant):
                return True
        if isinstance(st, ast.Expr) and isinstance(st.value, ast.Call):
            src = u(st.value)
            if src == 'introspectables.append(intr)' or src.startswith('registry.registerUtility(') \
                    or src.startswith('self.registry.registerUtility('):
                return True
        if isinstance(st, ast.If) and not st.orelse and isinstance(st.test, ast.Compare) and len(st.test.ops) == 1 \
                and isinstance(st.test.ops[0], ast.Is) and _is_none(st.test.comparators[0]) \
                and isinstance(st.test.left, ast.Name) and st.test.left.id in ('tweens', 'derivers') \
                and st.test.left.id not in tr and all(self.is_plumbing(x, env) for x in st.body):
            return True          # the utility is created on first use
        return False

    def is_type_validation_loop(self, st, env):
        if not (isinstance(st, ast.For) and not st.orelse and isinstance(st.target, ast.Tuple) and len(st.target.elts) == 2
                and all(isinstance(x, ast.Name) for x in st.target.elts) and isinstance(st.iter, ast.List)):
            return False
        p = st.target.elts[1].id
        for el in st.iter.elts:
            if not (isinstance(el, ast.Tuple) and len(el.elts) == 2 and isinstance(el.elts[0], ast.Constant)
                    and isinstance(el.elts[1], ast.Name) and env.get(el.elts[1].id, (None, None))[1] == 'hint'):
                return False
        if len(st.body) != 1:
            return False
        b = st.body[0]
        if not (isinstance(b, ast.If) and not b.orelse and u(b.test) == '%s is not None' % p and len(b.body) == 1):
            return False
        c = b.body[0]
        return (isinstance(c, ast.If) and not c.orelse and u(c.test) == 'not is_string_or_iterable(%s)' % p
                and len(c.body) == 1 and isinstance(c.body[0], ast.Raise))

    def block(self, stmts, env):
        if not stmts:
            raise Problem('the function ends without running its action')
        st, rest = stmts[0], stmts[1:]
        if isinstance(st, ast.Expr) and isinstance(st.value, ast.Constant) and isinstance(st.value.value, str):
            return self.block(rest, env)
        # the closing statement: self.action(discriminator, register, ...)
        if isinstance(st, ast.Expr) and isinstance(st.value, ast.Call) and u(st.value.func) == '%s.action' % self.selfname:
            c = st.value
            if rest:
                raise Problem('statements after self.action(..)')
            if self.register is None or len(c.args) < 2 or not (isinstance(c.args[1], ast.Name) and c.args[1].id == 'register'):
                raise Problem('self.action does not run register')
            self.plumb.append(u(st))
            return self.register_body(self.register, env)
        if isinstance(st, ast.Return) and self.kind == 'tween_directive':
            return self.directive_return(st, env, rest)
        if isinstance(st, ast.FunctionDef):
            if st.name != 'register' or self.register is not None or st.args.args or st.decorator_list:
                raise Problem('closure %s' % st.name)
            self.register = st
            reads = {n.id for n in ast.walk(st) if isinstance(n, ast.Name)} & self.tracked(env)
            for later in rest:
                for n in ast.walk(later):
                    tg = []
                    if isinstance(n, ast.Assign):
                        tg = n.targets
                    elif isinstance(n, (ast.AugAssign, ast.AnnAssign)):
                        tg = [n.target]
                    elif isinstance(n, (ast.For, ast.comprehension)):
                        tg = [n.target]
                    elif isinstance(n, ast.NamedExpr):
                        tg = [n.target]
                    for t in tg:
                        for m in ast.walk(t):
                            if isinstance(m, ast.Name) and m.id in reads:
                                raise Problem('%s is re-bound after register() was defined (the closure sees the latest binding)' % m.id)
            return self.block(rest, env)
        if self.is_plumbing(st, env):
            self.plumb.append(u(st))
            return self.block(rest, env)
        if self.is_type_validation_loop(st, env):
            self.plumb.append(u(st))
            return self.block(rest, env)
        if isinstance(st, ast.Assign) and len(st.targets) == 1 and isinstance(st.targets[0], ast.Name):
            t, v = st.targets[0].id, st.value
            # x = self.maybe_dotted(x)
            if isinstance(v, ast.Call) and u(v.func) == '%s.maybe_dotted' % self.selfname and len(v.args) == 1 \
                    and isinstance(v.args[0], ast.Name) and v.args[0].id == t and t in env:
                ty = env[t][1]
                env2 = dict(env)
                if ty == 'val':
                    return self.block(rest, env2)
                if ty == 'node':
                    # the dotted name was copied to another variable before? it must not be used as a name afterwards
                    env2[t] = ('resolved', 'val')
                    return self.block(rest, env2)
                raise Problem('maybe_dotted(%s)' % ty)
            if isinstance(v, ast.Name) and v.id in env and t not in env:
                env2 = dict(env)
                env2[t] = env[v.id]                      # alias (name = tween_factory)
                return self.block(rest, env2)
            term, ty = self.expr(v, env)
            env2 = dict(env)
            env2[t] = ('v_' + t, ty)
            return 'let v_%s := %s in\n%s' % (t, term, self.block(rest, env2))
        if isinstance(st, ast.If) and not st.orelse and len(st.body) == 1 and isinstance(st.body[0], ast.If) \
                and not st.body[0].orelse:
            # if A: if B: X   ==   if A and B: X
            inner = st.body[0]
            flat = ast.If(test=ast.BoolOp(op=ast.And(), values=[st.test, inner.test]), body=inner.body, orelse=[])
            return self.block([ast.copy_location(flat, st)] + rest, env)
        if isinstance(st, ast.If) and not st.orelse:
            # skipped by typing
            src = u(st.test)
            if isinstance(st.test, ast.Compare) and len(st.test.ops) == 1 and isinstance(st.test.ops[0], ast.Is) \
                    and _is_none(st.test.comparators[0]) and isinstance(st.test.left, ast.Name) \
                    and env.get(st.test.left.id, (None, None))[1] == 'node' and len(st.body) == 1 \
                    and isinstance(st.body[0], ast.Assign) and u(st.body[0].targets[0]) == st.test.left.id \
                    and u(st.body[0].value).endswith('.__name__'):
                self.plumb.append(u(st))
                return self.block(rest, env)
            if isinstance(st.test, ast.UnaryOp) and isinstance(st.test.op, ast.Not) and isinstance(st.test.operand, ast.Call) \
                    and u(st.test.operand.func) == 'isinstance' and len(st.test.operand.args) == 2 \
                    and u(st.test.operand.args[1]) == 'str' and isinstance(st.test.operand.args[0], ast.Name) \
                    and env.get(st.test.operand.args[0].id, (None, None))[1] == 'node' \
                    and len(st.body) == 1 and isinstance(st.body[0], ast.Raise):
                self.plumb.append(u(st))
                return self.block(rest, env)
            if len(st.body) == 1 and isinstance(st.body[0], ast.Raise):
                c = self.cond(st.test, env)
                return 'if %s then inl %d%%N else\n%s' % (c, self.code(st.body[0].exc), self.block(rest, env))
            if len(st.body) == 1 and isinstance(st.body[0], ast.Assign) and len(st.body[0].targets) == 1 \
                    and isinstance(st.body[0].targets[0], ast.Name) and st.body[0].targets[0].id in env:
                t = st.body[0].targets[0].id
                old, oty = env[t]
                # if x is None: x = 'lit'
                if oty == 'hint' and src == '%s is None' % t and isinstance(st.body[0].value, ast.Constant) \
                        and isinstance(st.body[0].value.value, str):
                    return 'let v_%s := if hint_is_none %s then HOne %s else %s in\n%s' % (
                        t, old, coq_text(st.body[0].value.value), old, self.block(rest, dict(env, **{t: ('v_' + t, 'hint')})))
                c = self.cond(st.test, env)
                term, ty = self.expr(st.body[0].value, env)
                if ty != oty:
                    raise Problem('%s changes its type in one branch' % t)
                return 'let v_%s := if %s then %s else %s in\n%s' % (
                    t, c, term, old, self.block(rest, dict(env, **{t: ('v_' + t, ty)})))
        raise Problem('statement outside the subset: %s' % u(st).split('\n')[0])

    # ---------------------------------------------------------------- register()
    def register_body(self, fn, env):
        body = [s for s in fn.body if not self.is_plumbing(s, env)]
        self.plumb += ['register: ' + u(s) for s in fn.body if self.is_plumbing(s, env)]
        if self.kind == 'deriver':
            if len(body) != 1 or not (isinstance(body[0], ast.Expr) and isinstance(body[0].value, ast.Call)
                                      and u(body[0].value.func) == 'derivers.add'):
                raise Problem('register(): expected exactly derivers.add(..)')
            got = _bind(body[0].value, self.sigs['sorter.add'], 'derivers.add')
            if set(got) != {'name', 'val', 'after', 'before'}:
                raise Problem('derivers.add arguments %r' % sorted(got))
            n, tn = self.expr(got['name'], env)
            v, tv = self.expr(got['val'], env)
            if (n, tn) != env.get('name') or tv != 'val':
                raise Problem('derivers.add(name, val) are not the directive\'s name / deriver')
            a, ta = self.expr(got['after'], env)
            b, tb = self.expr(got['before'], env)
            if ta != 'nodes' or tb != 'nodes':
                raise Problem('derivers.add hints of type %s / %s' % (ta, tb))
            return 'inr (%s, %s)' % (a, b)
        if len(body) != 1 or not (isinstance(body[0], ast.If) and len(body[0].body) == 1 and len(body[0].orelse) == 1):
            raise Problem('register(): expected if explicit: .. else: ..')
        st = body[0]
        c = self.cond(st.test, env)

        def call(s, meth):
            if not (isinstance(s, ast.Expr) and isinstance(s.value, ast.Call) and u(s.value.func) == 'tweens.' + meth):
                return None
            return _bind(s.value, self.sigs[meth], meth)

        def branch(s):
            g = call(s, 'add_explicit')
            if g is not None:
                if set(g) != {'name', 'factory'}:
                    raise Problem('add_explicit arguments')
                n, tn = self.expr(g['name'], env)
                f, tf = self.expr(g['factory'], env)
                if tn != 'node' or tf != 'val':
                    raise Problem('add_explicit(%s, %s)' % (tn, tf))
                return 'TRExplicit %s %s' % (par(n), par(f))
            g = call(s, 'add_implicit')
            if g is not None:
                if not {'name', 'factory'} <= set(g):
                    raise Problem('add_implicit arguments')
                n, tn = self.expr(g['name'], env)
                f, tf = self.expr(g['factory'], env)
                if tn != 'node' or tf != 'val':
                    raise Problem('add_implicit(%s, %s)' % (tn, tf))
                hs = []
                for k in ('under', 'over'):
                    if k in g:
                        h, th = self.expr(g[k], env)
                        if th != 'hint':
                            raise Problem('add_implicit %s of type %s' % (k, th))
                    else:
                        h = 'HNone'
                    hs.append(par(h))
                return 'TRImplicit %s %s %s %s' % (par(n), par(f), hs[0], hs[1])
            raise Problem('register(): call outside the table: %s' % u(s))
        return 'inr (if %s then %s else %s)' % (c, branch(st.body[0]), branch(st.orelse[0]))

    def directive_return(self, st, env, rest):
        if rest:
            raise Problem('statements after return')
        c = st.value
        if not (isinstance(c, ast.Call) and u(c.func) == '%s._add_tween' % self.selfname):
            raise Problem('add_tween does not return self._add_tween(..)')
        got = _bind(c, self.sigs['_add_tween'], '_add_tween')
        if 'tween_factory' not in got:
            raise Problem('_add_tween without tween_factory')
        n, tn = self.expr(got['tween_factory'], env)
        if tn != 'node':
            raise Problem('_add_tween(tween_factory : %s)' % tn)
        hs = []
        for k in ('under', 'over'):
            if k in got:
                h, th = self.expr(got[k], env)
                if th != 'hint':
                    raise Problem('_add_tween %s of type %s' % (k, th))
            else:
                h = 'HNone'
            hs.append(par(h))
        e = got.get('explicit')
        if e is None:
            ex = self.sigs['_add_tween.explicit_default']
        elif isinstance(e, ast.Constant) and isinstance(e.value, bool):
            ex = 'true' if e.value else 'false'
        else:
            raise Problem('explicit=%s' % u(e))
        return 'gen_add_tween %s resolved %s %s %s' % (par(n), hs[0], hs[1], ex)


def _find(tree, qual):
    node = tree
    for part in qual.split('.'):
        nxt = None
        for ch in (node.body if hasattr(node, 'body') else []):
            if isinstance(ch, (ast.FunctionDef, ast.ClassDef)) and ch.name == part:
                nxt = ch
        if nxt is None:
            raise Problem('%s not found' % qual)
        node = nxt
    return node


def _defaults_none(fn, names):
    """the listed trailing parameters default to None"""
    a = fn.args
    ps = [x.arg for x in a.args]
    d = dict(zip(ps[len(ps) - len(a.defaults):], a.defaults))
    for n in names:
        if n not in d or not _is_none(d[n]):
            raise Problem('%s: parameter %s does not default to None' % (fn.name, n))
    return d


def _imports_const(tree, module, names):
    got = set()
    for st in tree.body:
        if isinstance(st, ast.ImportFrom) and st.module == module:
            for al in st.names:
                if al.name in names and al.asname in (None, al.name):
                    got.add(al.name)
    for st in ast.walk(tree):
        # the constants must not be re-bound anywhere in the module
        if isinstance(st, ast.Assign):
            for t in st.targets:
                if isinstance(t, ast.Name) and t.id in names:
                    raise Problem('%s is re-bound in the module' % t.id)
    if got != set(names):
        raise Problem('constants %s are not imported from %s' % (sorted(set(names) - got), module))


def pass_chain(fn, types, sigs, callee_src, callee_params, want, plumb_extra=(), need_register=False, lead=()):
    """A function that only PASSES ITS ARGUMENTS ON (PredicateList.add, _add_predicate, add_*_predicate): plumbing
    statements (hashed), optionally a register() closure run by self.action, and exactly one call `callee_src(..)` whose
    arguments are bound to the callee's parameter names.  -> (tuple term in the order `want`, plumbing texts).
    lead: (statement source prefix, parameter) pairs for statements like `predlist = self.get_predlist(type)` whose
    single argument must be that parameter and is emitted first."""
    d = Dir(fn, 'pass', {}, sigs, types)
    env = dict(d.env)
    plumb, out_lead = [], []
    register = None

    def is_doc(st):
        return isinstance(st, ast.Expr) and isinstance(st.value, ast.Constant) and isinstance(st.value.value, str)

    def find_call(stmts, env):
        term = None
        for st in stmts:
            if is_doc(st):
                continue
            if isinstance(st, ast.Expr) and isinstance(st.value, ast.Call) and u(st.value.func) == callee_src:
                if term is not None:
                    raise Problem('%s: two calls of %s' % (fn.name, callee_src))
                got = _bind(st.value, callee_params, callee_src)
                if set(got) != set(want):
                    raise Problem('%s: %s called with %r' % (fn.name, callee_src, sorted(got)))
                parts = []
                for k in want:
                    t, ty = d.expr(got[k], env)
                    parts.append((t, ty))
                term = parts
                continue
            hit = False
            for prefix, param in lead:
                if isinstance(st, ast.Assign) and u(st).startswith(prefix) and isinstance(st.value, ast.Call) \
                        and len(st.value.args) == 1 and not st.value.keywords and isinstance(st.value.args[0], ast.Name) \
                        and st.value.args[0].id == param and param in env:
                    out_lead.append(env[param])
                    hit = True
            if hit:
                continue
            if d.is_plumbing(st, env) or any(u(st).startswith(x) for x in plumb_extra):
                plumb.append(u(st))
                continue
            if isinstance(st, ast.Assign) and len(st.targets) == 1 and isinstance(st.targets[0], ast.Name) \
                    and isinstance(st.value, ast.Call) and u(st.value.func) == '%s.maybe_dotted' % d.selfname \
                    and len(st.value.args) == 1 and u(st.value.args[0]) == st.targets[0].id \
                    and env.get(st.targets[0].id, (None, None))[1] == 'val':
                continue                                   # x = self.maybe_dotted(x) on an object: itself
            raise Problem('%s: statement outside the subset: %s' % (fn.name, u(st).split('\n')[0]))
        return term

    body = list(fn.body)
    if need_register:
        regs = [st for st in body if isinstance(st, ast.FunctionDef)]
        if len(regs) != 1 or regs[0].name != 'register' or regs[0].args.args or regs[0].decorator_list:
            raise Problem('%s: expected one closure register()' % fn.name)
        register = regs[0]
        i = body.index(register)
        last = body[-1]
        if not (isinstance(last, ast.Expr) and isinstance(last.value, ast.Call) and u(last.value.func) == '%s.action' % d.selfname
                and len(last.value.args) >= 2 and u(last.value.args[1]) == 'register'):
            raise Problem('%s: the last statement does not run register through self.action' % fn.name)
        reads = {n.id for n in ast.walk(register) if isinstance(n, ast.Name)} & set(env)
        for later in body[i + 1:]:
            for n in ast.walk(later):
                if isinstance(n, (ast.Assign, ast.AugAssign, ast.For, ast.NamedExpr, ast.AnnAssign)):
                    for t in (n.targets if isinstance(n, ast.Assign) else [n.target]):
                        for m in ast.walk(t):
                            if isinstance(m, ast.Name) and m.id in reads:
                                raise Problem('%s: %s is re-bound after register() was defined' % (fn.name, m.id))
        pre = find_call(body[:i] + body[i + 1:-1], env)
        if pre is not None:
            raise Problem('%s: %s called outside register()' % (fn.name, callee_src))
        plumb.append(u(last))
        term = find_call(register.body, env)
    else:
        if any(isinstance(st, ast.FunctionDef) for st in body):
            raise Problem('%s: unexpected closure' % fn.name)
        term = find_call(body, env)
    if term is None:
        raise Problem('%s: no call of %s' % (fn.name, callee_src))
    if len(out_lead) != len(lead):
        raise Problem('%s: lead statements %r not found exactly once' % (fn.name, [x for x, _ in lead]))
    return out_lead + term, plumb


def translate_tree(src):
    problems, summary = [], {}
    try:
        def parse(rel):
            with open(os.path.join(src, rel)) as f:
                return ast.parse(f.read())
        ut, tw, vw = parse('pyramid/util.py'), parse('pyramid/config/tweens.py'), parse('pyramid/config/views.py')
        sigs = {'sorter.add': _params(_find(ut, 'TopologicalSorter.add')),
                'add_explicit': _params(_find(tw, 'Tweens.add_explicit')),
                'add_implicit': _params(_find(tw, 'Tweens.add_implicit'))}
        out = []
        masked = {}

        def mask(key, d):
            import hashlib
            masked[key] = hashlib.sha1('\n'.join(d.plumb).encode()).hexdigest()[:16]
        # ---- add_view_deriver
        fn = _find(vw, 'ViewsConfiguratorMixin.add_view_deriver')
        if _params(fn) != ['deriver', 'name', 'under', 'over']:
            raise Problem('add_view_deriver signature %r' % _params(fn))
        _defaults_none(fn, ['name', 'under', 'over'])
        _imports_const(vw, 'pyramid.viewderivers', ['INGRESS', 'VIEW'])
        d = Dir(fn, 'deriver', {'INGRESS': 'dv_ingress', 'VIEW': 'dv_view'}, sigs,
                {'deriver': 'val', 'name': 'node', 'under': 'hint', 'over': 'hint'})
        body = d.block(fn.body, d.env)
        mask('pyramid/config/views.py:ViewsConfiguratorMixin.add_view_deriver#untranslated', d)
        out.append('Definition gen_deriver_args (v_name : node) (v_under : hint) (v_over : hint) : '
                   'N + (list node * list node) :=\n%s.\n' % body)
        # ---- _add_tween
        fn = _find(tw, 'TweensConfiguratorMixin._add_tween')
        if _params(fn) != ['tween_factory', 'under', 'over', 'explicit']:
            raise Problem('_add_tween signature %r' % _params(fn))
        dflt = _defaults_none(fn, ['under', 'over'])
        ed = dflt.get('explicit')
        if not (isinstance(ed, ast.Constant) and isinstance(ed.value, bool)):
            raise Problem('_add_tween explicit default')
        _imports_const(tw, 'pyramid.tweens', ['INGRESS', 'MAIN'])
        d = Dir(fn, 'tween', {'INGRESS': 'tw_ingress', 'MAIN': 'tw_main'}, sigs,
                {'tween_factory': 'node', 'under': 'hint', 'over': 'hint', 'explicit': 'bool'})
        body = d.block(fn.body, d.env)
        mask('pyramid/config/tweens.py:TweensConfiguratorMixin._add_tween#untranslated', d)
        out.append('Definition gen_add_tween (v_tween_factory : node) (resolved : N) (v_under : hint) (v_over : hint) '
                   '(v_explicit : bool) : N + tw_reg :=\n%s.\n' % body)
        # ---- add_tween
        fn = _find(tw, 'TweensConfiguratorMixin.add_tween')
        if _params(fn) != ['tween_factory', 'under', 'over']:
            raise Problem('add_tween signature %r' % _params(fn))
        _defaults_none(fn, ['under', 'over'])
        sigs2 = dict(sigs)
        sigs2['_add_tween'] = ['tween_factory', 'under', 'over', 'explicit']
        sigs2['_add_tween.explicit_default'] = 'true' if ed.value else 'false'
        d = Dir(fn, 'tween_directive', {}, sigs2, {'tween_factory': 'node', 'under': 'hint', 'over': 'hint'})
        body = d.block(fn.body, d.env)
        out.append('Definition gen_add_tween_directive (v_tween_factory : node) (resolved : N) (v_under : hint) '
                   '(v_over : hint) : N + tw_reg :=\n%s.\n' % body)
        # ---- predicate directives: add_{view,route,subscriber}_predicate -> _add_predicate -> PredicateList.add -> sorter.add
        pr = parse('pyramid/config/predicates.py')
        H4 = {'name': 'node', 'factory': 'val', 'weighs_more_than': 'hint', 'weighs_less_than': 'hint'}
        SIG4 = '(v_name : node) (v_factory : N) (v_weighs_more_than : hint) (v_weighs_less_than : hint)'

        def tuple_term(parts, tys):
            if [t for _, t in parts] != tys:
                raise Problem('argument types %r where %r are expected' % ([t for _, t in parts], tys))
            return '(%s)' % ', '.join(x for x, _ in parts)
        fn = _find(pr, 'PredicateList.add')
        if _params(fn) != ['name', 'factory', 'weighs_more_than', 'weighs_less_than'] or fn.decorator_list:
            raise Problem('PredicateList.add signature')
        _defaults_none(fn, ['weighs_more_than', 'weighs_less_than'])
        parts, pl = pass_chain(fn, H4, sigs, 'self.sorter.add', sigs['sorter.add'], ['name', 'val', 'after', 'before'],
                               plumb_extra=('self.last_added = ',))
        out.append('Definition gen_pl_add %s : node * N * hint * hint :=\n%s.\n'
                   % (SIG4, tuple_term(parts, ['node', 'val', 'hint', 'hint'])))
        plumb_all = ['PredicateList.add: ' + x for x in pl]
        fn = _find(pr, 'PredicateConfiguratorMixin._add_predicate')
        ap_params = _params(fn)
        if ap_params != ['type', 'name', 'factory', 'weighs_more_than', 'weighs_less_than'] or fn.decorator_list:
            raise Problem('_add_predicate signature %r' % ap_params)
        _defaults_none(fn, ['weighs_more_than', 'weighs_less_than'])
        parts, pl = pass_chain(fn, dict(H4, type='node'), sigs, 'predlist.add', _params(_find(pr, 'PredicateList.add')),
                               ['name', 'factory', 'weighs_more_than', 'weighs_less_than'], need_register=True,
                               lead=(('predlist = self.get_predlist(', 'type'),))
        out.append('Definition gen_add_predicate (v_type : node) %s : node * node * N * hint * hint :=\n%s.\n'
                   % (SIG4, tuple_term(parts, ['node', 'node', 'val', 'hint', 'hint'])))
        plumb_all += ['_add_predicate: ' + x for x in pl]
        for kind, tree, qual in (('view', vw, 'ViewsConfiguratorMixin.add_view_predicate'),
                                 ('route', parse('pyramid/config/routes.py'), 'RoutesConfiguratorMixin.add_route_predicate'),
                                 ('subscriber', parse('pyramid/config/adapters.py'),
                                  'AdaptersConfiguratorMixin.add_subscriber_predicate')):
            fn = _find(tree, qual)
            if _params(fn) != ['name', 'factory', 'weighs_more_than', 'weighs_less_than']:
                raise Problem('%s signature' % qual)
            _defaults_none(fn, ['weighs_more_than', 'weighs_less_than'])
            if [u(x) for x in fn.decorator_list] != ['action_method']:
                raise Problem('%s decorators' % qual)
            parts, pl = pass_chain(fn, H4, sigs, 'self._add_predicate', ap_params, ap_params)
            out.append('Definition gen_pred_directive_%s %s : node * node * N * hint * hint :=\n%s.\n'
                       % (kind, SIG4, tuple_term(parts, ['node', 'node', 'val', 'hint', 'hint'])))
            plumb_all += ['%s: %s' % (qual, x) for x in pl]
        import hashlib
        masked['pyramid/config/predicates.py:predicate-directive-chain#untranslated'] = \
            hashlib.sha1('\n'.join(plumb_all).encode()).hexdigest()[:16]
        summary['masked_pins'] = masked
        for f in (_find(vw, 'ViewsConfiguratorMixin.add_view_deriver'), _find(tw, 'TweensConfiguratorMixin._add_tween'),
                  _find(tw, 'TweensConfiguratorMixin.add_tween')):
            decos = [u(x) for x in f.decorator_list]
            if decos != ['action_method']:
                raise Problem('%s decorators %r' % (f.name, decos))
        text = '\n'.join(out)
        summary['translated_directives'] = GEN_NAMES
    except (Problem, OSError, SyntaxError, KeyError, IndexError, AttributeError, TypeError) as e:
        problems.append('directive translator: %s: %s' % (type(e).__name__, e))
        with open(FALLBACK) as f:
            text = json.load(f)['text']
        summary['translated_directives'] = 'FALLBACK (%s)' % e
    # masked pins: the statements the translator skips (introspection, utility creation, the action call with its
    # order= / introspectables= arguments, type validation) are hashed and compared with the stored text
    try:
        with open(os.path.join(HERE, 'masked_pins.json')) as f:
            want = json.load(f)
    except OSError:
        want = {}
    for k, v in summary.get('masked_pins', {}).items():
        if want.get(k) != v:
            problems.append('masked pin %s changed (%s -> %s): the untranslated statements of this directive '
                            '(introspection / action plumbing) are not the ones the model was written against'
                            % (k, want.get(k), v))
    return text, problems, summary


if __name__ == '__main__':
    import sys
    args = [a for a in sys.argv[1:] if not a.startswith('--')]
    t, p, s = translate_tree(args[0] if args else '/repo/src')
    if '--write-fallback' in sys.argv:
        with open(os.path.join(HERE, 'masked_pins.json'), 'w') as f:
            json.dump(s.get('masked_pins', {}), f, indent=1)
        p = [x for x in p if not x.startswith('masked pin')]
        if p:
            raise SystemExit('problems: %r' % p)
        with open(FALLBACK, 'w') as f:
            json.dump({'text': t}, f)
    print(t)
    print(p, file=sys.stderr)
